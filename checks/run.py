#!/usr/bin/env python
"""checks/run.py <property> [quick|thorough]   |   checks/run.py --replay <file>

Decides one property: regenerates VCs from /repo's current working tree for every contract
unit of contracts/<property>.py, discharges them (z3, cvc5 fallback), replays counter-models
on the real code, writes evidence/<property>.json.
Exit: 0 held / 1 violation (VIOLATION line) / 2 undecided / 3 checker error."""
import importlib
import json
import multiprocessing
import os
import sys
import time

HERE = os.path.dirname(os.path.dirname(os.path.abspath(__file__)))
sys.path.insert(0, HERE)
os.chdir(HERE)
os.environ.setdefault('SCMO_VERIF', '1')

from pyvc.loader import REPO   # noqa: E402
if REPO not in sys.path:
    sys.path.insert(0, REPO)       # replays import the tree the VCs came from (SCMO_REPO, default /repo)
OUT = os.environ.get('VERIF_OUT', HERE)      # where evidence/ and replays/ are written (default: /verif itself)
if os.environ.get('VERIF_ONLY') and 'VERIF_OUT' not in os.environ:
    OUT = os.path.join(HERE, '.scratch', 'only_out')      # a filtered debugging run never overwrites the registered evidence

from pyvc import contract as C   # noqa: E402
from pyvc.units import Lemma, Bounded, run_unit   # noqa: E402

CHECKER_CMD = './check %s %s'


def load_units(prop):
    mod = importlib.import_module('contracts.' + prop.lower())
    units = list(mod.UNITS)
    if hasattr(mod, 'extra_units'):
        units += mod.extra_units()
    return mod, units


def _limit_memory():
    # backstop: no checker process may grow beyond 20 GB of address space (the machine has 64 GB and runs 16 of them);
    # a MemoryError then ends the unit as a checker error instead of the kernel killing an arbitrary process
    try:
        import resource
        resource.setrlimit(resource.RLIMIT_AS, (20 * 1024 ** 3, 20 * 1024 ** 3))
    except Exception:      # noqa: BLE001
        pass


def _worker(job):
    _limit_memory()
    prop, idx, case, tier, seed = job
    mod, units = load_units(prop)
    units = [u for u in units if not getattr(u, 'tiers', None) or tier in u.tiers]
    if os.environ.get('VERIF_ONLY'):
        units = [u for u in units if os.environ['VERIF_ONLY'] in u.uid]
    u = units[idx]
    registry = {x.name: x for x in units if isinstance(x, C.Contract)}
    return run_unit(u, tier, seed, registry, case)


def merge_results(parts):
    out = parts[0]
    for p in parts[1:]:
        out['obligations'] += p.get('obligations', [])
        out['errors'] += p.get('errors', [])
        out['paths'] = out.get('paths', 0) + p.get('paths', 0)
        out['trusted'] = sorted(set(out.get('trusted', [])) | set(p.get('trusted', [])))
        out['contracts_used'] = sorted(set(out.get('contracts_used', [])) | set(p.get('contracts_used', [])))
        out['sources'].update(p.get('sources', {}))
        out['wall_s'] = round(out.get('wall_s', 0) + p.get('wall_s', 0), 3)
        if p.get('cvc5_recheck'):
            cur = out.setdefault('cvc5_recheck', {'agree': 0, 'undecided': 0, 'disagree': 0})
            for k_, v_ in p['cvc5_recheck'].items():
                cur[k_] = cur.get(k_, 0) + v_
    return out


def load_known():
    p = os.path.join(HERE, 'known_findings.json')
    if os.path.exists(p):
        return json.load(open(p))
    return {'findings': [], 'fixed': []}


def match_known(known, prop, ob_id, replay):
    for f in known.get('findings', []):
        if f.get('property') != prop or f.get('obligation') != ob_id:
            continue
        pred = f.get('witness')
        if pred is None:
            return f
        try:
            inputs = (replay or {}).get('inputs') or {}
            if eval(pred, {'__builtins__': {'len': len, 'abs': abs, 'min': min, 'max': max, 'any': any, 'all': all}},
                    dict(inputs)):
                return f
        except Exception:
            continue
    return None


def main(argv):
    if len(argv) >= 2 and argv[0] == '--replay':
        return replay_file(argv[1])
    prop = argv[0]
    tier = argv[1] if len(argv) > 1 else os.environ.get('VERIF_TIER', 'quick')
    seed = int(os.environ.get('VERIF_SEED', '0') or 0)
    t0 = time.time()
    mod, units = load_units(prop)
    units = [u for u in units if not getattr(u, 'tiers', None) or tier in u.tiers]
    only = os.environ.get('VERIF_ONLY')          # debugging aid: run the units whose id contains this text (never registered)
    if only:
        units = [u for u in units if only in u.uid]
    jobs = []
    for i, u in enumerate(units):
        if isinstance(u, C.Contract) and len(u.cases) > 1:
            jobs += [(prop, i, ci, tier, seed) for ci in range(len(u.cases))]
        else:
            jobs.append((prop, i, None, tier, seed))
    nproc = min(16, max(1, len(jobs)))
    if os.environ.get('VERIF_SERIAL'):
        results = [_worker(j) for j in jobs]
    else:
        with multiprocessing.get_context('fork').Pool(nproc) as pool:
            results = pool.map(_worker, jobs, chunksize=1)
    grouped = {}
    for j, r in zip(jobs, results):
        grouped.setdefault(j[1], []).append(r)
    results = [merge_results(grouped[i]) for i in range(len(units))]
    known = load_known()
    obligations, bounded, errors, bounded_obs = [], [], [], []
    trusted, sources, assumptions, contracts_used = set(), {}, [], set()
    violations, undecided, known_lines = [], [], []
    for u, r in zip(units, results):
        errors.extend('%s: %s' % (r.get('unit'), e) for e in r.get('errors', []))
        trusted |= set(r.get('trusted', []))
        sources.update(r.get('sources', {}))
        for a in r.get('assumptions', []):
            if a not in assumptions:
                assumptions.append(a)
        contracts_used |= set(r.get('contracts_used', []))
        if r.get('bounded'):
            bounded.append(r['bounded'])
            if r['bounded'].get('result') == 'violation':
                violations.append((r['bounded']['id'], r['bounded'].get('replay'), bool(r['bounded'].get('confirmed'))))
            continue
        is_bounded = getattr(u, 'bounded', None)
        if is_bounded:
            obs = r.get('obligations', [])
            bounded.append({'id': u.uid, 'bound': is_bounded, 'label': 'bounded (not counted as proved)',
                            'tool': 'pyvc symbolic execution, symbolic contents / concrete size',
                            'obligations': len(obs), 'discharged': sum(1 for o in obs if o['result'] == 'discharged'),
                            'result': ('error' if r.get('errors') or not obs else
                                       'clean' if all(o['result'] == 'discharged' for o in obs) else 'not clean'),
                            'wall_s': r.get('wall_s')})
        for ob in r.get('obligations', []):
            rec = {k: v for k, v in ob.items() if k not in ('cex',)}
            if is_bounded:
                rec['bounded'] = is_bounded
                bounded_obs.append(rec)
            else:
                obligations.append(rec)
            if ob['result'] == 'refuted' or (ob['kind'] == 'vacuity' and ob['result'] != 'discharged'):
                if ob['kind'] == 'vacuity':
                    errors.append('vacuity guard failed: %s' % ob['id'])
                    continue
                rp = None
                if isinstance(u, C.Contract):
                    rp = C.replay_counterexample(u, ob)
                elif ob.get('replay'):
                    rp = ob['replay']
                else:
                    rp = {'status': 'no-input', 'note': 'lemma over contracts: no program input'}
                rec['replay_status'] = rp['status']
                kf = match_known(known, prop, ob['id'], rp)
                path = write_replay(prop, ob, rp, u)
                if kf is not None and rp['status'] in ('confirmed', 'no-input'):
                    known_lines.append('KNOWN-FINDING: property=%s %s' % (prop, kf.get('what', ob['id'])))
                    rec['known_finding'] = True
                    continue
                if rp['status'] == 'not-reproduced' and ob['kind'] in ('post', 'raises'):
                    errors.append('counter-model of %s does not reproduce on the real code (encoder/contract mismatch): %s'
                                  % (ob['id'], json.dumps(rp.get('inputs'))))
                    continue
                violations.append((ob['id'], path, rp['status'] == 'confirmed'))
            elif ob['result'] == 'candidate':
                # undecided by the solvers; a bounded search produced a candidate counter-model: it counts only if the
                # real code reproduces it
                rp = C.replay_counterexample(u, ob) if isinstance(u, C.Contract) else {'status': 'no-input'}
                rec['replay_status'] = rp['status']
                if rp['status'] == 'confirmed':
                    kf = match_known(known, prop, ob['id'], rp)
                    path = write_replay(prop, ob, rp, u)
                    if kf is not None:
                        known_lines.append('KNOWN-FINDING: property=%s %s' % (prop, kf.get('what', ob['id'])))
                        rec['known_finding'] = True
                    else:
                        violations.append((ob['id'], path, True))
                else:
                    undecided.append(ob['id'])
            elif ob['result'] == 'unknown':
                undecided.append(ob['id'])
    recheck = {'agree': 0, 'undecided': 0, 'disagree': 0}
    for r in results:
        for k_, v_ in (r.get('cvc5_recheck') or {}).items():
            recheck[k_] += v_
    n_ob = len(obligations)
    n_dis = sum(1 for o in obligations if o['result'] == 'discharged' or o.get('known_finding'))
    if n_ob == 0 and not bounded:
        errors.append('no obligations generated')
    ev = {
        'property_id': prop, 'tier': tier, 'seed': seed, 'level': getattr(mod, 'LEVEL', 'proof'),
        'coverage': {
            'obligations': n_ob, 'discharged': n_dis,
            'checker_cmd': CHECKER_CMD % (prop, tier),
            'trusted_base': sorted(trusted) + list(getattr(mod, 'TRUSTED', [])),
            'samples': obligations[:400],
            'functions_under_contract': sources,
            'contracts_used_at_call_sites': sorted(contracts_used),
            'bounded_standins': bounded, 'bounded_obligations': bounded_obs[:200],
            'extraction_dropped': ['docstrings', 'print()/logging.*/sys.stderr.write calls (A5)', 'type annotations',
                                   'global statements', 'decorators other than property/staticmethod/classmethod'],
            'undecided': undecided, 'errors': errors,
            'solver_s_total': round(sum(o.get('solver_s', 0) for o in obligations), 3),
            'known_findings_reproduced': known_lines,
            'cvc5_recheck_of_z3_proofs': recheck if tier == 'thorough' else 'thorough tier only',
            'explanation': getattr(mod, 'EXPLANATION', ''),
        },
        'assumptions': assumptions + list(getattr(mod, 'ASSUMPTIONS', [])),
        'wall_s': round(time.time() - t0, 2),
        'violations': len(violations),
    }
    os.makedirs(os.path.join(OUT, 'evidence'), exist_ok=True)
    with open(os.path.join(OUT, 'evidence', prop + '.json'), 'w') as f:
        json.dump(ev, f, indent=1, default=str)
    for line in known_lines:
        print(line)
    print('%s %s: %d obligations, %d discharged, %d bounded stand-ins, %d undecided, %d errors, %.1fs'
          % (prop, tier, n_ob, n_dis, len(bounded), len(undecided), len(errors), time.time() - t0))
    if violations:
        for ob_id, path, confirmed in violations:
            print('VIOLATION property=%s replay=%s obligation=%s%s' % (
                prop, path, ob_id, '' if confirmed else ' no-failing-input-found'))
        return 1
    if errors:
        for e in errors:
            print('CHECKER-ERROR %s' % e)
        return 3
    if undecided:
        for u in undecided:
            print('UNDECIDED property=%s obligation=%s' % (prop, u))
        return 2
    return 0


def write_replay(prop, ob, rp, unit):
    d = os.path.join(OUT, 'replays', prop)
    os.makedirs(d, exist_ok=True)
    name = ob['id'].replace('/', '__').replace(' ', '_')[:150] + '.json'
    path = os.path.join('replays', prop, name)
    cex = dict(ob.get('cex') or {})
    cex.pop('_raw_inputs', None)
    rec = {'property': prop, 'obligation': ob['id'], 'kind': ob['kind'], 'unit': getattr(unit, 'uid', None),
           'target': getattr(unit, 'target', None), 'solver': {'verdict': ob['result'], 'backend': ob.get('backend'),
                                                                'counter_model': cex},
           'replay': rp}
    with open(os.path.join(OUT, path), 'w') as f:
        json.dump(rec, f, indent=1, default=str)
    return path


def replay_file(path):
    rec = json.load(open(path))
    prop = rec['property']
    mod, units = load_units(prop)
    unit = [u for u in units if getattr(u, 'uid', None) == rec['unit']]
    if not unit or not isinstance(unit[0], C.Contract):
        print('replay: unit %s has no program input; solver output follows' % rec['unit'])
        print(json.dumps(rec['solver'], indent=1))
        return 0
    inputs = rec['replay'].get('inputs')
    if inputs is None:
        print(json.dumps(rec['solver'], indent=1))
        return 0
    c = unit[0]
    from pyvc.contract import replay_counterexample
    shaped = reshape_inputs(c, inputs)
    rp = replay_counterexample(c, {'cex': {'_raw_inputs': shaped}, 'clause': rec['obligation'].split('/')[-1]})
    print(json.dumps(rp, indent=1, default=str))
    return 1 if rp['status'] == 'confirmed' else 0


def reshape_inputs(c, inputs):
    def fix(v):
        if isinstance(v, list):
            return [tuple(fix(x)) if isinstance(x, list) else fix(x) for x in v]
        return v
    out = {}
    for k, v in inputs.items():
        spec = c.params.get(k)
        if isinstance(spec, tuple) and spec and spec[0] == 'tuple' and isinstance(v, list):
            v = tuple(v)
        out[k] = fix(v) if isinstance(v, list) else v
    return out


if __name__ == '__main__':
    try:
        rc = main(sys.argv[1:])
    except SystemExit:
        raise
    except BaseException as e:       # a crash of the checker is never a verdict about the code: exit 3
        import traceback
        traceback.print_exc()
        print('CHECKER-ERROR checker crashed: %s: %s' % (type(e).__name__, str(e)[:300]))
        rc = 3
    sys.exit(rc)
