#!/bin/sh
# Build the overlay interpreter /verif/.ovenv: python 3.12 of /venv (repo deps: pysam, numpy, ...)
# plus z3-solver/crosshair/icontract/deal/jsonschema from the offline wheelhouse. Idempotent.
set -e
cd "$(dirname "$0")/.."
OV=.ovenv
if [ -x "$OV/bin/python" ] && "$OV/bin/python" -c "import z3, pysam, jsonschema" 2>/dev/null; then
  echo "overlay venv present"; exit 0
fi
rm -rf "$OV"
/venv/bin/python -m venv "$OV"
SP=$("$OV/bin/python" -c "import sysconfig;print(sysconfig.get_paths()['purelib'])")
echo "import site; site.addsitedir('/venv/lib/python3.12/site-packages')" > "$SP/zz_venv_overlay.pth"
PIP_NO_INDEX=1 "$OV/bin/python" -m pip install -q --no-index --find-links /opt/veriftools/wheels z3-solver jsonschema crosshair-tool icontract deal
"$OV/bin/python" -c "import z3, pysam, jsonschema; print('overlay ok', z3.get_version_string())"
