#!/bin/sh
# checks/confirm_seeds.sh [seed...]: confirm every seeded change in a scratch worktree of /repo's HEAD:
#   demo passes on the clean tree, fails with the patch, the test suite passes with the patch.  Writes seeded/<id>/confirm.json
cd "$(dirname "$0")/.."
V=$PWD
seeds=${@:-$(ls seeded)}
for s in $seeds; do
  (
  d=/tmp/seedconfirm_$s
  rm -rf $d; git -C /repo worktree prune; git -C /repo worktree add -q --detach $d HEAD || exit 1
  cd $d
  PYTHONPATH=$d REPO_ROOT=$d /venv/bin/python $V/seeded/$s/demo.py $d > $d.clean.log 2>&1; c=$?
  git apply $V/seeded/$s/patch.diff; a=$?
  PYTHONPATH=$d REPO_ROOT=$d /venv/bin/python $V/seeded/$s/demo.py $d > $d.patched.log 2>&1; p=$?
  PYTHONPATH=$d /venv/bin/python -m pytest -q -p no:cacheprovider --timeout=900 tests > $d.tests.log 2>&1; t=$?
  tl=$(tail -1 $d.tests.log)
  cd /; git -C /repo worktree remove --force $d
  printf '{"seed": "%s", "repo_head": "%s", "patch_applies": %s, "demo_exit_clean": %s, "demo_exit_patched": %s, "pytest_exit_patched": %s, "pytest_summary": "%s"}\n' \
     "$s" "$(git -C /repo rev-parse --short HEAD)" "$([ $a -eq 0 ] && echo true || echo false)" $c $p $t "$tl" > $V/seeded/$s/confirm.json
  rm -f $d.clean.log $d.patched.log $d.tests.log
  cat $V/seeded/$s/confirm.json
  )
done
