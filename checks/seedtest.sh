#!/bin/sh
# checks/seedtest.sh <seed-dir-name> [tier]: apply a seeded change to /repo, run the property's check, revert.
set -u
cd "$(dirname "$0")/.."
d=seeded/$1
prop=$(python3 -c "import json;print(json.load(open('$d/meta.json'))['property'])")
git -C /repo diff --quiet || { echo "/repo has uncommitted changes"; exit 9; }
git -C /repo apply "$PWD/$d/patch.diff" || { echo "patch does not apply"; exit 9; }
./check "$prop" "${2:-quick}"; rc=$?
git -C /repo checkout -- .
echo "seed $1 -> check exit $rc"
exit $rc
