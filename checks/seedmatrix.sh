#!/bin/sh
# checks/seedmatrix.sh [tier]: run every seeded change through its property's check (apply to /repo, check, revert) and
# record which named obligations fail in seeded/<id>/caught.json.  /repo must be clean; nothing else may run meanwhile.
cd "$(dirname "$0")/.."
tier=${1:-quick}
miss=0
for d in seeded/*/; do
  s=$(basename $d)
  sh checks/seedtest.sh $s $tier > .scratch/seed_$s.log 2>&1; rc=$?
  python3 - "$s" "$rc" "$tier" <<'PY'
import json, re, sys
s, rc, tier = sys.argv[1], int(sys.argv[2]), sys.argv[3]
log = open('.scratch/seed_%s.log' % s).read()
vs = re.findall(r'^VIOLATION property=(\S+) replay=(\S+) obligation=(.*)$', log, re.M)
rec = {'seed': s, 'tier': tier, 'check_exit': rc,
       'violations': [{'obligation': o.replace(' no-failing-input-found', ''), 'input_replayed': not o.endswith('no-failing-input-found')} for _, _, o in vs],
       'other': re.findall(r'^(?:CHECKER-ERROR|UNDECIDED).*$', log, re.M)[:10]}
json.dump(rec, open('seeded/%s/caught.json' % s, 'w'), indent=1)
print('%-36s exit %d  %d violation lines (%d with replayed input)' % (s, rc, len(vs), sum(v['input_replayed'] for v in rec['violations'])))
PY
  [ $rc -ne 1 ] && miss=1
done
git -C /repo diff --quiet || { echo "WARNING: /repo left dirty"; git -C /repo checkout -- .; }
exit $miss
