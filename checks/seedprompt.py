"""checks/seedprompt.py <round-dir>: writes <round-dir>/out_Cxx/PROMPT.txt for every property - the task text given to the
independent sub-agents that produce seeded changes (only the property text, the anchored file names and one-line descriptions of
the earlier seeded changes; nothing else from /verif)."""
import glob
import json
import os
import sys

root = sys.argv[1]
here = os.path.dirname(os.path.dirname(os.path.abspath(__file__)))
for line in open(os.path.join(here, 'properties.jsonl')):
    p = json.loads(line)
    pid = p['id']
    wt, out = '%s/%s' % (root, pid), '%s/out_%s' % (root, pid)
    os.makedirs(out, exist_ok=True)
    earlier = []
    for m in sorted(glob.glob(os.path.join(here, 'seeded', pid + '*', 'meta.json'))):
        d = json.load(open(m))
        txt = (d.get('breaks') or d.get('description') or d.get('summary') or '').replace('\n', ' ')
        if txt:
            earlier.append('  - ' + txt[:150])
    t = f"""You are helping test a verification framework by creating realistic *seeded defects* in a Python codebase (BuysDB/SingleCellMultiOmics, a bioinformatics toolkit built on pysam). You have your own scratch git worktree of the repository at {wt} (work ONLY there; never touch /repo or /verif; do not read anything under /verif). IMPORTANT: never use `git stash` (the stash is shared between worktrees); to get back to the unmodified tree use `git diff > somefile` followed by `git checkout -- .`.

PROPERTY {pid}: {p['title']}
Statement: {p['statement']}
Quantified over: {p['quantifier']['text']}
Files where the property is anchored: {', '.join(p['anchors']['files'])}

TASK: produce TWO independent small source changes, "a" and "b" (each a few lines, in the singlecellmultiomics/ package of your worktree, not in tests), each of which on its own BREAKS this property while the code still imports/compiles and the existing test suite still passes. Each change must look like a plausible maintainer mistake or a plausible "small refactor / optimisation / robustness patch gone subtly wrong" (off-by-one, wrong comparison, swapped index or argument, dropped or reordered statement, stale cache or stale attribute, wrong mate/strand, wrong default, lost update, early return/continue/break, exception swallowed or raised at the wrong place, aliasing, wrong variable reused, truthiness instead of None test, a helper inlined or extracted incorrectly, a loop rewritten as a comprehension with a changed condition, etc.) and must need something specific to manifest (an unusual input, a boundary value, a particular multi-step sequence of operations, a fault at a particular point, or two cooperating sites that each look fine alone) - NOT something ordinary use would expose at once. The two changes must differ in mechanism and sit in different functions. The change must violate the property AS STATED, for inputs inside the "quantified over" space. Many earlier exercises already produced changes for this property; do NOT reproduce them or close variants - look for functions, branches, option combinations and mechanisms they did not touch (follow the call chain from the command-line entry points down to the helpers; rarely used options that the property mentions are good places):
{chr(10).join(earlier)}

For each change write a demonstration: a small standalone Python program {out}/demo_a.py (resp. demo_b.py) that exercises the real code (take the tree root from sys.argv[1] or env REPO_ROOT and insert it at sys.path[0] before importing singlecellmultiomics), exits 0 on the UNMODIFIED tree and exits non-zero (assertion failure) with that change applied. Your demo must PASS on the unmodified tree, i.e. your change must introduce a NEW violation of the property as stated.

How to run things:
- Python with all deps: /venv/bin/python. The package is installed editable pointing to /repo, so ALWAYS set PYTHONPATH={wt} (and run from inside the worktree) so your worktree's code is imported; verify with python -c "import singlecellmultiomics; print(singlecellmultiomics.__file__)".
- Test suite: cd {wt} && PYTHONPATH={wt} /venv/bin/python -m pytest -q -p no:cacheprovider --timeout=900 -x tests  (81 tests, ~1 min; all must still pass with each change applied alone; run it for each).
- No network. samtools/bedtools binaries are absent; use pysam APIs to build any BAM you need. numpy is 2.x.
- Work on one change at a time: make change a, `git diff > {out}/patch_a.diff`, test, then `git checkout -- .` and make change b the same way.

DELIVERABLES (write these files, then stop):
- {out}/patch_a.diff, {out}/patch_b.diff  (each = `git diff` of the worktree with only that change; source change only)
- {out}/demo_a.py, {out}/demo_b.py
- {out}/notes.md : for each change: which function/line, why it breaks the property, what specific condition it needs to manifest, and the exact commands you ran with their outcomes (test suite with patch: pass count; demo without patch: exit 0; demo with patch: non-zero).
- {out}/summary.json : {{"a": {{"breaks": "<one or two sentences: what was changed and what goes wrong>", "needs": "<what it needs to manifest>"}}, "b": {{...}}}}
Leave the worktree clean (`git checkout -- .`, and remove untracked files the test suite wrote into data/) when you finish. Do not commit. Your final reply should be at most 10 lines: for a and b the changed file/function, what triggers it, and confirmation of the three runs.
"""
    open(os.path.join(out, 'PROMPT.txt'), 'w').write(t)
print('prompts written under', root)
