#!/bin/sh
# checks/all.sh [tier]: run every claimed check on the current tree (sequentially: each check uses all cores),
# then validate MANIFEST.json and every evidence file against the schemas.
cd "$(dirname "$0")/.."
tier=${1:-quick}
rc=0
for p in $(python3 -c "import json;print(' '.join(c['property_id'] for c in json.load(open('MANIFEST.json'))['checks']))"); do
  ./check $p $tier > .scratch/all_$p.log 2>&1; r=$?
  tail -1 .scratch/all_$p.log | cut -c1-200
  [ $r -ne 0 ] && { echo "  -> exit $r"; grep -E "VIOLATION|CHECKER-ERROR|UNDECIDED" .scratch/all_$p.log | head -5 | cut -c1-300; rc=1; }
done
.ovenv/bin/python - <<'PY'
import json, jsonschema, sys
m = json.load(open('MANIFEST.json'))
jsonschema.validate(m, json.load(open('/root/.vp/MANIFEST.schema.json')))
sch = json.load(open('/root/.vp/EVIDENCE.schema.json'))
bad = 0
for c in m['checks']:
    e = json.load(open(c['evidence_file']))
    try:
        jsonschema.validate(e, sch)
        cov = e['coverage']
        if e['level'] == 'proof' and cov['discharged'] != cov['obligations']:
            print('EVIDENCE', c['property_id'], 'discharged != obligations'); bad = 1
    except Exception as ex:
        print('EVIDENCE INVALID', c['property_id'], str(ex)[:200]); bad = 1
print('schemas ok' if not bad else 'schema problems')
sys.exit(bad)
PY
[ $? -ne 0 ] && rc=1
exit $rc
