#!/usr/bin/env python3
"""Regenerate MANIFEST.json from the table below (keeps it schema-valid at all times)."""
import json
import os
import subprocess

HERE = os.path.dirname(os.path.dirname(os.path.abspath(__file__)))

TECH = ('contract-based deductive verification: VCs generated from the real /repo AST under sidecar contracts '
        '(pyvc), discharged by z3 5.1 with cvc5 fallback, counter-models replayed on the real code')

# property -> (level text, level note / trusted base, design section)
CLAIMED = {
    'C10': ('Proof for all (coordinate, bin size, sliding increment) with 1<=s<=b: the window ids returned by both copies '
            'of coordinate_to_sliding_bin_locations are exactly the windows containing the coordinate, coordinate_to_bins '
            'returns each such window once (first-principles postconditions from the property statement).',
            'A3 exact rational model of float division/np.ceil/np.floor/int() for |operands|<2**53; z3/cvc5 soundness; '
            'VC generator (guarded by CPython cross-check and canary obligations). The bin-increment of assignReads is proved for the non-sliding case (exactly the bin containing the coordinate, bins beyond the contig skipped unless keepOverBounds) and for the sliding loop (loop invariant w.r.t. one arbitrary table cell: every window returned by coordinate_to_bins that lies inside the contig is credited the weight exactly once, nothing else changes), both using the coordinate_to_bins contract at the call site; the composition "returned windows = windows containing the coordinate" + "each returned window credited once" is the property and is not a separate discharged lemma.',
            '5/C10'),
    'C17': ('Unbounded proof (loop invariants, loop-body contracts, callee contracts) that fill_range yields exactly the '
            'spec bins, trim_rangelist keeps exactly the clipped non-empty intersections in order, and blacklisted_binning '
            'sweeps a coverage cursor from start_coord to end_coord: every bin starts at the cursor, is non-empty, <= bin_size, '
            'ends at or before the next blacklisted start, the cursor reaches every blacklisted start, and every fetch window '
            'contains its bin, extends <= fragment_size and stays inside its gap and the region; for all regions, bin sizes, '
            'fragment sizes and blacklists (None / <=1 / >1 intervals).',
            'merge_overlapping_ranges is assumed at the call site (sorted, disjoint, ordered) and itself verified only for '
            'list length <= 3 with symbolic bounds (bounded stand-in, reported separately); A3 exact int(a/b); z3 non-linear '
            'arithmetic for local_bin_size facts; bp_chunked / blacklisted_binning_contigs wrappers not under contract yet.',
            '5/C17, appendix B.1-B.2'),
    'C12': ('Proof of the per-record counting rule of count_fragments_binned for an arbitrary fetched record and arbitrary '
            'matrix state (loop-body contract with frame: +1 in exactly the cell (bin containing the site, sample) iff the '
            'record passes the property\'s rule and start <= site < end, nothing else changes), of read_counts (iff), of '
            'generate_jobs (job intervals tile each contig), and of the lemma that sites owned by different jobs fall into '
            'different bins (so the merge never meets a cell twice): together the matrix is independent of bins_per_job.',
            'A4 pysam fetch returns each overlapping record once; the fetch window handed to pysam is proved to overlap every record whose site is owned by the job and lies within max_fragment_size of its alignment (ghost record obligation); sites further away are '
            'outside the claim; obtain_counts merge loop and _generate_count_dict not under contract (the lemma states what '
            'they need); mate_iter verified only for <=2 (thorough: 3) fetched records with symbolic flags/names (bounded '
            'stand-in) under well-formed primary records (A7); worker schedules: A6.',
            '5/C12'),
    'C07': ('Unbounded proof on the real ejection blocks of MoleculeIterator.__iter__ (both pooling methods): the collect loop '
            'selects a strictly increasing, in-range list of indices of ejectable molecules only, and after the k-th pop the '
            'molecule removed and emitted is exactly the one selected (loop invariants over a symbolic buffer, all buffer sizes '
            'and selections); Molecule.can_be_yielded has the property\'s own postcondition: when it answers True no fragment '
            'emitted later in coordinate-sorted order can have the molecule\'s site (no late join); Molecule._add_fragment keeps the span the hull of the member fragments (what can_be_yielded reasons with); the per-fragment assignment block (both pooling methods, exact and arbitrary UMI relation) places a fragment in exactly one molecule.',
            'A4 emission order of pysamiterators.MatePairIterator; fragment length < cache_size/2 and >= read length; assignment '
            'radius 0; allele clustering off; conservation of fragments (inv.conservation) and the schedule-freedom lemma for '
            'whole runs are argued in DESIGN 5/C07 from these obligations, not discharged as one VC.',
            '5/C07, appendix B.5'),
    'C09': ('Proof for an arbitrary read 1 (symbolic start/end, strand, first/last CIGAR operation, sequence, tags) that '
            'NlaIIIFragment.identify_site accepts exactly the fragments with the motif at the 5\' end of read 1 (exact, or '
            'cycle-shifted when allowed), writes the reference coordinate of the recognised CATG including soft clips on '
            'either strand, rejects (qc-fail, no DS) otherwise; that CHICFragment.identify_site writes the base adjacent to '
            'the ligated overhang for trimmed and untrimmed layouts, invert_strand only flipping RS; plus mirror and '
            'layout-agreement lemmas over those postconditions.',
            'pysam.AlignedSegment modelled as a record of independent fields (stub); reads >= 8 nt without RR/DS/RS/RZ tags; '
            'well-formed CIGAR ends (M or S); no_overhang / check_motif=False branches not under contract.',
            '5/C09'),
    'C05': ('Repository-side proof obligations of record conservation: the contig-per-process job construction (always used by '
            '--multiprocess) puts every contig with reads into exactly one job and the unmapped bin into exactly one job, for '
            'any number/order/size of contigs (loop invariant under a counting abstraction w.r.t. an arbitrary contig); '
            'run_tagging_tasks accumulates the molecule count of every task and keeps the job\'s output file iff any task '
            'wrote a molecule; in the single-process loop the read group of every fragment of every written molecule is declared (and never removed) in the dict handed to the header writer; sort_and_index returns normally only after a sort attempt succeeded and the index was written.',
            'A4: pysam fetch/sort/index/merge, MatePairIterator pairing and idxstats are assumed (record fields unchanged by '
            'I/O, coordinate sorting, index, any worker completion order are NOT decided here - DESIGN section 7); '
            'run_tagging_task is an assumed contract at its call site; MoleculeIterator fragment conservation and '
            'write_pysam loops not under contract yet; bounded siblings (1..4 contigs) reported separately.',
            '5/C05'),
    'C20': ('Typestate proof over the real control flow: a ghost monitor (status text, closed/sorted/indexed/merged flags) is '
            'evaluated after every statement and on every exceptional edge of tag_multiome_single_thread (with the real '
            'sorted_bam_file context manager executed inline, every external step allowed to raise at every call and for any '
            'number of molecules via a loop contract) and of the merge/cleanup/status tail of tag_multiome_multi_processing: '
            'the status says success only when the output is finalised; and run_tagging_tasks returns normally only if no task '
            'failed (failures propagate through the real context manager); sort_and_index itself (retry over three temp locations) returns only with a sorted and indexed output and removes the unsorted input only after that.',
            'Exceptions at call boundaries stand for failures/kills between steps; a kill inside one external call, the '
            'atomicity of write_status and --cluster mode are outside; the initial "unfinished" status and the absence of other '
            'status writes before the multiprocess tail are assumed (the latter checked syntactically); A4 for sort/index/merge.',
            '5/C20'),
    'C19': ('Proof of HandleLimiter.write against a ghost file system for every sequence of failing and succeeding open() '
            'calls (the retry loop is unrolled completely with the unwinding bound checked): the record is appended to its own '
            'file after the earlier content (first write starts the file), no other file changes, the file is remembered as '
            'written, every registered handle stays usable, pruning included; an exception escapes only if an open failed '
            'while no other handle was open.',
            'Ghost file system semantics of open/gzip.open/write/close are assumed (w truncates, a preserves, a failing open has '
            'no effect); validity of multi-member gzip and real EMFILE behaviour: A4; the number of other open handles is 0..2 '
            '(case split); prune/close postconditions verified for 0..4 handles (bounded, reported separately); FastqHandle.write '
            'per-cell routing: see C01.',
            '5/C19, appendix B.4'),
    'C16': ('Unbounded: FeatureContainer.addFeature, for any container state and any memoised earlier lookups, appends exactly '
            'the feature, marks the index stale and leaves no memoised answer of the earlier state (lru_cache as ghost memo '
            'table) - the clause that makes "a result never reflects a stale earlier state" hold for every operation history. '
            'Exactness of point and range lookups (all optim variants) and add/sort/query/add/sort/query histories are checked '
            'by symbolic execution of the real methods for 1-2 (thorough: 3) features with symbolic coordinates and strands: '
            'bounded stand-ins, reported separately and NOT counted as proved.',
            'numpy searchsorted/argsort/fromiter/max modelled per the NumPy reference for fixed-length arrays; lru_cache eviction '
            'not modelled; completeness/soundness of lookups for arbitrary feature counts is not proved (bounded only); '
            'findFeaturesAtPysamAlign and GTF loading not under contract.',
            '5/C16'),
    'C18': ('Proof that AlleleResolver.__init__ leaves, for every flag combination (eager / lazy / cache, with or without a '
            'contig), the variants either loaded or marked for loading on first lookup; that getAllelesAt answers from the table, '
            'loading a missing contig exactly once in lazy mode (so eager and lazy answers coincide); and a loop-body contract on '
            'the real fetchChromosome: for an arbitrary VCF record and arbitrary state left by earlier records, the site is kept '
            'iff it is an informative single-nucleotide site with every selected sample called and no ignored conversion, and the '
            'stored map lists under each base exactly the selected samples whose genotype contains it; write_cache publishes atomically (typestate monitor after every statement and on every exceptional edge with failing open/write/rename: a file under the final cache name is complete).',
            'pysam.VariantFile (parsing, genotype access, fetch) assumed; records modelled with 2 samples x 2 alleles (symbolic '
            'allele strings; missing-allele pattern, sample selection, ignored conversions as case parameters); phased mode only; '
            'on-disk cache codec round trip (write_cache -> read_cached), region-limited cache reads and contig access orders beyond one lookup are not '
            'under contract; os.rename atomic (A4).',
            '5/C18'),
    'C11': ('Proof for an arbitrary read (symbolic flags, MAPQ, CIGAR text, tags mp/NM/XA/RR/NH/SM/DS; mapped and unmapped) and '
            'arbitrary option values that read_should_be_counted answers True iff every selected filter of the statement passes '
            'and never raises; that assignReads changes no cell when the read is filtered and otherwise exactly one cell - the '
            'read\'s own sample and feature - by the documented weight (1, or 1/2 for a paired read with mapped mate unless '
            'division is off or a mate is selected; divided by the number of XA hits or NH); with -bin exactly the bin '
            'containing the coordinate, and with -sliding every returned window inside the contig exactly once (shared with C10).',
            'pysam record stub (closed world of tags); the XA alt-contig scan is an opaque predicate; len(XA.split(";")) an '
            'uninterpreted count; blacklist with one interval; assignReads verified for joined feature reference_name / sample tag '
            'SM, no bed file, no byValue, no splitFeatures; create_count_table iteration over BAM files: A4.',
            '5/C11'),
    'C04': ('The phred <-> header-safe quality codec is decided exhaustively over all 94 phred characters (total, one safe '
            'letter each, identity on phred 0..51, saturating above). For tag values that are arbitrary header-safe strings '
            '(symbolic atoms, any length): asFastq writes "k:v" fields of the writable tags in order and raises ValueError iff the '
            'header exceeds the 254 characters a read name can hold; decoding that read name restores every written field '
            'unchanged and nothing else (segment-structural split/join); QueryNameFlagger.digest restores barcode, raw barcode, '
            'cell index, UMI, decoded UMI qualities, library, strategy, index, Illumina coordinates, sets SM=library_cellindex, '
            'MI=barcode+UMI+index, the read name and RG, and decodes every read from its own name only (two reads with different '
            'field sets, both orders, and a fragment whose first mate is absent).',
            'fqSafe (a regular expression) is assumed to be the identity on header-safe strings; the structural string rules '
            '(split/replace/strip on concatenations whose atoms exclude the separator) are trusted engine rules; phred decoding '
            'inside digest is an uninterpreted function linked to the exhaustive codec unit; representative tag sets; pysam record '
            'stub; Illumina header variants other than the scmo k:v format are not under contract.',
            '5/C04'),
    'C02': ('All 28 strategy classes registered in the loader. For 21 contiguous-layout classes (CEL-Seq1/2 incl. swapped mates, NLAIII 96/384 paired and single end, MspJI, scartrace R1/R2/R2RP4, 10x, '
            'scCHIC, scCHIC direct ligation paired and single end, DamID2, DamID2 without overhang, restriction bisulfite) the real constructor and the real demultiplex are executed on read pairs '
            'with symbolic sequences and qualities of arbitrary length: bc/RX/RQ/rS/lh/lq equal the bases/qualities at the declared '
            'positions of the declared mate, the emitted sequence and qualities are the same slice of the same mate starting where '
            'the declared prefix ends, the declared UMI/barcode/primer intervals are disjoint, and every base before the emitted '
            'stretch is accounted for. DamID2_SCA (scattered slices), the bulk Illumina strategy (whole mates emitted), TCHIC (read 2 stays a prefix of mate 2 with its own qualities whatever is trimmed) and CHICTV (read 1 cut at the oligo) have their own postconditions, unbounded in the read contents. The three composite DamID+transcriptome strategies are bounded stand-ins (read 1 of 14/16/17 bases, symbolic contents): one record per mate, records of the accepting sub-demultiplexer, leading T pruning. The phred codec unit of C04 is re-verified here.',
            'declared layout = constructor arguments stored on the strategy object (+ the documented scCHIC skip / DamID keep-'
            'overlap); barcode lookup and phred encoding through their contracts (C03, C04: opaque here); Illumina header of the '
            'common 7+4 field form; re.sub of a trailing [GA]* run and reverse_complement through assumed contracts (TCHIC); composite strategies only for three read-1 lengths; the unregistered Hexamer class is outside.',
            '5/C02'),
    'C01': ('Loop-body contract on the real DemultiplexingStrategyLoader.demultiplex for an arbitrary well-formed read (pair) and '
            'arbitrary earlier state: an accepted pair is written once, mate m to output file m, as the record text of the strategy\'s '
            'TaggedRecord (through the real FastqHandle.write / TaggedRecord.asFastq) and the yield counter grows by one; a rejected '
            'pair is written once, mate m to rejects file m, as a complete 4-line record with its original bases and qualities and an '
            'RR: reason (both the tagged and the raw fallback path), or dropped when no rejects handle exists; never both, never '
            'neither; processed counter = pairs read. Paired/single end, with/without rejects handle, with/without index parser, '
            'with/without maxReadPairs. FastqIterator.__next__ consumes four lines from every file in lock step and stops exactly '
            'when a header is missing; FastqHandle.write sends record k to file k (joint files) or appends mate k to the Rk file of its cell (one file per cell) through HandleLimiter, whose write/prune/close contracts (C19) are re-verified here; a pair that is counted has been handed to the strategy, also when the maxReadPairs cut-off ends the loop.',
            'the selected strategy is used through its C02 contract (only NonMultiplexable escapes, one TaggedRecord per mate); '
            'header-fits precondition (C04); FASTQ well-formedness A7; gzip text handles append (A4); one selected strategy; '
            'the composite DamID strategies are covered by C02 only as bounded stand-ins.',
            '5/C01, appendix B.6'),
    'C03': ('Unbounded: the resolve step of BarcodeParser.expand, for one observed barcode with ANY number of (distance, barcode) '
            'candidates, assigns iff one candidate is strictly closer than every other one (ties never assigned), to that barcode '
            'with its cell index and distance; the lookup returns whitelist members as (index, barcode, 0), otherwise the expanded '
            'entry, otherwise (after loading a lazily loaded alias once) nothing; every way an alias leaves the pending state (parse_pending_barcode_file_of_alias, __getitem__, first lookup) parses it and then expands it with the parser\'s distance. Bounded stand-ins (not counted as proved): '
            'hamming_circle yields exactly the Hamming sphere, each string once, exhaustively for lengths <= 2 (thorough: 3) over '
            'ACGTN; the whole correction (real addBarcode, expand, lookup) for small whitelists with near-duplicates and N against '
            'every observed string (symbolic), k = 0, 1, 2.',
            'sorted() assumed (A4): permutation, ascending in the distance component; the collect loop of expand and hamming_circle '
            'for realistic barcode lengths (8-16 nt) are only covered by the bounded scenarios; barcode file parsing (column order '
            'detection) is not under contract.',
            '5/C03, appendix B.3'),
    'C13': ('Unbounded: pick_best_base_call over any number of (base, quality) calls reports a base only if its quality is strictly '
            'better than that of every call of a different base (loop invariant), and for the two-mate arity used by '
            'Fragment.get_consensus (either mate possibly missing) the complete rule: higher-quality mate, equal quality and '
            'different bases -> N; get_consensus_dictionaries restricts both mates to the mate-overlap-safe window. Bounded '
            'stand-ins (not counted as proved): the real Molecule.get_consensus with its numpy tail on 2-3 fragments x 1-2 '
            'positions with symbolic calls over ACGTN/no call: a position is reported iff one base is called by strictly more '
            'fragments than every other base, N never counted, also for a permuted and a duplicated fragment list.',
            'numpy zeros/vstack/argmax/boolean masks modelled per the NumPy reference for small arrays; pysam get_aligned_pairs '
            '(CIGAR/MD decoding) inside read_to_consensus_dict is assumed; order-independence and duplication-invariance for '
            'arbitrary molecule sizes rest on the specification being a function of per-base counts (bounded check only).',
            '5/C13'),
    'C14': ('Exhaustive (finite domain, executed on the real TAPS class): for every reference context over ACGTN, both strands, '
            'every observed base (upper and lower case) and every C/G of every 3-base contig whose context is cut by a contig end, position_to_context returns the true '
            'three-base context (reverse complement on the G strand) and the letter z/x/h by CpG/CHG/CHH, upper case exactly when '
            'the conversion C>T / G>A is observed, "." otherwise. TAPSMolecule.obtain_methylation_calls asks the consensus only for '
            'the reference base the chemistry converts on the molecule\'s strand (both TAPS strand conventions), inside the mate-'
            'overlap-safe span unless unsafe calls are allowed, and records consensus/reference base/context per position; the '
            'mate-overlap-safe window itself (shared unit with C13).',
            'a context containing a non-ACGT base gives no call (my reading for CGN, flagged in DESIGN); reference.fetch, '
            'get_aligned_pairs and the consensus (C13) through assumed contracts; set_methylation_call_tags (XM string one '
            'character per aligned base, MC/uC/sZ/sz/sX/sx/sH/sh totals) is checked for three symbolic calls and one read with '
            'seven aligned pairs: bounded stand-in, not counted as proved.',
            '5/C14'),
    'C15': ('Unbounded proof (loop invariant, any number of covered blocks) that '
            'Molecule.get_CIGAR turns the covered runs into one M operation per run and one N operation per gap with exactly the '
            'run and gap lengths, and reports the first covered position and the last one as alignment span. Bounded stand-ins (not '
            'counted as proved): generate_partial_reads for 1-3 blocks with symbolic lengths/gaps/max_N_span (sequence, quality and '
            'M lengths agree, reference span = sum of operations, parts split exactly at gaps > max_N_span, every block fetched '
            'once in order); get_CIGAR called again after the coverage changed (no stale memo); create_MD_tag exhaustively for '
            'strings up to length 3; get_dedup_reads for 1-3 blocks (one record per part, the reference handed to create_MD_tag is the reference of the aligned blocks only and pairs base by base with the consensus); the base-call decision of phredscores_to_base_call over the reals for 1-2 observations of two conflicting bases (unique most likely base, N on a tie of the two best); write_tags_to_psuedoreads (sample, site, UMI, barcode, MI, TF = members + overflow; molecules without a cut site); a linkage scan that every numpy attribute used by the consensus code exists.',
            'NOT decided: floating-point rounding inside the likelihood computation (the decision is verified over the reals, A3), '
            'the --consensus command line; get_aligned_blocks/find_ranges/consecutive_groups and pysam '
            'record construction are assumed; extract_stretch_from_dict through its length contract.',
            '5/C15'),
    'C06': ('Proof that Fragment.__eq__ (plain fragments: contig included) / NlaIIIFragment.__eq__ / CHICFragment.__eq__ / Fragment.umi_eq answer True exactly for same cell, strand and '
            'cut site (within the assignment radius for CHIC) with UMIs within the allowed Hamming distance (exactly equal UMIs at '
            'distance 0); that Molecule.add_fragment accepts the first fragment, otherwise accepts iff the molecule / some member '
            'matches, adds an accepted fragment once and changes nothing on refusal; that the assignment block of '
            'MoleculeIterator (both pooling methods, any buffer size: loop invariant) keeps buffered molecules at pairwise '
            'different (cell, strand, site, UMI) keys and puts a fragment into the molecule of its key or founds it (exact UMIs), and places a fragment in exactly one molecule for an arbitrary (non-transitive) acceptance relation (UMI distance > 0); that '
            'Molecule.write_tags gives an arbitrary fragment at an arbitrary rank RC = rank and the duplicate flag iff rank > 0 '
            'whatever flags it carried (so re-tagging is idempotent on these fields), af/TF = molecule size; plus the cut-site '
            'contracts of C09 (fragments of a molecule share the site they are given).',
            'hamming_distance is an uninterpreted function (its N-as-wildcard definition is not under contract); '
            'umi_counter.most_common tie order for distance > 0 is not under contract; '
            'pysam flag/tag setters through the record stub; Molecule._add_fragment span bookkeeping and can_be_yielded are shared units with C07.',
            '5/C06'),
    'C08': ('Partial (see DESIGN section 7): the repository-side obligations that make "each molecule is written by exactly one '
            'job, the one whose bin contains its cut site" hold. Loop-body contract on the real run_tagging_task (region mode): an '
            'arbitrary molecule is written - once, itself - iff its first site-bearing fragment\'s site lies on the task\'s contig '
            'inside [start, end); the tiling of C17 with the stronger margin clause (every fetch window reaches exactly fragment_size '
            'beyond its bin unless the region border / a blacklisted interval is nearer); bp_chunked emits every task in exactly one '
            'chunk (counting abstraction); run_tagging_tasks keeps a job\'s output iff any of its tasks wrote a molecule.',
            'NOT decided: equality of flags and molecule-level tags between a parallel and a serial run (a two-run hyperproperty; '
            'it needs that grouping is a function of the fetched fragment multiset - argued from C06/C07 contracts - and pysam fetch '
            'returning all mates of owned fragments, A4), worker completion orders (A6), merge (A4); the emission-order premise of '
            'the stop criterion is assumed; uniqueness of the owning bin follows from the sweep-cursor tiling of C17 (argued, not a '
            'discharged lemma).',
            '5/C08, section 7'),
}

# units added after the second and third round of seeded changes (details: ASBUILT.md)
ADDENDA = {
    'C07': ' The whole hash-group body of an ejection check keeps the molecules it did not select; an ejection check is made for the contig and end of the fragment that triggered it, whatever the iterator state; Fragment.update_span.',
    'C02': ' Bounded: reverse_complement on every string over ACGTN up to 5 bases.',
    'C01': ' FastqIterator reads a file whose last line has no newline like any other.',
    'C03': ' The constructor allocates its tables per instance (two parsers share nothing). Bounded: parse_barcode_file fills the whitelist table with the index written on the line of each barcode for one-column, barcode-first, index-first and named-index files of two rows (symbolic barcodes over ACGTN), and refuses a three-column file.',
    'C05': ' Bounded: get_contigs_with_reads lists a contig iff the index statistics show mapped or placed-unmapped records. ReadIterator puts a record into the slot of its mate number; the read group of a read is taken from its own tags.',
    'C06': ' Every pass of MoleculeIterator.__iter__ starts with empty buffers and reset counters. The bucket keys of CHIC and NlaIII fragments and the site overrides of the molecule classes are under contract; plain Fragment equality compares contig, strand, sample and UMI.',
    'C09': ' The homopolymer rejection of Fragment.__init__ treats a run of a base and of its complement alike (block contract).',
    'C10': ' Bounded: create_count_table judges "inside the contig" with the contig lengths of the BAM file the read comes from (two files). Bounded: a history of assignReads calls over two contigs of different length agrees with the specification call by call.',
    'C11': ' Bounded: the blacklist dictionary built by create_count_table holds every interval of the BED file (3 rows), and the contig lengths are those of the file being read. Two blacklist intervals in file order; the XA predicate (bounded).',
    'C13': ' Bounded: read_to_consensus_dict reports every aligned base of the window with its quality, N included; get_consensus also with four fragments (plurality without absolute majority) and in the with_probs_and_obs variant.',
    'C14': ' The consensus variant TAPS reads (with_probs_and_obs) and read_to_consensus_dict are re-verified here (bounded units of C13). obtain_methylation_calls writes the (empty) call set also when no convertible base was seen; every TAPS molecule class of the tagger\'s method table obtains the calls when finalised.',
    'C15': ' Bounded: every aligned base is one observation with confidence 1 - 10^(-Q/10) (10^x uninterpreted).',
    'C16': ' Bounded: FeatureAnnotatedMolecule.annotate queries the strand the stranded flag prescribes and reports exactly the features the container returned. findFeaturesAtPysamAlign reports exactly the features an aligned block overlaps (both methods, bounded); annotate(method=1) looks up exactly the aligned positions.',
    'C17': ' blacklisted_binning_contigs tiles every contig once, over its whole length, against the blacklist intervals of that contig (loop contract over any number of contigs).',
    'C04': ' Header parsing (_parse_illumina_header) and __repr__ of TaggedRecord are under contract for the three Illumina header variants.',
    'C08': ' generate_tasks yields every contig region of the requested bin size once (loop contract).',
    'C12': ' obtain_counts merges the per-job dictionaries by addition in any completion order (bounded: two jobs); get_contig_size takes the length from the file asked (bounded: two files).',
    'C18': ' has_location gives the same answer as the table in eager, lazy and cache mode, also for a contig the VCF lacks.',
    'C19': ' The constructor creates per-instance state (no shared seen-set / handle table).',
    'C20': ' run_multiome_tagging overwrites a stale success marker before the old output or its index is removed (typestate monitor with failing steps); run_tagging_tasks accumulates every task (shared with C05).',
}

NOT_YET = 'check not built yet (framework under construction; see DESIGN.md section 5)'


def main():
    props = [json.loads(l) for l in open(os.path.join(HERE, 'properties.jsonl'))]
    fixes = subprocess.run(['git', '-C', '/repo', 'log', '--format=%h %s', '--grep=^fix:'], capture_output=True,
                           text=True).stdout.strip().split('\n')
    checks = []
    for p in props:
        pid = p['id']
        if pid not in CLAIMED:
            continue
        text, note, ref = CLAIMED[pid]
        text += ADDENDA.get(pid, '')
        checks.append({
            'property_id': pid, 'quick_cmd': './check %s quick' % pid, 'thorough_cmd': './check %s thorough' % pid,
            'evidence_file': 'evidence/%s.json' % pid, 'replay_cmd_template': './check --replay {path}',
            'engine': 'pyvc', 'level_claimed': {'category': 'proof', 'text': text, 'design_ref': 'DESIGN.md section ' + ref},
            'level_note': note, 'technique': TECH})
    m = {
        'version': 1, 'setup_cmd': 'sh checks/setup.sh',
        'hooks': {'guard': 'SCMO_VERIF',
                  'enable': 'no hooks in /repo: contracts are sidecars in /verif/contracts, replay monkeypatches from /verif; '
                            'SCMO_VERIF=1 is set by ./check and read only by /verif code',
                  'baseline_off_cmd': 'cd /repo && /venv/bin/python -m pytest -ra -q -p no:cacheprovider --timeout=900 '
                                      '--continue-on-collection-errors',
                  'source_commits': [], 'add_only': True},
        'engines': [{'name': 'pyvc', 'path': 'pyvc/', 'serves_properties': sorted(CLAIMED),
                     'kind_free_text': 'ast->SMT verification-condition generator over the real /repo source with sidecar '
                                       'contracts; z3 + cvc5 back ends; counterexample replay on the real code'}],
        'checks': checks,
        'notes': 'fix: commits in /repo (genuine defects found by failing obligations, see known_findings.json): '
                 + '; '.join(x for x in fixes if x),
        'not_applicable': [{'property_id': p['id'], 'reason': NOT_YET} for p in props if p['id'] not in CLAIMED],
    }
    json.dump(m, open(os.path.join(HERE, 'MANIFEST.json'), 'w'), indent=1)


if __name__ == '__main__':
    main()
