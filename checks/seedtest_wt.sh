#!/bin/sh
# checks/seedtest_wt.sh <seed-dir-name> [tier]: like seedtest.sh but in a scratch worktree of /repo HEAD (SCMO_REPO), output
# under .scratch/wt_<seed>/ - several of these may run at the same time; /repo itself is not touched.
set -u
cd "$(dirname "$0")/.."
V=$PWD
s=$1
prop=$(python3 -c "import json;print(json.load(open('seeded/$s/meta.json'))['property'])")
wt=/tmp/st_$s
rm -rf $wt; git -C /repo worktree prune; git -C /repo worktree add -q --detach $wt HEAD || exit 9
git -C $wt apply "$V/seeded/$s/patch.diff" || { echo "patch does not apply"; git -C /repo worktree remove --force $wt; exit 9; }
out=$V/.scratch/wt_$s; rm -rf $out; mkdir -p $out
SCMO_REPO=$wt VERIF_OUT=$out ./check "$prop" "${2:-quick}"; rc=$?
git -C /repo worktree remove --force $wt
echo "seed $s -> check exit $rc"
exit $rc
