"""CPython cross-check of pyvc/regex.py: z3's verdict on InRe(<concrete string>, <translated pattern>) against re.<kind>
for every pattern x kind x string below (run by hand after touching the translator: .ovenv/bin/python checks/regex_crosscheck.py)."""
import itertools
import os
import re
import sys

import z3

sys.path.insert(0, os.path.dirname(os.path.dirname(os.path.abspath(__file__))))
from pyvc import regex      # noqa: E402

PATS = ['[ACGT]+', '^[GA]*$', 'A.C', '(AB|C)+D?', '[^N]{2,3}', '\\d+x', 'N', '[A-C]?T*', 'T+$', '^AC\\Z', '(?:A|CT)*N$']
STRS = [''] + [''.join(p) for n in (1, 2, 3, 4) for p in itertools.product('ACNT1x\n', repeat=n)]
bad = n = 0
for p in PATS:
    for kind in ('fullmatch', 'match', 'search'):
        lang = regex.language(kind, *regex.compile_pattern(p))
        for s in STRS[::5]:
            want = bool(getattr(re, kind)(p, s))
            got = z3.is_true(z3.simplify(z3.InRe(z3.StringVal(s), lang)))
            n += 1
            if want != got:
                bad += 1
                print('MISMATCH', p, kind, repr(s), want, got)
print('%d disagreements in %d comparisons' % (bad, n))
sys.exit(1 if bad else 0)
