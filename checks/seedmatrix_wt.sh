#!/bin/sh
# checks/seedmatrix_wt.sh <parallelism> <seed>...: run seeds through their checks in scratch worktrees, several at a time;
# writes seeded/<id>/caught.json like seedmatrix.sh.  /repo is not touched.
cd "$(dirname "$0")/.."
par=$1; shift
printf '%s\n' "$@" | xargs -P "$par" -I{} sh -c 'sh checks/seedtest_wt.sh {} quick > .scratch/seed_{}.log 2>&1; echo $? > .scratch/seed_{}.rc'
for s in "$@"; do
  python3 - "$s" "$(cat .scratch/seed_$s.rc)" <<'PY'
import json, re, sys
s, rc = sys.argv[1], int(sys.argv[2])
log = open('.scratch/seed_%s.log' % s).read()
vs = re.findall(r'^VIOLATION property=(\S+) replay=(\S+) obligation=(.*)$', log, re.M)
rec = {'seed': s, 'tier': 'quick', 'check_exit': rc,
       'violations': [{'obligation': o.replace(' no-failing-input-found', ''), 'input_replayed': not o.endswith('no-failing-input-found')} for _, _, o in vs],
       'other': re.findall(r'^(?:CHECKER-ERROR|UNDECIDED).*$', log, re.M)[:10]}
json.dump(rec, open('seeded/%s/caught.json' % s, 'w'), indent=1)
print('%-36s exit %d  %d violation lines (%d with replayed input) %s' % (s, rc, len(vs), sum(v['input_replayed'] for v in rec['violations']), (rec['other'] or [''])[0][:120]))
PY
done
