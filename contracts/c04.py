"""C04 - read-name encoding round-trips: FASTQ header -> BAM tags restores every field."""
import z3

from pyvc.contract import Contract
from pyvc.engine import Obj, Sym, Builtin, PyRaise, fresh, named, BOOL, INT, STR
from pyvc.units import Lemma
from pyvc import stubs, externals, segstr

PROP = 'C04'
LEVEL = 'proof'
FB = 'singlecellmultiomics/modularDemultiplexer/baseDemultiplexMethods.py'
FU = 'singlecellmultiomics/universalBamTagger/universalBamTagger.py'
QB = 'singlecellmultiomics.modularDemultiplexer.baseDemultiplexMethods.'
UNSAFE = ';: \t\n\r\x0b\x0c@'       # header-safe values contain none of these (fqSafe strips everything outside [A-Za-z0-9-_])

# ------------------------------------------------------------------------------ phred <-> header-safe codec (exhaustive)
phred = Contract(
    PROP, FB + '::phredToFastqHeaderSafeQualities,fastqHeaderSafeQualitiesToPhred', name='phred_codec[all characters 33..126]',
    harness='''
out = []
for code in range(33, 127):
    c = chr(code)
    e = phredToFastqHeaderSafeQualities(c)
    out.append((code, e, fastqHeaderSafeQualitiesToPhred(e)))
e3 = phredToFastqHeaderSafeQualities("!5I~")
return (out, e3, fastqHeaderSafeQualitiesToPhred(e3))
''',
    params={},
    ensures={
        # total: defined for every phred character, one header-safe letter each
        'one_safe_letter_per_character': 'all(len(e) == 1 and e in "abcdefghijklmnopqrstuvwxyzABCDEFGHIJKLMNOPQRSTUVWXYZ" for code, e, d in result[0])',
        # identity on phred 0..51, saturating above
        'decode_restores_or_saturates': 'all(d == chr(min(code, 33 + 51)) for code, e, d in result[0])',
        'strings_are_encoded_characterwise': 'len(result[1]) == 4 and result[2] == "!5I" + chr(33 + 51)',
    },
    raises={},
    assumptions=['exhaustive over the 94 printable phred characters (finite domain, executed concretely by the engine); a string '
                 'is encoded character by character ("".join over the characters: A2)'],
)

# ------------------------------------------------------------------------------ TaggedRecord.asFastq
WRITTEN = ['Is', 'RN', 'Fc', 'La', 'Ti', 'CX', 'CY', 'LY', 'BC', 'bi', 'RX', 'RQ', 'MX']
TAGSET = ['Is', 'RN', 'Fc', 'La', 'Ti', 'CX', 'CY', 'RP', 'LY', 'BC', 'bi', 'RX', 'RQ', 'MX']     # RP is doNotWrite


def safe_atom(eng, name):
    return segstr.register_atom(eng, named(STR, name), UNSAFE)


def record(eng, name):
    info = eng.loader.classref(FB, 'TaggedRecord')
    tags = {t: safe_atom(eng, 'tag_' + t) for t in TAGSET}
    eng.spec_env['TAGS0'] = dict(tags)
    mod = eng.loader.module_by_relpath(FB)
    return Obj('TaggedRecord', {'tags': tags, 'tagDefinitions': mod.resolve_global('TagDefinitions', eng),
                                'sequence': None, 'plus': None, 'qualities': None}, info=info)


HEADER = '";".join(["%s:%s" % (k, TAGS0[k]) for k in WRITTEN_TAGS])'


def c04_setup(eng):
    eng.spec_env['WRITTEN_TAGS'] = WRITTEN
    # fqSafe (regular expression substitution) is the identity on header-safe strings: assumed, bounded check below
    eng.loader.call_hooks[QB + 'fqSafe'] = lambda e, f, a, k, n: a[0]


as_fastq = Contract(
    PROP, FB + '::TaggedRecord.asFastq', name='TaggedRecord.asFastq',
    params={'self': record, 'sequence': 'str', 'dirAtt': 'str', 'baseQualities': 'str', 'format': ('const', 'illumina')},
    setup=c04_setup,
    ensures={
        'record_text': 'result == "@" + %s + "\\n" + sequence + "\\n" + dirAtt + "\\n" + baseQualities + "\\n"' % HEADER,
        # a stored read name holds at most 254 characters (SAM QNAME / pysam limit)
        'header_fits_in_a_read_name': 'len(%s) <= 254' % HEADER,
    },
    # refused loudly, never truncated
    raises={'ValueError': 'len(%s) > 254' % HEADER},
    assumptions=['tag values are header-safe atoms (contain none of ";: \\t\\n\\r@"): what fqSafe produces',
                 'representative tag set %s (RP is declared doNotWrite)' % TAGSET],
)

# ------------------------------------------------------------------------------ header -> tags (what the tagger decodes)
roundtrip = Contract(
    PROP, FB + '::TaggedRecord', name='roundtrip[asFastq -> read name -> fromTaggedBamRecord]',
    harness='''
fq = rec.asFastq(sequence, plus, qual)
name = fq.split("\\n")[0][1:]
back = TaggedRecord(TagDefinitions)
back.fromTaggedBamRecord(READ(name))
return back.tags
''',
    params={'rec': record, 'sequence': lambda e, n: safe_atom(e, n), 'plus': lambda e, n: safe_atom(e, n),
            'qual': lambda e, n: safe_atom(e, n)},
    setup=c04_setup,
    pre_state=lambda eng, fr: eng.spec_env.update(
        {'READ': Builtin('READ', lambda e, a, k, n: Obj('AlignedSegment', {'query_name': a[0], '_vc_tags': {}, '_vc_closed': True}))}),
    requires=['len(%s) <= 254' % HEADER],
    ensures={
        'every_written_field_is_recovered_unchanged': 'all(result[k] == TAGS0[k] for k in WRITTEN_TAGS)',
        'nothing_else_appears': 'len(result) == len(WRITTEN_TAGS)',
    },
    raises={},
    assumptions=['the aligner copies the read name (header without "@") into QNAME unchanged (A4)',
                 'fqSafe is the identity on header-safe strings (assumed regular-expression contract)'],
)

# the cell index is whatever the barcode file gives: an integer when the file numbers its cells (0 included), else a name
def record_int(index):
    return lambda eng, name: _record_int(eng, name, index)


def _record_int(eng, name, index):
    info = eng.loader.classref(FB, 'TaggedRecord')
    tags = {t: 'v' + t for t in TAGSET}
    tags['bi'] = index
    tags['Is'] = safe_atom(eng, 'tag_Is')
    eng.spec_env['TAGS0'] = dict(tags)
    mod = eng.loader.module_by_relpath(FB)
    return Obj('TaggedRecord', {'tags': tags, 'tagDefinitions': mod.resolve_global('TagDefinitions', eng),
                                'sequence': None, 'plus': None, 'qualities': None}, info=info)


as_fastq_int = Contract(
    PROP, FB + '::TaggedRecord.asFastq', name='TaggedRecord.asFastq[integer cell index]',
    params={'self': record_int(0), 'sequence': 'str', 'dirAtt': 'str', 'baseQualities': 'str', 'format': ('const', 'illumina')},
    cases=[{}, {'self': record_int(1)}, {'self': record_int(384)}, {'self': record_int(-1)}],
    setup=c04_setup,
    requires=['len(TAGS0["Is"]) <= 100'],
    ensures={
        'record_text': 'result == "@" + %s + "\\n" + sequence + "\\n" + dirAtt + "\\n" + baseQualities + "\\n"' % HEADER,
    },
    raises={},
    assumptions=['every tag but Is (symbolic header-safe string) and bi (the integers 0, 1, 384, -1) holds a fixed header-safe string'],
)


def as_fastq_int_replay(inputs, clause):
    """real TaggedRecord.asFastq with the model's cell index (integer) and instrument name"""
    mod = __import__('singlecellmultiomics.modularDemultiplexer.baseDemultiplexMethods', fromlist=['x'])
    tags = inputs['self']['attrs']['tags']
    tr = mod.TaggedRecord(mod.TagDefinitions)
    for k in TAGSET:
        tr.tags[k] = 'v' + k
    tr.tags['bi'] = int(tags['bi'])
    tr.tags['Is'] = 'x' * len(tags['Is'])
    want = '@' + ';'.join('%s:%s' % (k, tr.tags[k]) for k in WRITTEN) + '\nACGT\n+\nIIII\n'
    try:
        out = tr.asFastq('ACGT', '+', 'IIII')
        obs = {'outcome': 'return', 'value': out, 'expected': want}
    except Exception as e:      # noqa: BLE001
        out = None
        obs = {'outcome': 'raise', 'value': [type(e).__name__, str(e)[:80]], 'expected': want}
    if out != want:
        return {'status': 'confirmed', 'observed': obs, 'failed': [{'clause': clause}]}
    return {'status': 'not-reproduced', 'observed': obs}


as_fastq_int.replay = as_fastq_int_replay
UNITS = [phred, as_fastq, as_fastq_int, roundtrip]


def as_fastq_replay(inputs, clause):
    """real TaggedRecord.asFastq with tag values of the model's lengths (content replaced by header-safe letters)"""
    import pysam
    from pyvc.contract import import_real
    mod = __import__('singlecellmultiomics.modularDemultiplexer.baseDemultiplexMethods', fromlist=['x'])
    tags = inputs['self']['attrs']['tags']
    tr = mod.TaggedRecord(mod.TagDefinitions)
    for k in TAGSET:
        tr.tags[k] = 'x' * len(tags[k])
    try:
        out = tr.asFastq('ACGT', '+', 'IIII')
    except ValueError as e:
        return {'status': 'not-reproduced', 'observed': {'outcome': 'raise', 'value': ['ValueError', str(e)[:80]]}}
    header = out.split('\n')[0][1:]
    seg = pysam.AlignedSegment()
    try:
        seg.query_name = header
        stored = True
    except Exception as e:      # noqa
        stored = False
    obs = {'outcome': 'return', 'value': {'header_length': len(header), 'accepted_as_read_name_by_pysam': stored}}
    if len(header) > 254:
        return {'status': 'confirmed', 'observed': obs,
                'failed': [{'clause': 'header_fits_in_a_read_name', 'why': 'a %d character header was not refused' % len(header)}]}
    return {'status': 'not-reproduced', 'observed': obs}


as_fastq.replay = as_fastq_replay


# ------------------------------------------------------------------------------ QueryNameFlagger.digest: every read is
# decoded from its own name only (fields of an earlier read never leak into a later one)
DEC = z3.Function('phred_decode', z3.StringSort(), z3.StringSort())
SC_TAGS = ['Is', 'RN', 'Fc', 'La', 'Ti', 'CX', 'CY', 'LY', 'BC', 'bc', 'bi', 'RX', 'RQ', 'MX', 'aA', 'aa', 'aI']
BULK_TAGS = ['Is', 'RN', 'Fc', 'La', 'Ti', 'CX', 'CY', 'LY', 'MX']


def digest_setup(eng):
    c04_setup(eng)
    eng.loader.call_hooks[QB + 'fastqHeaderSafeQualitiesToPhred'] = lambda e, f, a, k, n: Sym(DEC(a[0].z if isinstance(a[0], Sym) else z3.StringVal(a[0])), STR)
    eng.loader.call_hooks['singlecellmultiomics.utils.sequtils.hamming_distance'] = lambda e, f, a, k, n: named(INT, 'index_hamming_distance')
    eng.loader.call_hooks[QB + 'hamming_distance'] = lambda e, f, a, k, n: named(INT, 'index_hamming_distance')
    eng.spec_env['DEC'] = Builtin('DEC', lambda e, a, k, n: Sym(DEC(a[0].z), STR))
    A = {t: safe_atom(eng, 'sc_' + t) for t in SC_TAGS}
    B = {t: safe_atom(eng, 'bulk_' + t) for t in BULK_TAGS}
    eng.spec_env['A'] = A
    eng.spec_env['B'] = B
    eng.spec_env['NAME_A'] = segstr.build(sum(([';' if i else '', t + ':', A[t]] for i, t in enumerate(SC_TAGS)), []))
    eng.spec_env['NAME_B'] = segstr.build(sum(([';' if i else '', t + ':', B[t]] for i, t in enumerate(BULK_TAGS)), []))
    eng.spec_env['READ'] = Builtin('READ', lambda e, a, k, n: Obj('AlignedSegment', {'query_name': a[0], '_vc_tags': {}, '_vc_closed': True}))


def digest_unit(order, absent_first=False):
    first, second = ('NAME_A', 'NAME_B') if order.startswith('single-cell then bulk') else ('NAME_B', 'NAME_A')
    return Contract(
        PROP, FU + '::QueryNameFlagger', name='QueryNameFlagger.digest[%s]' % order,
        harness='''
q = QueryNameFlagger()
r1 = READ(%s)
r2 = READ(%s)
q.digest(%s)
q.digest([r2])
return (r1, r2) if %r == 'NAME_A' else (r2, r1)
''' % (first, second, '[None, r1]' if absent_first else '[r1, None]', first),
        params={}, setup=digest_setup,
        ensures={
            # single-cell read: every encoded field is restored
            'fields_restored': 'all(result[0].get_tag(t) == A[t] for t in ["BC", "bc", "bi", "RX", "LY", "MX", "Is", "RN", "Fc", "La", "Ti", "CX", "CY", "aA", "aa", "aI"])',
            'umi_qualities_as_phred_characters': 'result[0].get_tag("RQ") == DEC(A["RQ"])',
            'sample_is_library_cellindex': 'result[0].get_tag("SM") == A["LY"] + "_" + A["bi"]',
            'molecular_identifier_is_barcode_umi_index': 'result[0].get_tag("MI") == A["BC"] + A["RX"] + A["aA"]',
            'read_name_is_the_illumina_coordinates':
                'result[0].query_name == A["Is"] + ":" + A["RN"] + ":" + A["Fc"] + ":" + A["La"] + ":" + A["Ti"] + ":" + A["CX"] + ":" + A["CY"]',
            'read_group': 'result[0].get_tag("RG") == A["Fc"] + "." + A["La"] + "." + A["LY"] + "_" + A["bi"]',
            # bulk read: only its own fields, sample library_BULK - nothing of the other read
            'bulk_sample': 'result[1].get_tag("SM") == B["LY"] + "_BULK" and result[1].get_tag("BK") == True',
            'bulk_read_has_no_single_cell_fields':
                'not any(result[1].has_tag(t) for t in ["BC", "bc", "bi", "RX", "RQ", "aA", "aa", "aI", "MI", "QM"])',
            'bulk_fields_restored': 'all(result[1].get_tag(t) == B[t] for t in ["LY", "MX", "Is", "RN", "Fc", "La", "Ti", "CX", "CY"])',
        },
        raises={},
        assumptions=['phred decoding of header-safe qualities is an uninterpreted function DEC here (its codec is proved '
                     'exhaustively above); hamming_distance of the sequencing index is opaque; fqSafe identity on safe strings',
                     'pysam record stub: set_tag/get_tag/has_tag a finite map'],
    )


# a fragment whose first mate is absent (None, R2): the present mate is still decoded
UNITS += [digest_unit('single-cell then bulk'), digest_unit('bulk then single-cell'),
          digest_unit('single-cell then bulk; first mate absent', absent_first=True)]


def digest_replay(order):
    def replay(inputs, clause):
        """real QueryNameFlagger on real pysam records whose names carry two different field sets"""
        import pysam
        from pyvc.contract import import_real
        cls = import_real(FU, 'QueryNameFlagger')
        A = {t: 'sc' + t for t in SC_TAGS}
        A.update({'bi': '55', 'RQ': 'abcABC', 'RX': 'ACGTAC', 'BC': 'AAAACCCC', 'bc': 'AAAACCCC', 'aA': 'GATTACA', 'aa': 'GATTACA'})
        B = {t: 'bulk' + t for t in BULK_TAGS}

        def seg(tags, order_):
            s = pysam.AlignedSegment()
            s.query_name = ';'.join('%s:%s' % (t, tags[t]) for t in order_)
            s.query_sequence = 'ACGT'
            s.flag = 4
            return s
        ra, rb = seg(A, SC_TAGS), seg(B, BULK_TAGS)
        q = cls()
        for r in ([ra, rb] if order.startswith('single-cell then bulk') else [rb, ra]):
            q.digest([None, r] if order.endswith('first mate absent') else [r, None])
        got_a, got_b = dict(ra.get_tags()), dict(rb.get_tags())
        failed = []
        if got_b.get('SM') != B['LY'] + '_BULK':
            failed.append({'clause': 'bulk_sample', 'SM': got_b.get('SM'), 'expected': B['LY'] + '_BULK'})
        leaked = [t for t in ('BC', 'bc', 'bi', 'RX', 'RQ', 'aA', 'aa', 'aI', 'MI', 'QM') if t in got_b]
        if leaked:
            failed.append({'clause': 'bulk_read_has_no_single_cell_fields', 'leaked': leaked})
        if got_a.get('SM') != A['LY'] + '_' + A['bi'] or got_a.get('MI') != A['BC'] + A['RX'] + A['aA']:
            failed.append({'clause': 'sample / molecular identifier', 'SM': got_a.get('SM'), 'MI': got_a.get('MI')})
        for t in ('BC', 'bi', 'RX', 'LY', 'MX', 'Is', 'Fc', 'La'):
            if got_a.get(t) != A[t]:
                failed.append({'clause': 'fields_restored', 'tag': t, 'got': got_a.get(t)})
        obs = {'outcome': 'return', 'value': {'single_cell_read': {k: str(v) for k, v in got_a.items()},
                                              'bulk_read': {k: str(v) for k, v in got_b.items()}}}
        if failed:
            return {'status': 'confirmed', 'observed': obs, 'failed': failed}
        return {'status': 'not-reproduced', 'observed': obs}
    return replay


for _u in UNITS[-3:]:
    _u.replay = digest_replay(_u.name.split('[')[1].rstrip(']'))
roundtrip.replay = lambda inputs, clause: {'status': 'no-input', 'note': 'structural round trip: see digest replay for the real-code run'}


def extra_units():
    """what is encoded into the read name must be what the layout prescribes: UMI and UMI qualities of barcode-first
    (CEL-Seq1, 10x) and UMI-first (CEL-Seq2, scCHIC) layouts - C02's layout units, re-verified under this property"""
    from contracts import c02
    from pyvc.units import share
    want = ('layout[CELSeq1_c8_u4]', 'layout[chrom10x_c16_u12]', 'layout[CELSeq2_c8_u6]', 'layout[SCCHIC_384w_c8_u3]')
    # ... and of the scattered layouts (UMI and barcode in alternating pieces: their own demultiplex method)
    return [share(u, PROP) for u in c02.UNITS if u.name in want or 'SCA' in getattr(u, 'name', '')]


# ------------------------------------------------------------------------------ _parse_illumina_header: what goes into the name
# the eleven fields of an Illumina header are stored under their tags; `aa` is the sequencing index as it stands in the header
# (raw), `aA` / `aI` the corrected index and its identifier - so that decoding restores the ORIGINAL index
def pih_setup(eng):
    c04_setup(eng)
    fields = [safe_atom(eng, 'hdr_%d' % i) for i in range(10)]
    index = safe_atom(eng, 'hdr_index')
    eng.spec_env['FIELDS'], eng.spec_env['INDEX'] = fields, index
    eng.spec_env['HDR'] = segstr.build(sum(([':' if i else '', f] for i, f in enumerate(fields[:7])), []) + [' ']
                                       + sum(([':' if i else '', f] for i, f in enumerate(fields[7:])), []) + [':', index])
    corrected, ident = safe_atom(eng, 'corrected_index'), safe_atom(eng, 'index_identifier')
    eng.spec_env['CORRECTED'], eng.spec_env['IDENT'] = corrected, ident
    eng.spec_env['KNOWN'] = named(BOOL, 'index_known')

    def lookup(e, o, *a, **k):
        if e.branch(e.spec_env['KNOWN'].z):
            return (ident, corrected, named(INT, 'index_distance'))
        return (None, None, None)
    stubs.STUBS['IndexParser'] = {'methods': {'getIndexCorrectedBarcodeAndHammingDistance': lookup}, 'props': {}, 'setters': {}}

    # the sequencing index is a DNA sequence, not a number: int(index) raises ValueError (an all-digit index is kept as it is)
    def _int(e, a, k, n):
        if a and isinstance(a[0], Sym) and a[0].z.eq(index.z):
            raise PyRaise('ValueError', 'invalid literal for int()')
        return e.call(e.builtins()['int'], a, k)
    eng.spec_env['INT'] = Builtin('int', _int)


def pih_parser(eng, name):
    o = Obj('IndexParser', {})
    o.vc_immutable = True
    return o


parse_header = Contract(
    PROP, FB + '::TaggedRecord._parse_illumina_header', name='TaggedRecord._parse_illumina_header',
    params={'self': ('obj', 'TaggedRecord', {'tags': ('const', None)}, FB), 'header': lambda e, n: e.spec_env['HDR'],
            'indexFileParser': pih_parser, 'indexFileAlias': ('const', 'indices')},
    cases=[{}, {'indexFileParser': 'none'}],
    setup=pih_setup,
    pre_state=lambda eng, fr: (fr.env['self'].attrs.__setitem__('tags', {}), fr.env.update({'int': eng.spec_env['INT']}))[0],
    ensures={
        'illumina_coordinates_under_their_tags':
            'all(self.tags[t] == FIELDS[i] for i, t in enumerate(["Is", "RN", "Fc", "La", "Ti", "CX", "CY", "RP", "Fi", "CN"]))',
        'raw_sequencing_index_as_it_stands_in_the_header': 'self.tags["aa"] == INDEX',
        'corrected_index_and_identifier': 'implies(indexFileParser is not None, self.tags["aA"] == CORRECTED and self.tags["aI"] == IDENT)',
    },
    raises={'NonMultiplexable': 'indexFileParser is not None and not KNOWN'},
    assumptions=['Illumina header of the common form: 7 colon-separated fields, a space, 3 fields and the index; the index is a '
                 'DNA sequence (int() fails on it); fields are header-safe atoms'],
)
UNITS.append(parse_header)


# the two other header forms the parser accepts: without the index ("... 1:N:0", ten fields) and without the comment (seven
# fields): the fields present go under their tags unchanged, the index is "N"
def pih_short_setup(n_fields):
    def setup(eng):
        pih_setup(eng)
        fields = eng.spec_env['FIELDS']
        for f in fields:
            eng.assume(z3.Length(f.z) >= 1)
        if n_fields == 10:
            hdr = sum(([':' if i else '', f] for i, f in enumerate(fields[:7])), []) + [' '] + \
                sum(([':' if i else '', f] for i, f in enumerate(fields[7:])), [])
        else:
            hdr = sum(([':' if i else '', f] for i, f in enumerate(fields[:7])), [])
        eng.spec_env['HDR'] = segstr.build(hdr)
        eng.spec_env['NF'] = n_fields
    return setup


def short_header_unit(n_fields):
    names = ["Is", "RN", "Fc", "La", "Ti", "CX", "CY", "RP", "Fi", "CN"]
    return Contract(
        PROP, FB + '::TaggedRecord._parse_illumina_header', name='TaggedRecord._parse_illumina_header[%d fields]' % n_fields,
        params={'self': ('obj', 'TaggedRecord', {'tags': ('const', None)}, FB), 'header': lambda e, n: e.spec_env['HDR'],
                'indexFileParser': 'none', 'indexFileAlias': ('const', 'indices')},
        setup=pih_short_setup(n_fields),
        pre_state=lambda eng, fr: (fr.env['self'].attrs.__setitem__('tags', {}), fr.env.update({'int': eng.spec_env['INT']}))[0],
        ensures={
            'fields_of_the_header_under_their_tags_unchanged':
                'all(self.tags[t] == FIELDS[i] for i, t in enumerate(%r))' % names[:n_fields],
            'no_index_in_the_header_means_N': 'self.tags["aa"] == "N"',
        },
        raises={},
        assumptions=['Illumina header of %d fields (%s), fields non-empty header-safe atoms; illuminaHeaderSplitRegex (":| ") '
                     'splits at every colon and space (translated)' % (n_fields, 'no index' if n_fields == 10 else 'no comment')],
    )


def short_header_replay(n_fields):
    def replay(inputs, clause):
        """real TaggedRecord._parse_illumina_header on headers of that form whose fields end in every digit and letter"""
        mod = __import__('singlecellmultiomics.modularDemultiplexer.baseDemultiplexMethods', fromlist=['x'])
        names = ["Is", "RN", "Fc", "La", "Ti", "CX", "CY", "RP", "Fi", "CN"][:n_fields]
        bad = []
        for y in ('1042', '2201', '7', '12', '1111', '2222', '9/1'):
            f = ['NS500', '12', 'HFCXX', '1', '11101', '5021', y, '1', 'N', '0'][:n_fields]
            hdr = ':'.join(f[:7]) + ((' ' + ':'.join(f[7:])) if n_fields == 10 else '')
            tr = mod.TaggedRecord(mod.TagDefinitions)
            try:
                tr._parse_illumina_header(hdr)
                got = [tr.tags.get(t) for t in names]
            except Exception as e:      # noqa: BLE001
                got = '%s: %s' % (type(e).__name__, e)
            if got != f or tr.tags.get('aa') != 'N':
                bad.append({'header': hdr, 'tags': got, 'aa': tr.tags.get('aa')})
        obs = {'outcome': 'return', 'value': bad}
        if bad:
            return {'status': 'confirmed', 'observed': obs, 'failed': [{'clause': clause}]}
        return {'status': 'not-reproduced', 'observed': obs}
    return replay


for _n in (10, 7):
    _u = short_header_unit(_n)
    _u.replay = short_header_replay(_n)
    UNITS.append(_u)


# ------------------------------------------------------------------------------ str(record): what FastqHandle.write emits
# "a header too long to be stored is refused loudly rather than truncated" must also hold for the text that is actually
# written: str(record) is asFastq() - it raises for an over-long header, it never returns something else
def repr_record(eng, name):
    r = record(eng, name)
    r.attrs.update({'sequence': safe_atom(eng, 'rec_sequence'), 'plus': '+', 'qualities': safe_atom(eng, 'rec_qualities')})
    return r


repr_unit = Contract(
    PROP, FB + '::TaggedRecord.__repr__', name='TaggedRecord.__repr__[the text that is written]',
    params={'self': repr_record},
    setup=c04_setup,
    ensures={
        'the_written_text_is_the_fastq_record':
            'result == "@" + %s + "\\n" + self.sequence + "\\n+\\n" + self.qualities + "\\n"' % HEADER,
        'header_fits_in_a_read_name': 'len(%s) <= 254' % HEADER,
    },
    raises={'ValueError': 'len(%s) > 254' % HEADER},
    assumptions=['tag values are header-safe atoms; representative tag set'],
)
UNITS.append(repr_unit)


# ------------------------------------------------------------------------------ fqSafe against the contract the units above assume
# "identity on header-safe strings": fqSafe keeps exactly the characters [A-Za-z0-9_-] and drops every other one, character by
# character (run on the real function: every ASCII character alone and in context, plus a few non-ASCII ones)
def fqsafe_bounded(tier, seed):
    import json
    import os
    import string
    from pyvc.contract import import_real
    fn = import_real(FB, 'fqSafe')
    keep = set(string.ascii_letters + string.digits + '-_')
    chars = [chr(i) for i in range(0, 128)] + ['é', 'ß', '中', '٣']
    n = 0
    for ch in chars:
        for s in (ch, 'APKS3-P19_' + ch + 'x', ch * 3):
            want = ''.join(c for c in s if c in keep)
            try:
                got = fn(s)
            except Exception as e:      # noqa: BLE001
                got = '%s: %s' % (type(e).__name__, e)
            n += 1
            if got != want:
                out = os.environ.get('VERIF_OUT', '.')
                os.makedirs(os.path.join(out, 'replays', PROP), exist_ok=True)
                path = 'replays/%s/fqSafe.json' % PROP
                json.dump({'property': PROP, 'obligation': '%s/fqSafe[assumed contract]' % PROP,
                           'replay': {'status': 'confirmed', 'input': s, 'observed': got, 'expected': want}},
                          open(os.path.join(out, path), 'w'), indent=1)
                return {'result': 'violation', 'replay': path, 'confirmed': True, 'strings': n}
    return {'result': 'clean', 'strings': n}


from pyvc.units import Bounded      # noqa: E402
UNITS.append(Bounded(PROP, 'fqSafe[keeps exactly A-Za-z0-9_-; every ASCII character]', fqsafe_bounded,
                     '132 characters x 3 contexts', 'exhaustive run of the real function against the specification'))


# a numeric index in the header (sample-sheet number instead of a sequence, possibly zero-padded): taken as it stands
def pih_numeric_setup(index_text):
    def setup(eng):
        pih_setup(eng)
        fields = eng.spec_env['FIELDS']
        eng.spec_env['INDEX'] = index_text
        eng.spec_env['HDR'] = segstr.build(sum(([':' if i else '', f] for i, f in enumerate(fields[:7])), []) + [' ']
                                           + sum(([':' if i else '', f] for i, f in enumerate(fields[7:])), []) + [':', index_text])
        eng.spec_env['INT'] = eng.builtins()['int']
    return setup


def numeric_index_unit(index_text):
    return Contract(
        PROP, FB + '::TaggedRecord._parse_illumina_header', name='TaggedRecord._parse_illumina_header[numeric index %s]' % index_text,
        params={'self': ('obj', 'TaggedRecord', {'tags': ('const', None)}, FB), 'header': lambda e, n: e.spec_env['HDR'],
                'indexFileParser': pih_parser, 'indexFileAlias': ('const', 'indices')},
        setup=pih_numeric_setup(index_text),
        pre_state=lambda eng, fr: (fr.env['self'].attrs.__setitem__('tags', {}), fr.env.update({'int': eng.spec_env['INT']}))[0],
        ensures={'the_index_is_recorded_as_it_stands_in_the_header':
                 'self.tags["aa"] == INDEX and self.tags["aA"] == INDEX and self.tags["aI"] == INDEX'},
        raises={},
        assumptions=['Illumina header of the common form whose last field is the number %r' % index_text],
    )


UNITS += [numeric_index_unit('7'), numeric_index_unit('01'), numeric_index_unit('007')]
