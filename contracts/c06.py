"""C06 - molecule assignment equals the ground-truth duplicate structure."""
import ast

import z3

from pyvc.contract import Contract
from pyvc.engine import LoopSpec, Obj, Sym, Builtin, BoundMethod, PyRaise, fresh, named, BOOL, INT, STR, zterm
from pyvc import blocks, stubs

PROP = 'C06'
LEVEL = 'proof'
FF = 'singlecellmultiomics/fragment/fragment.py'
FN = 'singlecellmultiomics/fragment/nlaIII.py'
FC = 'singlecellmultiomics/fragment/chic.py'
FM = 'singlecellmultiomics/molecule/molecule.py'
FI = 'singlecellmultiomics/molecule/iterator.py'
HD = z3.Function('hamming_distance', z3.StringSort(), z3.StringSort(), z3.IntSort())


def eq_setup(eng):
    def hd(e, f, args, kwargs, node):
        a, b = args
        v = Sym(HD(a.z, b.z), INT)
        e.assume(v.z >= 0)
        e.assume(z3.Implies(v.z == 0, z3.BoolVal(True)))
        return v
    for q in ('singlecellmultiomics.utils.sequtils.hamming_distance', 'singlecellmultiomics.fragment.fragment.hamming_distance',
              'singlecellmultiomics.fragment.nlaIII.hamming_distance', 'singlecellmultiomics.fragment.chic.hamming_distance'):
        eng.loader.call_hooks[q] = hd
    eng.spec_env['HD'] = Builtin('HD', lambda e, a, k, n: Sym(HD(a[0].z, a[1].z), INT))


def frag(kind, relpath, cls):
    def mk(eng, name):
        # match_hash as the class builds it: (strand, site strand, site contig, site position, sample)
        mh = (named(BOOL, name + '.strand'), named(BOOL, name + '.site_strand'), named(STR, name + '.contig'),
              named(INT, name + '.site'), named(STR, name + '.sample'))
        d = named(INT, name + '.umi_hamming_distance')
        eng.assume(d.z >= 0)
        radius = named(INT, name + '.assignment_radius')
        eng.assume(radius.z >= 0)
        attrs = {'match_hash': mh, 'umi': named(STR, name + '.umi'), 'umi_hamming_distance': d, 'site_location': (mh[2], mh[3]),
                 'assignment_radius': radius, 'sample': mh[4], 'strand': mh[0],
                 'span': (mh[2], named(INT, name + '.span_start'), named(INT, name + '.span_end'))}
        return Obj(cls, attrs, info=eng.loader.classref(relpath, cls))
    return mk


# the duplicate relation of the statement: same cell, strand and cut site, UMIs within the allowed distance
SAME_SITE = ('self.match_hash == other.match_hash')
UMI_CLOSE = ('(self.umi == other.umi or (self.umi_hamming_distance > 0 and len(self.umi) == len(other.umi) and '
             'HD(self.umi, other.umi) <= self.umi_hamming_distance))')


def eq_unit(relpath, cls, extra_site=''):
    site = SAME_SITE + extra_site
    return Contract(
        PROP, relpath + '::%s.__eq__' % cls, name='%s.__eq__' % cls,
        params={'self': frag('a', relpath, cls), 'other': frag('b', relpath, cls)},
        setup=eq_setup,
        ensures={
            'equal_iff_same_cell_strand_site_and_close_umi': 'result == (%s and %s)' % (site, UMI_CLOSE),
            'exact_umi_mode': 'implies(self.umi_hamming_distance == 0, result == (%s and self.umi == other.umi))' % site,
        },
        raises={},
        assumptions=['hamming_distance is an uninterpreted function of the two UMIs here (N as wildcard: its own definition)'],
    )


nla_eq = eq_unit(FN, 'NlaIIIFragment')
chic_eq = eq_unit(FC, 'CHICFragment',
                  ' and (self.assignment_radius == 0 or abs(self.site_location[1] - other.site_location[1]) <= self.assignment_radius)')

umi_eq = Contract(
    PROP, FF + '::Fragment.umi_eq', name='Fragment.umi_eq',
    params={'self': frag('a', FF, 'Fragment'), 'other': frag('b', FF, 'Fragment')},
    setup=eq_setup,
    ensures={'umi_within_allowed_distance': 'result == %s' % UMI_CLOSE},
    raises={},
)



# plain fragments (no restriction site): same cell and strand, same contig, start or end within the assignment radius, UMIs
# within the allowed distance.  "Share ... cut site" for a plain fragment is its mapping location: contig included.
def plain_frag(name_):
    def mk(eng, name):
        d = named(INT, name_ + '.umi_hamming_distance')
        r = named(INT, name_ + '.assignment_radius')
        s, e_ = named(INT, name_ + '.start'), named(INT, name_ + '.end')
        eng.assume(z3.And(d.z >= 0, r.z >= 0, s.z >= 0, s.z <= e_.z))      # reference coordinates: 0-based, not negative
        return Obj('Fragment', {'sample': named(STR, name_ + '.sample'), 'strand': named(BOOL, name_ + '.strand'),
                                'span': (named(STR, name_ + '.contig'), s, e_), 'assignment_radius': r,
                                'umi': named(STR, name_ + '.umi'), 'umi_hamming_distance': d, 'max_fragment_size': None},
                   info=eng.loader.classref(FF, 'Fragment'))
    return mk


plain_eq = Contract(
    PROP, FF + '::Fragment.__eq__', name='Fragment.__eq__[plain fragments]',
    params={'self': plain_frag('a'), 'other': plain_frag('b')},
    setup=eq_setup,
    ensures={
        'equal_iff_same_cell_strand_location_and_close_umi':
            'result == (self.sample == other.sample and self.strand == other.strand and self.span[0] == other.span[0] and '
            'min(abs(self.span[1] - other.span[1]), abs(self.span[2] - other.span[2])) <= self.assignment_radius and %s)' % UMI_CLOSE,
        'fragments_on_different_contigs_are_never_equal': 'implies(self.span[0] != other.span[0], result == False)',
    },
    raises={},
    assumptions=['both fragments have a defined span (has_valid_span: no max_fragment_size); hamming_distance uninterpreted'],
)

UNITS = [umi_eq, nla_eq, chic_eq, plain_eq]


# ------------------------------------------------------------------------------ Molecule.add_fragment
def add_setup(eng):
    eq_setup(eng)
    eng.ghost.clear()
    eng.ghost['added'] = []
    eng.spec_env['GHOST'] = eng.ghost
    eng.loader.call_hooks['singlecellmultiomics.molecule.molecule.Molecule._add_fragment'] = \
        lambda e, f, a, k, n: (e.ghost['added'].append(a[0]), True)[1]


def molecule(n_frags, use_class='NlaIIIFragment', relpath=FN):
    def mk(eng, name):
        frags = [frag('m%d' % i, relpath, use_class)(eng, 'm%d' % i) for i in range(n_frags)]
        mh = frags[0].attrs['match_hash'] if frags else None
        attrs = {'fragments': frags, 'match_hash': mh, 'sample': None, 'umi': named(STR, 'mol.umi'),
                 'umi_hamming_distance': named(INT, 'mol.umi_hamming_distance'), 'site_location': None}
        eng.spec_env['FRAGS0'] = list(frags)
        return Obj('Molecule', attrs, info=eng.loader.classref(FM, 'Molecule'))
    return mk


add_fragment = Contract(
    PROP, FM + '::Molecule.add_fragment', name='Molecule.add_fragment',
    params={'self': molecule(0), 'fragment': frag('f', FN, 'NlaIIIFragment'), 'use_hash': ('const', True)},
    cases=[{}, {'self': molecule(2)}, {'self': molecule(2), 'use_hash': ('const', False)}, {'self': molecule(1), 'use_hash': ('const', False)}],
    setup=add_setup,
    ensures={
        'first_fragment_is_always_accepted': 'implies(len(FRAGS0) == 0, result == True and GHOST["added"] == [fragment] and self.sample == fragment.sample)',
        # accepted iff it is a duplicate of the molecule (hash mode: of the molecule's representative state) / of a member
        'accepted_fragment_is_added_exactly_once': 'implies(result == True, GHOST["added"] == [fragment])',
        'refused_fragment_changes_nothing': 'implies(result == False, GHOST["added"] == [] and self.fragments == FRAGS0)',
        'member_mode_accepts_iff_some_member_matches':
            'implies(len(FRAGS0) > 0 and not use_hash, result == any([(m.match_hash == fragment.match_hash and '
            '(m.umi == fragment.umi or (m.umi_hamming_distance > 0 and len(m.umi) == len(fragment.umi) and '
            'HD(m.umi, fragment.umi) <= m.umi_hamming_distance))) for m in FRAGS0]))',
        'hash_mode_accepts_iff_the_molecule_matches':
            'implies(len(FRAGS0) > 0 and use_hash, result == (fragment.match_hash == self.match_hash and '
            '(fragment.umi == self.umi or (fragment.umi_hamming_distance > 0 and len(fragment.umi) == len(self.umi) and '
            'HD(fragment.umi, self.umi) <= fragment.umi_hamming_distance))))',
    },
    raises={},
    bounded=None,
    assumptions=['members modelled: 0, 1 or 2 earlier fragments (the member loop compares each member independently); '
                 '`molecule == fragment` dispatches to fragment.__eq__(molecule) because Molecule defines no __eq__ (A2)'],
)
UNITS.append(add_fragment)


# ------------------------------------------------------------------------------ Molecule.write_tags: rank / duplicate flags
def wt_setup(eng):
    g = eng.ghost
    g.clear()
    g['mol_meta'] = {}
    eng.spec_env['GHOST'] = g

    def frag_obj(e, nm):
        r1 = stubs.make_read(e, nm + '_R1', tags={}, closed=True)
        r2 = stubs.make_read(e, nm + '_R2', tags={}, closed=True)
        reads = [r1, r2] if e.branch(fresh(BOOL, 'paired').z) else [r1, None]
        o = Obj('FragStub', {'reads': reads, 'meta': {}})
        e.spec_env['FRAG'] = o
        return o
    stubs.STUBS['FragStub'] = {'methods': {'set_meta': lambda e, o, t, v: o.attrs['meta'].__setitem__(t, v),
                                           '__iter__': lambda e, o: list(o.attrs['reads'])}, 'props': {}, 'setters': {}}
    seq = stubs.ObjSeq(frag_obj, 'fragments')
    eng.spec_env['FRAGSEQ'] = seq
    Q = 'singlecellmultiomics.molecule.molecule.Molecule.'
    eng.loader.call_hooks[Q + 'is_valid'] = lambda e, f, a, k, n: fresh(BOOL, 'valid')
    eng.loader.call_hooks[Q + 'set_meta'] = lambda e, f, a, k, n: e.ghost['mol_meta'].__setitem__(a[0], a[1])
    eng.loader.call_hooks[Q + '__iter__'] = lambda e, f, a, k, n: seq
    eng.loader.call_hooks[Q + '__len__'] = lambda e, f, a, k, n: Sym(seq.n, INT)
    eng.loader.call_hooks[Q + 'estimated_max_length'] = lambda e, f, a, k, n: fresh(INT, 'ms')
    eng.loader.call_hooks[Q + 'get_rt_reactions'] = lambda e, f, a, k, n: {}


def wt_self(eng, name):
    seq = eng.spec_env['FRAGSEQ']

    class Frags:
        def vc_len(self, e):
            return Sym(seq.n, INT)
    return Obj('Molecule', {'umi': named(STR, 'umi'), 'allele': None, 'fragments': Frags(), 'overflow_fragments': named(INT, 'overflow'),
                            'allele_resolver': None}, info=eng.loader.classref(FM, 'Molecule'))


write_tags = Contract(
    PROP, FM + '::Molecule.write_tags', name='Molecule.write_tags',
    params={'self': wt_self},
    setup=wt_setup,
    loops={0: LoopSpec(
        inv={},
        types={'frag': 'frame', 'read': 'frame'},
        body_post={
            # k is the number of fragments handled: this fragment has rank k - 1
            'rank_tag': 'FRAG.meta["RC"] == k - 1',
            # exactly the first fragment is not a duplicate - whatever duplicate flags its reads carried before
            'duplicate_flag_iff_not_the_first_fragment':
                'all(r.is_duplicate == (k - 1 > 0) for r in FRAG.reads if r is not None)',
        })},
    ensures={
        'fragment_count_tags': 'GHOST["mol_meta"]["af"] == len(self.fragments) and '
                               'GHOST["mol_meta"]["TF"] == len(self.fragments) + self.overflow_fragments',
    },
    raises={},
    assumptions=['pysam flag setters; Molecule.set_meta / is_valid / get_rt_reactions / estimated_max_length through stubs '
                 '(no RT reactions, no allele resolver)', 'an arbitrary fragment (one or two reads with arbitrary earlier flags) '
                 'at an arbitrary rank: independent per fragment'],
)
UNITS.append(write_tags)


def write_tags_replay(inputs, clause):
    """real NlaIIIMolecule of two duplicate fragments whose reads already carry the duplicate flag (a BAM tagged before)"""
    import pysam
    from pyvc import bamreplay as B
    from pyvc.contract import import_real
    Frag = import_real(FN, 'NlaIIIFragment')
    Mol = import_real('singlecellmultiomics/molecule/nlaIII.py', 'NlaIIIMolecule')
    header = pysam.AlignmentHeader.from_dict({'HD': {'VN': '1.6'}, 'SQ': [{'SN': 'ctgA', 'LN': 100000}]})

    def read(name):
        r = B.make_segment(header, {'query_sequence': 'CATG' + 'A' * 26, 'cigartuples': [(0, 30)], 'reference_start': 1000,
                                    'reference_end': 1030, 'mapping_quality': 60, 'is_read1': True, 'is_duplicate': True,
                                    'tags': {'SM': 'cell1', 'RX': 'ACG', 'MX': 'NLAIII384C8U3'}}, 'ctgA', name)
        return r
    frags = [Frag([read('q%d' % i), None], umi_hamming_distance=0) for i in range(2)]
    m = Mol(frags[0])
    added = m.add_fragment(frags[1])
    m.write_tags()
    flags = [[r.is_duplicate for r in f if r is not None] for f in m]
    rc = [[r.get_tag('RC') for r in f if r is not None] for f in m]
    obs = {'outcome': 'return', 'value': {'added': added, 'RC': rc, 'is_duplicate': flags,
                                          'af': frags[0][0].get_tag('af'), 'TF': frags[0][0].get_tag('TF')}}
    if flags != [[False], [True]] or rc != [[0], [1]]:
        return {'status': 'confirmed', 'observed': obs,
                'failed': [{'clause': 'duplicate_flag_iff_not_the_first_fragment', 'why': 'the representative fragment keeps a stale duplicate flag'}]}
    return {'status': 'not-reproduced', 'observed': obs}


write_tags.replay = write_tags_replay


def extra_units():
    # fragments of one molecule share the cut site: the site every fragment gets is C09's identify_site contract
    from contracts import c09
    import copy
    out = []
    for u in (c09.nla_site, c09.chic_site):
        v = copy.copy(u)
        v.prop = PROP
        out.append(v)
    # a molecule that is ejected while a fragment can still join it splits a true molecule: C07's no-late-join contract
    from contracts import c07
    # ... and an ejection check only removes what it emits (the whole hash-group body, C07)
    for u in (c07.can_be_yielded, c07.add_span, c07.group_body, c07.eject_branches):
        v = copy.copy(u)
        v.prop = PROP
        out.append(v)
    return out


# ------------------------------------------------------------------------------ MoleculeIterator: assignment of one fragment
# With exact UMIs (distance 0) a fragment joins a buffered molecule iff they have the same key (cell, strand, site, UMI)
# [equality contracts above]; the block keeps "buffered molecules have pairwise different keys" and puts the fragment
# into the molecule of its key, creating it when no such molecule is buffered.
KEY = z3.Function('key_of_molecule', z3.IntSort(), z3.IntSort())


def assign_block(f):
    return blocks.stmts_between(
        f, lambda st: isinstance(st, ast.Assign) and ast.unparse(st) == 'added = False',
        lambda st: isinstance(st, ast.If) and ast.unparse(st.test) == 'not added')


def assign_setup_for(exact):
    return lambda eng: assign_setup(eng, exact)


def assign_setup(eng, exact=True):
    g = eng.ghost
    g.clear()
    g.update({'joined': [], 'created': []})
    eng.spec_env['GHOST'] = g
    fkey = named(INT, 'fragment_key')
    eng.spec_env['FKEY'] = fkey
    eng.spec_env['OVERFLOWED'] = False
    eng.spec_env['KEY'] = Builtin('KEY', lambda e, a, k, n: Sym(KEY(a[0].z if isinstance(a[0], Sym) else z3.IntVal(a[0])), INT))

    def add_fragment(e, o, fragment, use_hash=True):
        # Molecule.add_fragment contract at distance 0: accepted iff same key; OverflowError only for an accepted fragment
        same = KEY(o.attrs['idx'].z) == fkey.z if exact else fresh(BOOL, 'accepts').z
        if e.branch(same):
            if e.branch(fresh(BOOL, 'overflow').z):
                e.spec_env['OVERFLOWED'] = True
                raise PyRaise('OverflowError')
            e.ghost['joined'].append(o.attrs['idx'])
            return True
        return False
    stubs.STUBS['AssignMolRef'] = {'methods': {'add_fragment': add_fragment, '__finalise__': lambda e, o: None,
                                         'set_rejection_reason': lambda e, o, *a: None}, 'props': {}, 'setters': {}}

    def new_molecule(e, a, k, n):
        idx = fresh(INT, 'new_molecule')
        e.assume(KEY(idx.z) == fkey.z)
        e.ghost['created'].append(idx)
        return Obj('AssignMolRef', {'idx': idx})
    eng.spec_env['NEWMOL'] = Builtin('molecule_class', new_molecule)


def it_self_for(pooling):
    def it_self(eng, name):
        from pyvc.symlist import SymList
        mols = SymList.fresh((INT,), None, 'molecules', eng=eng, wrap=lambda v: Obj('AssignMolRef', {'idx': v}), unwrap=lambda o: o.attrs['idx'])
        eng.spec_env['MOLS0'] = mols.vc_snapshot()
        eng.spec_env['MOLS'] = mols
        frag_ = Obj('FragStub', {'match_hash': 'mh'})
        frag_.vc_immutable = True
        eng.spec_env['FRAGMENT'] = frag_
        attrs = {'pooling_method': pooling, 'molecule_class': eng.spec_env['NEWMOL'],
                 'molecule_class_args': {}, 'yield_overflow': named(BOOL, 'yield_overflow'),
                 'deleted_fragments': named(INT, 'deleted'), 'perform_allele_clustering': False}
        if pooling == 0:
            attrs['molecules'] = mols
        else:
            # the bucket of the fragment's (cell, strand, ...) hash; other buckets are not touched by the block
            attrs['molecules_per_cell'] = {'mh': mols}
        return Obj('MoleculeIterator', attrs, info=eng.loader.classref(FI, 'MoleculeIterator'))
    return it_self


DISTINCT = 'forall((i, j), implies(0 <= i and i < j and j < len({L}), KEY({L}[i].idx) != KEY({L}[j].idx)))'


def assign_unit(pooling, exact):
    """exact: UMI distance 0 - add_fragment accepts iff same key (equality contracts above);
    not exact: any UMI distance - acceptance is an arbitrary relation (not transitive): the fragment must still be placed in
    exactly one molecule (the molecules are a partition of the fragments)"""
    ensures = {'fragment_is_placed_in_exactly_one_molecule':
               'OVERFLOWED or len(GHOST["joined"]) + len(GHOST["created"]) == 1',
               'a_new_molecule_is_founded_only_if_no_buffered_molecule_accepts':
               'OVERFLOWED or implies(len(GHOST["created"]) == 1, len(GHOST["joined"]) == 0)',
               'a_founded_molecule_is_buffered_in_the_bucket_of_the_fragment':
               'OVERFLOWED or implies(len(GHOST["created"]) == 1, len(MOLS) == len(MOLS0) + 1 and MOLS[len(MOLS0)].idx == GHOST["created"][0])',
               'buffer_otherwise_unchanged':
               'forall(t, implies(0 <= t and t < len(MOLS0), MOLS[t].idx == MOLS0[t].idx)) and '
               'implies(OVERFLOWED or len(GHOST["created"]) == 0, len(MOLS) == len(MOLS0))'}
    inv = {'not_found_yet': 'added == False', 'nothing_joined_yet': 'len(GHOST["joined"]) == 0'}
    requires = []
    if exact:
        requires = [DISTINCT.format(L='MOLS0')]
        inv['earlier_molecules_have_other_keys'] = 'forall(t, implies(0 <= t and t < k, KEY(MOLS0[t].idx) != FKEY))'
        ensures['buffered_molecules_keep_pairwise_different_keys'] = DISTINCT.format(L='MOLS')
        ensures['fragment_joins_the_molecule_of_its_key_or_founds_it'] = (
            'OVERFLOWED or (len(GHOST["joined"]) == 1 and KEY(GHOST["joined"][0]) == FKEY and len(GHOST["created"]) == 0) or '
            '(len(GHOST["joined"]) == 0 and len(GHOST["created"]) == 1 and '
            'forall(t, implies(0 <= t and t < len(MOLS0), KEY(MOLS0[t].idx) != FKEY)))')
    return Contract(
        PROP, FI + '::MoleculeIterator.__iter__',
        name='MoleculeIterator.assign_fragment[pooling_method=%d, %s]' % (pooling, 'exact UMIs' if exact else 'any UMI distance'),
        block=assign_block,
        params={'self': it_self_for(pooling), 'fragment': lambda e, n: e.spec_env['FRAGMENT']},
        setup=assign_setup_for(exact),
        requires=requires,
        yields='checks-only',
        loops={(0 if pooling == 0 else 1): LoopSpec(k='k', inv=inv, types={'molecule': 'frame'})},
        ensures=ensures,
        raises={},
        assumptions=['Molecule.add_fragment through its contract' + (
            ' at UMI distance 0 (accepts iff same (cell, strand, site, UMI) key)' if exact else
            ': an arbitrary acceptance relation (UMI distance > 0 is not transitive)') +
            '; a molecule that has reached max_associated_fragments raises OverflowError: the fragment is then emitted/dropped '
            'alone (outside this clause)'],
    )


UNITS += [assign_unit(0, True), assign_unit(1, True), assign_unit(0, False), assign_unit(1, False)]


def plain_eq_replay(inputs, clause):
    """two real plain Fragments of single real pysam records realising the model's sample / strand / contig / start / UMI"""
    import pysam
    from pyvc.contract import import_real
    Fragment = import_real(FF, 'Fragment')
    a, b = inputs['self']['attrs'], inputs['other']['attrs']
    header = pysam.AlignmentHeader.from_dict({'HD': {'VN': '1.6'}, 'SQ': [{'SN': 'chr1', 'LN': 10 ** 8}, {'SN': 'chr2', 'LN': 10 ** 8}]})
    same_contig = a['span'][0] == b['span'][0]
    # the model's coordinates as they are (position 0 included); only coordinates beyond the scratch contig are shifted down
    top = max(int(a['span'][1]), int(b['span'][1]))
    base, shift = (0, 0) if top < 9 * 10 ** 7 else (10 ** 6, min(int(a['span'][1]), int(b['span'][1])))

    def seg(x, contig, name):
        s = pysam.AlignedSegment(header)
        s.query_name, s.reference_id = name, contig
        s.reference_start = base + int(x['span'][1]) - shift
        n = max(1, min(int(x['span'][2]) - int(x['span'][1]), 60))
        s.query_sequence, s.cigartuples, s.mapping_quality = 'A' * n, [(0, n)], 60
        s.query_qualities = pysam.qualitystring_to_array('I' * n)
        s.flag = 16 if x['strand'] else 0
        s.set_tag('SM', 'cell_' + (x['sample'] or 'x'))
        s.set_tag('RX', ('ACG' + x['umi']) if all(c in 'ACGTN' for c in x['umi']) else ('ACG' if x['umi'] == a['umi'] else 'TTT'))
        s.set_tag('MX', 'x')
        return s
    fa = Fragment([seg(a, 0, 'qa')], assignment_radius=int(a['assignment_radius']), umi_hamming_distance=0)
    fb = Fragment([seg(b, 0 if same_contig else 1, 'qb')], assignment_radius=int(b['assignment_radius']), umi_hamming_distance=0)
    got = (fa == fb)
    want = bool(fa.sample == fb.sample and fa.strand == fb.strand and fa.span[0] == fb.span[0] and
                min(abs(fa.span[1] - fb.span[1]), abs(fa.span[2] - fb.span[2])) <= fa.assignment_radius and fa.umi == fb.umi)
    obs = {'outcome': 'return', 'value': got, 'expected': want, 'a': [fa.sample, fa.strand, list(fa.span), fa.umi],
           'b': [fb.sample, fb.strand, list(fb.span), fb.umi]}
    if got != want:
        return {'status': 'confirmed', 'observed': obs, 'failed': [{'clause': clause}]}
    return {'status': 'not-reproduced', 'observed': obs}


plain_eq.replay = plain_eq_replay


# ------------------------------------------------------------------------------ MoleculeIterator.__iter__: every pass starts with empty
# buffers (molecules left over from an abandoned earlier pass must not absorb the fragments a second time)
def iter_prologue_block(f):
    return blocks.stmts_between(
        f, lambda st: isinstance(st, ast.If) and ast.unparse(st.test) == 'self.perform_qflag',
        lambda st: isinstance(st, ast.Assign) and ast.unparse(st).startswith('self.waiting_fragments = 0'))


def iter_prologue_self(pooling):
    def mk(eng, name):
        stale = [Obj('AssignMolRef', {'idx': 1}), Obj('AssignMolRef', {'idx': 2})]
        attrs = {'perform_qflag': False, 'pooling_method': pooling, 'waiting_fragments': named(INT, 'stale_waiting'),
                 'yielded_fragments': named(INT, 'stale_yielded'), 'deleted_fragments': named(INT, 'stale_deleted'),
                 'check_ejection_iter': named(INT, 'stale_counter')}
        if pooling == 0:
            attrs['molecules'] = list(stale)
        else:
            attrs['molecules_per_cell'] = {'bucket': list(stale)}
        return Obj('MoleculeIterator', attrs, info=eng.loader.classref(FI, 'MoleculeIterator'))
    return mk


def iter_prologue_unit(pooling):
    buf = 'len(self.molecules) == 0' if pooling == 0 else 'len(self.molecules_per_cell) == 0'
    return Contract(
        PROP, FI + '::MoleculeIterator.__iter__', name='MoleculeIterator.__iter__[a pass starts with empty buffers, pooling_method=%d]' % pooling,
        block=iter_prologue_block,
        params={'self': iter_prologue_self(pooling)},
        setup=lambda eng: None,
        yields='checks-only',
        ensures={'no_molecule_of_an_earlier_pass_is_buffered': buf,
                 'counters_restart': 'self.waiting_fragments == 0 and self.check_ejection_iter == 0'},
        raises={},
        assumptions=['the iterator may have been abandoned in the middle of an earlier pass (two molecules left in the buffer)'],
    )


UNITS += [iter_prologue_unit(0), iter_prologue_unit(1)]


# ------------------------------------------------------------------------------ hamming_distance: the UMI distance the equality contracts use
FSQ = 'singlecellmultiomics/utils/sequtils.py'


def hd_strings(n):
    def mk(eng, name):
        s = named(STR, name)
        eng.assume(z3.Length(s.z) == n)
        return s
    return mk


def hd_unit(n):
    DIFF = lambda i: '(1 if (a[%d] != b[%d] and a[%d] != "N" and b[%d] != "N") else 0)' % (i, i, i, i)
    return Contract(
        PROP, FSQ + '::hamming_distance', name='hamming_distance[UMIs of %d bases]' % n,
        params={'a': hd_strings(n), 'b': hd_strings(n)},
        ensures={
            'counts_the_positions_where_two_called_bases_differ': 'result == ' + ' + '.join(DIFF(i) for i in range(n)),
            'identical_umis_have_distance_0': 'implies(a == b, result == 0)',
            'N_matches_everything': 'implies(all(a[i] == "N" for i in range(%d)), result == 0)' % n,
        },
        raises={},
        bounded='UMIs of exactly %d characters (symbolic)' % n,
    )


UNITS += [hd_unit(3), hd_unit(6)]


# ------------------------------------------------------------------------------ CHICFragment.__init__: the bucket key (match_hash)
# fragments are only compared inside one bucket: two fragments with the same key must share cell, strand and contig (and the
# exact site when the assignment radius is 0; within a radius the position is compared by __eq__)
def hash_block(f):
    c = blocks.find_nodes(f, lambda n: isinstance(n, ast.If) and ast.unparse(n.test) == 'self.is_valid()')
    return c[:1]


def hash_self(eng, name):
    radius = named(INT, 'assignment_radius')
    eng.assume(radius.z >= 0)
    return Obj('CHICFragment', {'assignment_radius': radius, 'strand': named(BOOL, 'strand'), 'cut_site_strand': named(BOOL, 'cut_site_strand'),
                                'site_location': (named(STR, 'site_contig'), named(INT, 'site_position')), 'sample': named(STR, 'sample'),
                                'match_hash': 'unset'}, info=eng.loader.classref(FC, 'CHICFragment'))


def hash_setup(eng):
    eng.spec_env['VALID'] = named(BOOL, 'fragment_is_valid')
    for q in ('singlecellmultiomics.fragment.fragment.Fragment.is_valid', 'singlecellmultiomics.fragment.chic.CHICFragment.is_valid'):
        eng.loader.call_hooks[q] = lambda e, f, a, k, n: e.spec_env['VALID']


chic_hash = Contract(
    PROP, FC + '::CHICFragment.__init__', name='CHICFragment.__init__[bucket key]',
    block=hash_block,
    params={'self': hash_self},
    setup=hash_setup,
    ensures={
        'invalid_fragments_have_no_key': 'implies(not VALID, self.match_hash is None)',
        'exact_sites_key': 'implies(VALID and self.assignment_radius == 0, self.match_hash == '
                           '(self.strand, self.cut_site_strand, self.site_location[0], self.site_location[1], self.sample))',
        # within a radius the position is left to __eq__; cell, strand and contig stay in the key
        'radius_key_keeps_strand_contig_and_cell': 'implies(VALID and self.assignment_radius != 0, self.match_hash == '
                                                   '(self.cut_site_strand, self.site_location[0], self.sample))',
    },
    raises={},
    assumptions=['Fragment.is_valid an arbitrary verdict; identify_site has set strand / cut_site_strand / site_location (C09)'],
)
UNITS.append(chic_hash)


# ------------------------------------------------------------------------------ NlaIIIFragment.__init__: the bucket key
def nla_hash_self(eng, name):
    return Obj('NlaIIIFragment', {'use_allele_tag': False, 'strand': named(BOOL, 'strand'), 'cut_site_strand': named(BOOL, 'cut_site_strand'),
                                  'site_location': (named(STR, 'site_contig'), named(INT, 'site_position')), 'sample': named(STR, 'sample'),
                                  'match_hash': 'unset', 'reads': []}, info=eng.loader.classref(FN, 'NlaIIIFragment'))


def nla_hash_setup(eng):
    eng.spec_env['VALID'] = named(BOOL, 'fragment_is_valid')
    for q in ('singlecellmultiomics.fragment.fragment.Fragment.is_valid', 'singlecellmultiomics.fragment.nlaIII.NlaIIIFragment.is_valid'):
        eng.loader.call_hooks[q] = lambda e, f, a, k, n: e.spec_env['VALID']


nla_hash = Contract(
    PROP, FN + '::NlaIIIFragment.__init__', name='NlaIIIFragment.__init__[bucket key]',
    block=hash_block,
    params={'self': nla_hash_self},
    setup=nla_hash_setup,
    ensures={
        'invalid_fragments_have_no_key': 'implies(not VALID, self.match_hash is None)',
        # same key <=> same strand, site strand, contig, site position and cell
        'key_is_strand_site_and_cell': 'implies(VALID, self.match_hash == '
                                       '(self.strand, self.cut_site_strand, self.site_location[0], self.site_location[1], self.sample))',
    },
    raises={},
    assumptions=['use_allele_tag off; Fragment.is_valid an arbitrary verdict; identify_site has set strand / site (C09)'],
)
UNITS.append(nla_hash)


# ------------------------------------------------------------------------------ NlaIIIMolecule / CHICMolecule._add_fragment: the molecule's site
FMN = 'singlecellmultiomics/molecule/nlaIII.py'
FMC = 'singlecellmultiomics/molecule/chic.py'


def site_setup(eng):
    eng.ghost.clear()
    eng.ghost['base_calls'] = []
    eng.spec_env['GHOST'] = eng.ghost
    eng.loader.call_hooks['singlecellmultiomics.molecule.molecule.Molecule._add_fragment'] = \
        lambda e, f, a, k, n: e.ghost['base_calls'].append(a[-1])


def site_molecule(cls, relpath, has_site):
    def mk(eng, name):
        site = [named(STR, 'mol_contig'), named(INT, 'mol_site')] if has_site else None
        eng.spec_env['SITE0'] = list(site) if site else None
        return Obj(cls, {'site_location': site, 'assignment_radius': named(INT, 'old_radius')}, info=eng.loader.classref(relpath, cls))
    return mk


def site_fragment(has_site):
    def mk(eng, name):
        o = Obj('SiteFrag', {'site_location': (named(STR, 'frag_contig'), named(INT, 'frag_site')) if has_site else None,
                             'strand': named(BOOL, 'frag_strand'), 'assignment_radius': named(INT, 'frag_radius')})
        o.vc_immutable = True
        return o
    return mk


def mol_site_unit(cls, relpath):
    return Contract(
        PROP, relpath + '::%s._add_fragment' % cls, name='%s._add_fragment[molecule site]' % cls,
        params={'self': site_molecule(cls, relpath, True), 'fragment': site_fragment(True)},
        cases=[{}, {'self': site_molecule(cls, relpath, False)}, {'fragment': site_fragment(False)}],
        setup=site_setup,
        ensures={
            'fragment_is_added_once_through_the_base_class': 'GHOST["base_calls"] == [fragment]',
            'first_site_is_taken_over': 'implies(SITE0 is None and fragment.site_location is not None, '
                                        'self.site_location[0] == fragment.site_location[0] and self.site_location[1] == fragment.site_location[1])',
            # the molecule's site is the extreme one in the direction of its strand
            'later_sites_extend_to_the_extreme':
                'implies(SITE0 is not None and fragment.site_location is not None, self.site_location[0] == SITE0[0] and '
                'self.site_location[1] == (max(SITE0[1], fragment.site_location[1]) if fragment.strand else min(SITE0[1], fragment.site_location[1])))',
            'a_fragment_without_site_changes_nothing': 'implies(fragment.site_location is None, self.site_location == SITE0)',
            'radius_follows_the_fragment': 'self.assignment_radius == fragment.assignment_radius',
        },
        raises={},
    )


UNITS += [mol_site_unit('NlaIIIMolecule', FMN), mol_site_unit('CHICMolecule', FMC)]


# ------------------------------------------------------------------------------ the tagger's method table: every molecule class
# "In the tagged output every molecule has exactly one fragment that is not flagged duplicate ... af, TF, RC agree": the rank /
# duplicate writer is Molecule.write_tags (contract above).  Every molecule class the tagger can select (extracted from the
# method table of bamtagmultiome.py on every run) must run it when its own write_tags is called, and every class the tagger
# pairs with CHICFragment must keep the molecule's site (CHICFragment.__eq__ compares against it) through _add_fragment.
import ast as _ast      # noqa: E402
import glob as _glob      # noqa: E402
import os as _os      # noqa: E402
from pyvc.loader import REPO as _REPO      # noqa: E402

FBT = 'singlecellmultiomics/universalBamTagger/bamtagmultiome.py'


def method_table():
    """[(method name(s), molecule class, fragment class)] from the `args.method == ...` chain of the tagger"""
    tree = _ast.parse(open(_os.path.join(_REPO, FBT)).read())
    out = []
    for node in _ast.walk(tree):
        if not isinstance(node, _ast.If):
            continue
        tests = [node.test] if isinstance(node.test, _ast.Compare) else (
            list(node.test.values) if isinstance(node.test, _ast.BoolOp) and isinstance(node.test.op, _ast.Or) else [])
        names = [t.comparators[0].value for t in tests
                 if isinstance(t, _ast.Compare) and _ast.unparse(t.left) == 'args.method' and isinstance(t.ops[0], _ast.Eq)
                 and isinstance(t.comparators[0], _ast.Constant)]
        if not names:
            continue
        mol = frag = None
        for st in node.body:
            if isinstance(st, _ast.Assign) and len(st.targets) == 1 and isinstance(st.targets[0], _ast.Name) and \
                    isinstance(st.value, _ast.Attribute):
                if st.targets[0].id == 'molecule_class':
                    mol = st.value.attr
                elif st.targets[0].id == 'fragment_class':
                    frag = st.value.attr
        if mol and frag:
            out.append((tuple(names), mol, frag))
    return out


def class_file(package, cls):
    for p in sorted(_glob.glob(_os.path.join(_REPO, 'singlecellmultiomics', package, '*.py'))):
        try:
            t = _ast.parse(open(p).read())
        except SyntaxError:
            continue
        if any(isinstance(n, _ast.ClassDef) and n.name == cls for n in t.body):
            return _os.path.relpath(p, _REPO)
    return None


def mt_setup(eng):
    eng.ghost.clear()
    eng.ghost.update({'base_writes': 0, 'base_adds': []})
    eng.spec_env['GHOST'] = eng.ghost
    QM = 'singlecellmultiomics.molecule.molecule.Molecule.'

    def base_write(e, f, a, k, n):
        e.ghost['base_writes'] += 1
    eng.loader.call_hooks[QM + 'write_tags'] = base_write
    eng.loader.call_hooks[QM + '_add_fragment'] = lambda e, f, a, k, n: e.ghost['base_adds'].append(a[-1])
    eng.loader.call_hooks[QM + 'set_meta'] = lambda e, f, a, k, n: None
    eng.loader.call_hooks[QM + 'get_barcode_sequences'] = lambda e, f, a, k, n: {'ACGTACGT'}
    eng.loader.call_hooks[QM + 'get_cut_site'] = lambda e, f, a, k, n: ('chr1', named(INT, 'cut_site'), named(BOOL, 'cut_strand'))
    eng.loader.call_hooks['singlecellmultiomics.molecule.nlaIII.NlaIIIMolecule.get_undigested_site_count'] = \
        lambda e, f, a, k, n: named(INT, 'undigested')

    def upstream(e, f, a, k, n):
        if e.branch(fresh(BOOL, 'read1_unmapped').z):
            raise PyRaise('ValueError', 'no read 1')
        return named(STR, 'upstream_site')
    eng.loader.call_hooks['singlecellmultiomics.molecule.chic.CHICNLAMolecule.get_upstream_site'] = upstream
    stubs.STUBS['FragStub'] = {'methods': {'set_meta': lambda e, o, t, v: o.attrs['meta'].__setitem__(t, v),
                                           'write_tags': lambda e, o: None}, 'props': {}, 'setters': {}}


def mt_molecule(cls, relpath, n_frags=2):
    def mk(eng, name):
        frags = [Obj('FragStub', {'meta': {}}) for _ in range(n_frags)]
        r = named(INT, 'radius')
        eng.assume(r.z >= 0)
        attrs = {'fragments': frags, 'umi': 'ACG', 'exons': set(), 'introns': set(), 'genes': {'geneA'}, 'junctions': set(),
                 'is_spliced': None, 'exon_hit_gene_names': set(), 'reference': None, 'assignment_radius': r,
                 'site_location': ['chr1', named(INT, 'mol_site')], 'strand': named(BOOL, 'mol_strand'), 'chromosome': 'chr1'}
        return Obj(cls, attrs, info=eng.loader.classref(relpath, cls))
    return mk


def writes_unit(methods, cls, relpath):
    return Contract(
        PROP, relpath + '::' + cls, name='%s.write_tags[rank/duplicate writer runs; -method %s]' % (cls, ','.join(methods)),
        harness='''
MOL.write_tags()
return MOL
''',
        params={'MOL': mt_molecule(cls, relpath)}, setup=mt_setup,
        ensures={'the_rank_and_duplicate_writer_of_Molecule_has_run': 'GHOST["base_writes"] >= 1'},
        raises={},
        assumptions=['Molecule.write_tags itself: its own contract above; set_meta / get_cut_site / get_barcode_sequences and the '
                     'fragments through stubs; class and method names from the method table of bamtagmultiome.py'],
    )


def keeps_site_unit(methods, cls, relpath):
    return Contract(
        PROP, relpath + '::' + cls, name='%s._add_fragment[keeps the site CHICFragment.__eq__ compares; -method %s]' % (cls, ','.join(methods)),
        harness='''
MOL._add_fragment(FRAGMENT)
return MOL
''',
        params={'MOL': site_molecule(cls, relpath, False), 'FRAGMENT': site_fragment(True)},
        setup=mt_setup,
        ensures={
            'the_first_fragment_gives_the_molecule_its_site':
                'result.site_location is not None and result.site_location[0] == FRAGMENT.site_location[0] and '
                'result.site_location[1] == FRAGMENT.site_location[1]',
            'fragment_is_added_once_through_the_base_class': 'GHOST["base_adds"] == [FRAGMENT]',
        },
        raises={},
        assumptions=['a molecule without site yet (as its constructor leaves it) and a fragment with a site'],
    )


def adds_unit(methods, cls, relpath):
    def frag(eng, name):
        o = Obj('SiteFrag', {'site_location': (named(STR, 'frag_contig'), named(INT, 'frag_site')), 'strand': named(BOOL, 'frag_strand'),
                             'assignment_radius': named(INT, 'frag_radius'), 'genes': {'geneB'}})
        o.vc_immutable = True
        return o
    return Contract(
        PROP, relpath + '::' + cls, name='%s._add_fragment[the fragment reaches the base class once; -method %s]' % (cls, ','.join(methods)),
        harness='''
MOL._add_fragment(FRAGMENT)
return MOL
''',
        params={'MOL': mt_molecule(cls, relpath), 'FRAGMENT': frag},
        setup=mt_setup,
        ensures={'fragment_is_added_once_through_the_base_class': 'GHOST["base_adds"] == [FRAGMENT]'},
        raises={},
        assumptions=['Molecule._add_fragment itself (fragment list, UMI counter, span): its own contracts (C07 span invariant, add_fragment)'],
    )


def method_table_units():
    units, seen_w, seen_s = [], set(), set()
    for methods, mol, frag in method_table():
        rel = class_file('molecule', mol)
        if rel is None:
            continue
        if mol not in seen_w and mol != 'Molecule':
            units.append(adds_unit(methods, mol, rel))
        if mol not in seen_w and mol != 'Molecule':
            seen_w.add(mol)
            units.append(writes_unit(methods, mol, rel))
        if frag == 'CHICFragment' and mol not in seen_s:
            seen_s.add(mol)
            units.append(keeps_site_unit(methods, mol, rel))
    return units


def method_table_replay(cls, frag_cls):
    def replay(inputs, clause):
        """three real duplicate fragments (same cell, site, strand, UMI) through the real molecule class: they must form one
        molecule whose write_tags leaves exactly one fragment unflagged and writes RC 0,1,2 / af 3"""
        import pysam
        from pyvc import bamreplay as B
        mm = __import__('singlecellmultiomics.molecule', fromlist=['x'])
        fm = __import__('singlecellmultiomics.fragment', fromlist=['x'])
        Mol, Frag = getattr(mm, cls), getattr(fm, frag_cls)
        kwargs = {'CHICMolecule': {}, 'NlaIIIMolecule': {}, 'CHICNLAMolecule': {'reference': None}}.get(cls)
        if kwargs is None:
            return {'status': 'no-input', 'note': 'no scratch construction for %s (needs features / TAPS objects)' % cls}
        header = pysam.AlignmentHeader.from_dict({'HD': {'VN': '1.6'}, 'SQ': [{'SN': 'ctgA', 'LN': 100000}]})

        class Ref:
            def fetch(self, c, s_, e_):
                return 'A' * (e_ - s_)
        if 'reference' in kwargs:
            kwargs['reference'] = Ref()

        def read(name):
            return B.make_segment(header, {'query_sequence': 'CATG' + 'A' * 26, 'cigartuples': [(0, 30)], 'reference_start': 1000,
                                           'reference_end': 1030, 'mapping_quality': 60, 'is_read1': True, 'is_duplicate': True,
                                           'tags': {'SM': 'cell1', 'RX': 'ACG', 'MX': 'x', 'lh': 'TA'}}, 'ctgA', name)
        model_radius = ((inputs.get('MOL') or {}).get('attrs') or {}).get('assignment_radius')
        radii = sorted({0, 5} | ({int(model_radius)} if isinstance(model_radius, int) and 0 <= model_radius < 1000 else set()))
        runs, bad = {}, False
        for radius in radii:
            fk = {'assignment_radius': radius} if 'CHIC' in frag_cls else {}
            frags = [Frag([read('q%d' % i), None], umi_hamming_distance=0, **fk) for i in range(3)]
            m = Mol(frags[0], **kwargs)
            added = [bool(m.add_fragment(f)) for f in frags[1:]]
            m.write_tags()
            flags = [[r.is_duplicate for r in f if r is not None] for f in m]
            tags = [[(dict(r.get_tags()).get('RC'), dict(r.get_tags()).get('af')) for r in f if r is not None] for f in m]
            runs['radius %d' % radius] = {'duplicates_accepted': added, 'is_duplicate': flags, 'RC_af': [[list(t) for t in x] for x in tags]}
            if added != [True, True] or flags != [[False], [True], [True]] or tags != [[(0, 3)], [(1, 3)], [(2, 3)]]:
                bad = True
        obs = {'outcome': 'return', 'value': runs}
        if bad:
            return {'status': 'confirmed', 'observed': obs, 'failed': [{'clause': clause}]}
        return {'status': 'not-reproduced', 'observed': obs}
    return replay


def method_table_units_with_replay():
    units = method_table_units()
    frag_of = {mol: frag for _, mol, frag in method_table()}
    for u in units:
        cls = u.name.split('.')[0]
        u.replay = method_table_replay(cls, frag_of.get(cls, 'Fragment'))
    return units


MT_UNITS = method_table_units_with_replay()
UNITS += MT_UNITS


# ------------------------------------------------------------------------------ Molecule.update_umi: the representative UMI
# hash-mode assignment compares a candidate with the molecule's representative UMI; `_add_fragment` units use update_umi
# through a hook: here it is the most frequent UMI of the molecule's fragments
def umi_self(counts):
    def mk(eng, name):
        from pyvc import externals
        c = externals.CounterDict()
        c.update(counts)
        return Obj('Molecule', {'umi_counter': c, 'umi': None}, info=eng.loader.classref(FM, 'Molecule'))
    return mk


update_umi = Contract(
    PROP, FM + '::Molecule.update_umi', name='Molecule.update_umi[the most frequent UMI represents the molecule]',
    params={'self': umi_self({'AAA': 2, 'CCC': 1})},
    cases=[{}, {'self': umi_self({'AAA': 1, 'CCC': 3})}, {'self': umi_self({'GGG': 1})}, {'self': umi_self({'AAA': 2, 'CCC': 2, 'TTT': 1})}],
    ensures={'representative_is_a_most_frequent_umi':
             'self.umi in self.umi_counter and all(self.umi_counter[self.umi] >= self.umi_counter[u] for u in self.umi_counter)'},
    raises={},
    bounded='counters of 1-3 UMIs with concrete counts',
)
UNITS.append(update_umi)


# ------------------------------------------------------------------------------ set_meta: how a molecule-level tag reaches the records
# write_tags writes af / TF / RC through Molecule.set_meta and Fragment.set_meta (hooked in the write_tags unit): every record of
# every fragment of the molecule gets the tag with the value given
def setmeta_setup(eng):
    eng.ghost.clear()
    eng.spec_env['GHOST'] = eng.ghost


def setmeta_molecule(eng, name):
    frags = []
    reads = []
    for i, paired in enumerate((True, False, True)):
        r1 = stubs.make_read(eng, 'f%d_R1' % i, tags={'af': INT}, closed=True)
        r2 = stubs.make_read(eng, 'f%d_R2' % i, tags={'af': INT}, closed=True) if paired else None
        reads += [r for r in (r1, r2) if r is not None]
        frags.append(Obj('Fragment', {'reads': [r1, r2], 'meta': {}}, info=eng.loader.classref(FF, 'Fragment')))
    eng.spec_env['READS'] = reads
    eng.spec_env['FRAGS'] = frags
    return Obj('Molecule', {'fragments': frags}, info=eng.loader.classref(FM, 'Molecule'))


set_meta = Contract(
    PROP, FM + '::Molecule.set_meta', name='Molecule.set_meta[3 fragments, one of them single-end]',
    params={'self': setmeta_molecule, 'tag': ('const', 'af'), 'value': 'int'},
    setup=setmeta_setup,
    ensures={
        'every_record_of_every_fragment_carries_the_value': 'all(r.has_tag("af") and r.get_tag("af") == value for r in READS)',
        'fragment_level_copy': 'all(f.meta["af"] == value for f in FRAGS)',
    },
    raises={},
    bounded='a molecule of 3 fragments (two paired, one single-end), records with an arbitrary earlier value of the tag',
    assumptions=['pysam set_tag/get_tag/has_tag as a tag table (A4); Molecule.__iter__ / Fragment.__iter__ interpreted'],
)
UNITS.append(set_meta)


# ------------------------------------------------------------------------------ Fragment.set_sample / update_umi: cell and UMI of a fragment
# "fragments of one molecule always share cell ... and are linked by UMIs": the cell is the SM tag and the UMI the RX tag of the
# fragment's own records (both mates of a pair carry the same tags - demultiplexer contract C04)
def tag_fragment(eng, name):
    r1 = stubs.make_read(eng, 'R1', tags={'SM': STR, 'RX': STR}, closed=True)
    r2 = stubs.make_read(eng, 'R2', tags={'SM': STR, 'RX': STR}, closed=True)
    paired = fresh(BOOL, 'paired')
    reads = [r1, r2] if eng.branch(paired.z) else [r1, None]
    # both mates of a pair were tagged by the same demultiplexing record
    if reads[1] is not None:
        for t in ('SM', 'RX'):
            p1, v1 = r1.attrs['_vc_tags'][t]
            p2, v2 = r2.attrs['_vc_tags'][t]
            eng.assume(z3.And(zterm(p1, BOOL) == zterm(p2, BOOL), v1.z == v2.z))
    eng.spec_env['READ1'] = r1
    return Obj('Fragment', {'reads': reads, 'sample': None, 'umi': None}, info=eng.loader.classref(FF, 'Fragment'))


set_sample = Contract(
    PROP, FF + '::Fragment.set_sample', name='Fragment.set_sample[from the records]',
    params={'self': tag_fragment, 'sample': 'none', 'library_name': 'none'},
    ensures={'cell_is_the_SM_tag_of_the_records': 'implies(READ1.has_tag("SM"), self.sample == READ1.get_tag("SM"))',
             'no_tag_no_cell': 'implies(not READ1.has_tag("SM"), self.sample is None)'},
    raises={},
    assumptions=['mates of a pair carry the same SM / RX tags (C04); pysam tag table (A4)'],
)
frag_update_umi = Contract(
    PROP, FF + '::Fragment.update_umi', name='Fragment.update_umi[from the records]',
    params={'self': tag_fragment},
    ensures={'umi_is_the_RX_tag_of_the_records': 'implies(READ1.has_tag("RX"), self.umi == READ1.get_tag("RX"))',
             'no_tag_no_umi': 'implies(not READ1.has_tag("RX"), self.umi is None)'},
    raises={},
    assumptions=['mates of a pair carry the same SM / RX tags (C04); pysam tag table (A4)'],
)
UNITS += [set_sample, frag_update_umi]


# ------------------------------------------------------------------------------ is_valid of the three fragment classes
# "Valid fragments are partitioned into molecules": a fragment is valid iff it was not rejected (qc-fail), is not longer than the
# limit (when one is set and its span is defined) and has what its class needs: a recognised cut site (NLA, CHIC) / a span (plain)
def valid_fragment(cls, relpath, span_defined=True):
    def mk(eng, name):
        s, e_ = named(INT, 'span_start'), named(INT, 'span_end')
        mx = named(INT, 'max_fragment_size')
        eng.assume(z3.And(s.z >= 0, e_.z >= s.z, mx.z >= 0))
        span = ('chr1', s, e_) if span_defined else (None, None, None)
        eng.spec_env['SPAN_DEFINED'] = span_defined
        limited = fresh(BOOL, 'size_limit_set')
        return Obj(cls, {'qcfail': named(BOOL, 'qcfail'), 'span': span, 'found_valid_site': named(BOOL, 'found_valid_site'),
                         'max_fragment_size': mx if eng.branch(limited.z) else None, 'meta': {}, 'reads': [None, None]},
                   info=eng.loader.classref(relpath, cls))
    return mk


TOO_LONG = '(self.max_fragment_size is not None and SPAN_DEFINED and abs(self.span[2] - self.span[1]) > self.max_fragment_size)'


def valid_unit(cls, relpath, needs_site):
    want = '(not old(self).qcfail and not %s and %s)' % (TOO_LONG, 'self.found_valid_site' if needs_site else 'SPAN_DEFINED')
    return Contract(
        PROP, relpath + '::%s.is_valid' % cls, name='%s.is_valid' % cls,
        params={'self': valid_fragment(cls, relpath)},
        cases=[{}, {'self': valid_fragment(cls, relpath, False)}],
        setup=lambda eng: eng.loader.call_hooks.__setitem__(
            'singlecellmultiomics.fragment.fragment.Fragment.set_rejection_reason',
            lambda e, f, a, k, n: (f.bound.attrs.__setitem__('qcfail', True) if k.get('set_qcfail') else None)),
        ensures={'valid_iff_not_rejected_within_the_size_limit_and_complete': 'result == %s' % want},
        raises={},
        assumptions=['set_rejection_reason(set_qcfail=True) marks the fragment rejected (hook)'],
    )


UNITS += [valid_unit('NlaIIIFragment', FN, True), valid_unit('CHICFragment', FC, True), valid_unit('Fragment', FF, False)]


# ------------------------------------------------------------------------------ Molecule.is_valid: which molecules are marked rejected
def molvalid_setup(eng):
    eng.ghost.clear()
    eng.ghost['reasons'] = []
    eng.spec_env['GHOST'] = eng.ghost
    QM = 'singlecellmultiomics.molecule.molecule.Molecule.'
    mm, cv, mq = named(BOOL, 'is_multimapped'), named(BOOL, 'contains_valid_fragment'), named(INT, 'max_mapping_quality')
    eng.spec_env.update({'MM': mm, 'CV': cv, 'MQ': mq})
    eng.loader.call_hooks[QM + 'is_multimapped'] = lambda e, f, a, k, n: mm
    eng.loader.call_hooks[QM + 'contains_valid_fragment'] = lambda e, f, a, k, n: cv
    eng.loader.call_hooks[QM + 'get_max_mapping_qual'] = lambda e, f, a, k, n: mq
    eng.loader.call_hooks[QM + 'set_rejection_reason'] = lambda e, f, a, k, n: e.ghost['reasons'].append(a[0])


def molvalid_self(with_threshold):
    def mk(eng, name):
        return Obj('Molecule', {'min_max_mapping_quality': named(INT, 'min_max_mapping_quality') if with_threshold else None},
                   info=eng.loader.classref(FM, 'Molecule'))
    return mk


MOL_VALID = '(not MM and (self.min_max_mapping_quality is None or MQ >= self.min_max_mapping_quality) and CV)'
mol_is_valid = Contract(
    PROP, FM + '::Molecule.is_valid', name='Molecule.is_valid',
    params={'self': molvalid_self(True), 'set_rejection_reasons': 'bool'},
    cases=[{}, {'self': molvalid_self(False)}],
    setup=molvalid_setup,
    ensures={
        'valid_iff_uniquely_mapped_well_mapped_and_holding_a_valid_fragment': 'result == %s' % MOL_VALID,
        'a_reason_is_written_iff_asked_for_and_invalid': 'len(GHOST["reasons"]) == (1 if (set_rejection_reasons and not %s) else 0)' % MOL_VALID,
    },
    raises={},
    assumptions=['is_multimapped / contains_valid_fragment / get_max_mapping_qual: arbitrary verdicts (hooks)'],
)
UNITS.append(mol_is_valid)


# ------------------------------------------------------------------------------ umi_eq with the distance spelled out (UMIs of 3 letters)
# the units above treat hamming_distance as an uninterpreted function (it has its own units); here the whole of umi_eq runs on
# UMIs of three symbolic letters over ACGTN against the definition: the number of positions that differ, an N on either side
# never counting
def umi3_fragment(name_):
    def mk(eng, name):
        u = named(STR, name_ + '.umi')
        eng.assume(z3.Length(u.z) == 3)
        for j in range(3):
            eng.assume(z3.Or([z3.SubString(u.z, j, 1) == z3.StringVal(c) for c in 'ACGTN']))
        d = named(INT, name_ + '.umi_hamming_distance')
        eng.assume(z3.And(d.z >= 0, d.z <= 3))
        return Obj('Fragment', {'umi': u, 'umi_hamming_distance': d}, info=eng.loader.classref(FF, 'Fragment'))
    return mk


DIST3 = 'sum([(1 if (self.umi[j] != other.umi[j] and self.umi[j] != "N" and other.umi[j] != "N") else 0) for j in range(3)])'
umi_eq3 = Contract(
    PROP, FF + '::Fragment.umi_eq', name='Fragment.umi_eq[UMIs of three letters, distance spelled out]',
    params={'self': umi3_fragment('a'), 'other': umi3_fragment('b')},
    setup=lambda eng: [eng.loader.call_hooks.pop(q, None) for q in (
        'singlecellmultiomics.utils.sequtils.hamming_distance', 'singlecellmultiomics.fragment.fragment.hamming_distance')],
    ensures={'close_iff_equal_or_within_the_allowed_number_of_mismatches_N_never_counting':
             'result == (self.umi == other.umi or (self.umi_hamming_distance > 0 and %s <= self.umi_hamming_distance))' % DIST3},
    raises={},
    bounded='UMIs of 3 symbolic letters over ACGTN, allowed distance 0..3',
    max_paths=100000,
)
UNITS.append(umi_eq3)


def umi_eq3_replay(inputs, clause):
    """real Fragment.umi_eq on two bare Fragment objects carrying the model's UMIs and allowed distance; all pairs of 3-letter UMIs
    over ACGTN are tried as well"""
    import itertools
    from pyvc.contract import import_real
    Frag = import_real(FF, 'Fragment')

    def mk(u, d):
        f = object.__new__(Frag)
        f.umi, f.umi_hamming_distance = u, d
        return f
    cand = [(str(inputs['self']['attrs']['umi']), str(inputs['other']['attrs']['umi']), int(inputs['self']['attrs']['umi_hamming_distance']))]
    cand += [(''.join(a), ''.join(b), d) for a in itertools.product('ACGTN', repeat=3) for b in itertools.product('ACGTN', repeat=3)
             for d in (0, 1, 2)]
    for a, b, d in cand:
        if len(a) != 3 or len(b) != 3 or set(a + b) - set('ACGTN'):
            continue
        want = a == b or (d > 0 and sum(1 for x, y in zip(a, b) if x != y and x != 'N' and y != 'N') <= d)
        got = bool(mk(a, d).umi_eq(mk(b, d)))
        if got != want:
            return {'status': 'confirmed', 'observed': {'outcome': 'return', 'value': got, 'expected': want, 'umis': [a, b], 'allowed_distance': d},
                    'failed': [{'clause': clause}]}
    return {'status': 'not-reproduced', 'observed': {'outcome': 'return', 'value': 'all 3-letter UMI pairs agree'}}


umi_eq3.replay = umi_eq3_replay


# ------------------------------------------------------------------------------ the assignment block on a buffer of two molecules (bounded)
# the loop contracts above fix the shape of the search loop; this variant runs whatever the block does on a concrete buffer of
# two molecules that may both accept the fragment (UMIs within distance 1 of a third one): it must still land in exactly one
def it_self_two(pooling):
    def it_self(eng, name):
        mols = [Obj('AssignMolRef', {'idx': named(INT, 'molecule_0')}), Obj('AssignMolRef', {'idx': named(INT, 'molecule_1')})]
        eng.spec_env['MOLS0'] = list(mols)
        eng.spec_env['MOLS'] = mols
        frag_ = Obj('FragStub', {'match_hash': 'mh'})
        frag_.vc_immutable = True
        eng.spec_env['FRAGMENT'] = frag_
        attrs = {'pooling_method': pooling, 'molecule_class': eng.spec_env['NEWMOL'], 'molecule_class_args': {},
                 'yield_overflow': named(BOOL, 'yield_overflow'), 'deleted_fragments': named(INT, 'deleted'),
                 'perform_allele_clustering': False}
        if pooling == 0:
            attrs['molecules'] = mols
        else:
            attrs['molecules_per_cell'] = {'mh': mols}
        return Obj('MoleculeIterator', attrs, info=eng.loader.classref(FI, 'MoleculeIterator'))
    return it_self


def assign_two_unit(pooling):
    return Contract(
        PROP, FI + '::MoleculeIterator.__iter__', name='MoleculeIterator.assign_fragment[pooling_method=%d, buffer of two molecules]' % pooling,
        block=assign_block,
        params={'self': it_self_two(pooling), 'fragment': lambda e, n: e.spec_env['FRAGMENT']},
        setup=assign_setup_for(False),
        yields='checks-only',
        ensures={'fragment_is_placed_in_exactly_one_molecule': 'OVERFLOWED or len(GHOST["joined"]) + len(GHOST["created"]) == 1',
                 'a_new_molecule_is_founded_only_if_no_buffered_molecule_accepts':
                     'OVERFLOWED or implies(len(GHOST["created"]) == 1, len(GHOST["joined"]) == 0)',
                 'buffered_molecules_stay': 'len(MOLS) >= 2 and (MOLS[0] is MOLS0[0]) and (MOLS[1] is MOLS0[1])'},
        raises={},
        bounded='a buffer of two molecules, each of which may accept the fragment',
        assumptions=['Molecule.add_fragment: an arbitrary acceptance relation (hook), OverflowError possible'],
    )


UNITS += [assign_two_unit(0), assign_two_unit(1)]
