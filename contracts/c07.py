"""C07 - the molecule partition is independent of the buffer-ejection schedule."""
import z3

from pyvc.contract import Contract
from pyvc.engine import LoopSpec, Obj, Sym, fresh, named, zterm, INT, BOOL, STR
from pyvc import blocks, stubs

PROP = 'C07'
LEVEL = 'proof'
FI = 'singlecellmultiomics/molecule/iterator.py'
FM = 'singlecellmultiomics/molecule/molecule.py'

# buffered molecules are identified by the index they had when the ejection block was entered
EJECT = z3.Function('ejectable', z3.IntSort(), z3.BoolSort())


def molref(v):
    return Obj('MolRef', {'idx': v})


stubs.STUBS['MolRef'] = {
    'methods': {'__finalise__': lambda eng, o: None,
                'can_be_yielded': lambda eng, o, chrom, pos: Sym(EJECT(zterm(o.attrs['idx'], INT)), BOOL),
                '__len__': lambda eng, o: _fraglen(eng, o)},
    'props': {}, 'setters': {}}
_LEN = z3.Function('n_fragments', z3.IntSort(), z3.IntSort())


def _fraglen(eng, o):
    v = Sym(_LEN(zterm(o.attrs['idx'], INT)), INT)
    eng.assume(v.z >= 1)
    return v


MOLS = ('symlist', (INT,), None, molref, lambda o: o.attrs['idx'])
IDENT = 'forall(t, implies(0 <= t and t < len({L}), {L}[t].idx == t))'
TO_POP_REQ = ['forall(t, implies(0 <= t and t < len(to_pop) - 1, to_pop[t] < to_pop[t+1]))',
              'forall(t, implies(0 <= t and t < len(to_pop), 0 <= to_pop[t] and to_pop[t] < len({L})))',
              'forall(t, implies(0 <= t and t < len(to_pop), to_pop[t] >= t))']


def _pop_loop(f, nth):
    """the nth loop over the collected indices that pops molecules from a buffer (anchored by what it does, not by the exact
    form of its header)"""
    import ast
    c = blocks.find_nodes(f, lambda n: isinstance(n, ast.For) and 'to_pop' in ast.unparse(n.iter)
                          and any('.pop(' in ast.unparse(st) for st in n.body))
    return [c[nth]] if len(c) > nth else []


def pop_block(nth, L, self_attrs, extra_params):
    """`for i, j in enumerate(to_pop): m = <list>.pop(...)` - after the k-th pop the removed element is the molecule
    that was at original index to_pop[k] (the one selected as ejectable), and no IndexError can escape."""
    return Contract(
        PROP, FI + '::MoleculeIterator.__iter__', name='eject.pop[pooling_method=%d]' % nth,
        block=lambda f: _pop_loop(f, nth),
        params=dict({'self': ('obj', 'MoleculeIterator', self_attrs, FI), 'to_pop': ('symlist', (INT,), None)},
                    **extra_params),
        requires=[IDENT.format(L=L)] + [r.format(L=L) for r in TO_POP_REQ],
        yields='checks-only',
        loops={0: LoopSpec(
            inv={'length': 'len(%s) == len(entry(%s, 0)) - k' % (L, _entry_key(L)),
                 'shifted_by_pops_so_far': 'forall(t, implies((k == 0 or t >= to_pop[k-1] - (k-1)) and 0 <= t and t < len({L}), '
                                           '{L}[t].idx == t + k))'.format(L=L)},
            types={})},
        yield_checks={'ejected_is_the_molecule_selected_as_ejectable': 'yv.idx == j'},
        raises={},
        assumptions=['perform_allele_clustering off (yield_func emits the molecule itself)',
                     'list.pop(i) semantics of CPython incl. negative indices (A2)'],
    )


def _entry_key(L):
    return L


pop0 = pop_block(0, 'self.molecules', {'molecules': MOLS, 'perform_allele_clustering': ('const', False)}, {})
pop1 = pop_block(1, 'molecules', {'molecules_per_cell': lambda eng, name: None, 'perform_allele_clustering': ('const', False)},
                 {'hash_group': ('const', 'hg'), 'molecules': MOLS})


def _pop1_pre(eng, fr):
    # self.molecules_per_cell[hash_group] is the list `molecules` of the enclosing loop
    fr.env['self'].attrs['molecules_per_cell'] = {'hg': fr.env['molecules']}


pop1.pre_state = _pop1_pre


def collect_block(nth, L, self_attrs, extra_params):
    """to_pop = []; for i, m in enumerate(<list>): if m.can_be_yielded(...): to_pop.append(i) ...
    -> to_pop is strictly increasing, in range, and contains only ejectable molecules"""
    iter_src = 'enumerate(%s)' % L

    def sel(f):
        import ast
        return blocks.stmts_between(
            f, lambda st: isinstance(st, ast.Assign) and ast.unparse(st) == 'to_pop = []' and _nth(f, st, nth),
            lambda st: isinstance(st, ast.For) and ast.unparse(st.iter) == iter_src)

    inv = {'increasing': 'forall(t, implies(0 <= t and t < len(to_pop) - 1, to_pop[t] < to_pop[t+1]))',
           'in_range': 'forall(t, implies(0 <= t and t < len(to_pop), 0 <= to_pop[t] and to_pop[t] < k))',
           'at_most_one_per_iteration': 'len(to_pop) <= k',
           'index_at_least_rank': 'forall(t, implies(0 <= t and t < len(to_pop), to_pop[t] >= t))',
           'only_ejectable': 'forall(t, implies(0 <= t and t < len(to_pop), '
                             '{L}[to_pop[t]].can_be_yielded(current_chrom, current_position)))'.format(L=L)}
    return Contract(
        PROP, FI + '::MoleculeIterator.__iter__', name='eject.collect[pooling_method=%d]' % nth,
        block=sel,
        params=dict({'self': ('obj', 'MoleculeIterator', self_attrs, FI), 'current_chrom': 'str', 'current_position': 'int'},
                    **extra_params),
        requires=[IDENT.format(L=L)],
        loops={0: LoopSpec(inv=inv, types={'to_pop': ('symlist', (INT,), None)})},
        ensures={'increasing': inv['increasing'], 'index_at_least_rank': inv['index_at_least_rank'],
                 'in_range': 'forall(t, implies(0 <= t and t < len(to_pop), 0 <= to_pop[t] and to_pop[t] < len(%s)))' % L,
                 'only_ejectable': inv['only_ejectable']},
        raises={},
    )


def _nth(f, st, nth):
    import ast
    c = sorted((n for n in ast.walk(f) if isinstance(n, ast.Assign) and ast.unparse(n) == 'to_pop = []'),
               key=lambda n: n.lineno)
    return len(c) > nth and c[nth] is st


ATTRS0 = {'molecules': MOLS, 'waiting_fragments': 'int', 'yielded_fragments': 'int'}
collect0 = collect_block(0, 'self.molecules', ATTRS0, {})
collect1 = collect_block(1, 'molecules', {'waiting_fragments': 'int', 'yielded_fragments': 'int'}, {'molecules': MOLS})

UNITS = [pop0, pop1, collect0, collect1]


# ---- replay of the pop blocks: the real statements run natively on a real (uninitialised) MoleculeIterator
def pop_replay(nth):
    def replay(inputs, clause):
        from pyvc.blockreplay import run_block
        from pyvc.contract import import_real

        class Mol:
            def __init__(self, idx):
                self.idx = idx

            def __finalise__(self):
                pass

            def __len__(self):
                return 1

            def __repr__(self):
                return 'M%d' % self.idx
        key = 'molecules' if nth == 1 else None
        mols = inputs['molecules'] if nth == 1 else inputs['self']['attrs']['molecules']
        to_pop = list(inputs['to_pop'])
        n = len(mols)
        # the contract's preconditions, natively
        if not (all(0 <= j < n for j in to_pop) and all(a < b for a, b in zip(to_pop, to_pop[1:]))):
            return {'status': 'no-input', 'note': 'candidate violates the precondition on to_pop'}
        cls = import_real(FI, 'MoleculeIterator')
        it = object.__new__(cls)
        it.perform_allele_clustering = False
        lst = [Mol(i) for i in range(n)]
        env = {'self': it, 'to_pop': to_pop}
        if nth == 0:
            it.molecules = lst
        else:
            it.molecules_per_cell = {'hg': lst}
            env.update({'hash_group': 'hg', 'molecules': lst})
        ys, final, exc = run_block(FI, 'MoleculeIterator.__iter__',
                                   lambda f: blocks.for_with_iter(f, 'enumerate(to_pop)', nth), env)
        obs = {'outcome': 'raise' if exc else 'return', 'value': [type(exc).__name__, str(exc)] if exc else [m.idx for m in ys],
               'buffer_after': [m.idx for m in lst]}
        if exc is not None:
            return {'status': 'confirmed', 'observed': obs, 'failed': [{'clause': 'raises.only'}]}
        if [m.idx for m in ys] != to_pop:
            return {'status': 'confirmed', 'observed': obs,
                    'failed': [{'clause': 'ejected_is_the_molecule_selected_as_ejectable', 'expected_ejected': to_pop}]}
        return {'status': 'not-reproduced', 'observed': obs}
    return replay


pop0.replay = pop_replay(0)
pop1.replay = pop_replay(1)


# ------------------------------------------------------------------------------ Molecule.can_be_yielded
# Postcondition taken from the property ("no molecule is emitted while a later fragment could still join it"),
# for coordinate-sorted input.  Ghost parameters describe the situation at an ejection check:
#   position            end of the fragment that triggered the check (= end of its right-most read, which starts at g_rc)
#   g_rM                start of the right-most read of the buffered molecule's latest fragment (it was emitted earlier)
#   (g_S, g_E, g_r)     span and right-most-read start of ANY fragment emitted later by the mate-pair iterator
#   g_ell               aligned read length bound
# A later fragment joins the molecule only if it has the molecule's site: its start equals the molecule start (forward)
# or its end equals the molecule end (reverse).
def _native(v):
    from pyvc.contract import native_arg
    return native_arg(v)


can_be_yielded = Contract(
    PROP, FM + '::Molecule.can_be_yielded', name='Molecule.can_be_yielded',
    params={'self': ('obj', 'Molecule', {'chromosome': 'str', 'spanStart': 'int', 'spanEnd': 'int', 'cache_size': 'int'}),
            'chromosome': 'str', 'position': 'int',
            'g_rc': 'int', 'g_ell': 'int', 'g_rM': 'int', 'g_S': 'int', 'g_E': 'int', 'g_r': 'int'},
    requires=[
        'self.spanStart <= self.spanEnd and self.cache_size >= 0 and g_ell >= 1',
        # A4 coordinate-sorted emission (pairs are emitted when their right-most mate is read)
        'self.spanStart <= g_rM and g_rM < self.spanEnd and g_rM <= g_rc',
        'g_rc < position and position - g_rc <= g_ell',
        'g_r >= g_rc and g_S <= g_r and g_r < g_E',
        # hypothesis of the property: fragments are shorter than the cache radius (cache_size/2) ...
        '2*(g_E - g_S) < self.cache_size and 2*(self.spanEnd - self.spanStart) < self.cache_size',
        # ... and span at least one read
        'self.spanEnd - self.spanStart >= g_ell and g_E - g_S >= g_ell',
    ],
    ensures={
        'no_late_join': 'implies(result and chromosome == self.chromosome, g_S > self.spanStart and g_E > self.spanEnd)',
    },
    cases=[{}, {'chromosome': 'none'}],
    replay_args=lambda inputs: ([_native(inputs['self']), inputs['chromosome'], inputs['position']], {}),
    assumptions=['A4: MatePairIterator emits fragments ordered by the start of their right-most read (coordinate-sorted BAM)',
                 'reads have aligned length <= g_ell and every fragment spans at least g_ell (my reading of "fragments shorter '
                 'than the cache radius": fragment length < cache_size/2)',
                 'a fragment can join a molecule only with equal start (forward) or equal end (reverse): assignment radius 0'],
)
can_be_yielded.ensures['none_chromosome_never_ejects'] = 'implies(chromosome is None, result == False)'
UNITS.append(can_be_yielded)


# ------------------------------------------------------------------------------ Molecule._add_fragment: the span invariant
# can_be_yielded reasons with the molecule span; it is right only if the span is the hull of the member fragments.
def addf_setup(eng):
    eng.ghost.clear()
    eng.ghost['dup'] = []
    eng.spec_env['GHOST'] = eng.ghost
    from pyvc import stubs as S
    S.STUBS['SpanFrag'] = {'methods': {
        'get_span': lambda e, o: o.attrs['span'],
        'set_duplicate': lambda e, o, v: e.ghost['dup'].append(v)}, 'props': {}, 'setters': {}}
    eng.loader.call_hooks['singlecellmultiomics.molecule.molecule.Molecule.update_umi'] = lambda e, f, a, k, n: None


def span_fragment(eng, name):
    span = (named(STR, 'f.chrom'), named(INT, 'f.start'), named(INT, 'f.end'))
    eng.assume(span[1].z <= span[2].z)
    o = Obj('SpanFrag', {'span': span, 'match_hash': named(INT, 'f.match_hash'), 'strand': named(BOOL, 'f.strand'),
                         'umi': named(STR, 'f.umi'), 'umi_hamming_distance': named(INT, 'f.umi_hamming_distance')})
    o.vc_immutable = True
    return o


def span_molecule(n_frags, capped):
    def mk(eng, name):
        from pyvc.symdict import SymDict
        frags = [Obj('SpanFrag', {'span': None}) for _ in range(n_frags)]
        if n_frags:
            s0, e0 = named(INT, 'mol.spanStart'), named(INT, 'mol.spanEnd')
            eng.assume(s0.z <= e0.z)
            chrom = named(STR, 'mol.chromosome')
        else:
            s0 = e0 = chrom = None
        cap = None
        if capped:
            cap = named(INT, 'mol.max_associated_fragments')
            eng.assume(cap.z >= 1)
        eng.spec_env['S0'], eng.spec_env['E0'], eng.spec_env['FR0'] = s0, e0, list(frags)
        ov = named(INT, 'mol.overflow_fragments')
        eng.spec_env['OV0'] = ov
        return Obj('Molecule', {'max_associated_fragments': cap, 'fragments': frags, 'overflow_fragments': ov,
                                'match_hash': None, 'spanStart': s0, 'spanEnd': e0, 'chromosome': chrom,
                                'span': (chrom, s0, e0), 'strand': None, 'umi_counter': SymDict([(STR,)], INT, name='umis', default=0),
                                'umi_hamming_distance': None, 'saved_base_obs': 'stale'},
                   info=eng.loader.classref(FM, 'Molecule'))
    return mk


OVER = '(self.max_associated_fragments is not None and len(FR0) >= self.max_associated_fragments)'
add_span = Contract(
    PROP, FM + '::Molecule._add_fragment', name='Molecule._add_fragment[span invariant]',
    params={'self': span_molecule(0, False), 'fragment': span_fragment},
    cases=[{}, {'self': span_molecule(1, False)}, {'self': span_molecule(2, True)}, {'self': span_molecule(1, True)},
           {'self': span_molecule(3, False)}],
    setup=addf_setup,
    ensures={
        'fragment_becomes_the_last_member': 'self.fragments == FR0 + [fragment]',
        'span_is_the_hull_of_old_span_and_fragment':
            'self.spanStart == (fragment.span[1] if S0 is None else min(S0, fragment.span[1])) and '
            'self.spanEnd == (fragment.span[2] if E0 is None else max(E0, fragment.span[2]))',
        'span_covers_the_fragment': 'self.spanStart <= fragment.span[1] and fragment.span[2] <= self.spanEnd',
        'span_tuple_agrees': 'self.span == (fragment.span[0], self.spanStart, self.spanEnd) and self.chromosome == fragment.span[0]',
        'bucket_hash_and_cached_consensus': 'self.match_hash == fragment.match_hash and self.saved_base_obs is None',
    },
    raises={'OverflowError': OVER},
    assumptions=['fragment.get_span() returns (contig, start, end) with start <= end; update_umi through a stub (consensus UMI)'],
)
UNITS.append(add_span)


def add_span_replay(inputs, clause):
    """the real Molecule._add_fragment on a Molecule shell (attributes of the counter-model) and a duck-typed fragment"""
    import collections
    from pyvc.contract import import_real
    Mol = import_real(FM, 'Molecule')

    class F:
        def __init__(self, a):
            self.__dict__.update({k: v for k, v in a.items() if k != 'span'})
            self._span = tuple(a['span']) if a.get('span') is not None else None

        def get_span(self):
            return self._span

        def set_duplicate(self, v):
            self.dup = v
    sa, fa = inputs['self']['attrs'], inputs['fragment']['attrs']
    m = Mol.__new__(Mol)
    for k, v in sa.items():
        setattr(m, k, v)
    m.fragments = [F({'span': None}) for _ in sa['fragments']]
    m.umi_counter = collections.Counter()
    m.span = tuple(sa['span']) if sa.get('span') is not None else None
    m.umi = None
    f = F(fa)
    s0, e0, n0 = sa['spanStart'], sa['spanEnd'], len(m.fragments)
    try:
        m._add_fragment(f)
    except OverflowError:
        over = sa['max_associated_fragments'] is not None and n0 >= sa['max_associated_fragments']
        obs = {'outcome': 'raise', 'exception': 'OverflowError'}
        return {'status': 'not-reproduced' if over else 'confirmed', 'observed': obs,
                'failed': [] if over else [{'clause': 'raises.only'}]}
    fs, fe = f._span[1], f._span[2]
    want = (fs if s0 is None else min(s0, fs), fe if e0 is None else max(e0, fe))
    obs = {'outcome': 'return', 'value': {'spanStart': m.spanStart, 'spanEnd': m.spanEnd, 'span': list(m.span),
                                          'n_fragments': len(m.fragments)}}
    failed = []
    if (m.spanStart, m.spanEnd) != want:
        failed.append({'clause': 'span_is_the_hull_of_old_span_and_fragment', 'expected': list(want)})
    if not (m.spanStart <= fs and fe <= m.spanEnd):
        failed.append({'clause': 'span_covers_the_fragment'})
    if tuple(m.span) != (f._span[0], m.spanStart, m.spanEnd) or m.chromosome != f._span[0]:
        failed.append({'clause': 'span_tuple_agrees'})
    if len(m.fragments) != n0 + 1 or m.fragments[-1] is not f:
        failed.append({'clause': 'fragment_becomes_the_last_member'})
    if m.saved_base_obs is not None or m.match_hash != f.match_hash:
        failed.append({'clause': 'bucket_hash_and_cached_consensus'})
    return {'status': 'confirmed' if failed else 'not-reproduced', 'observed': obs, 'failed': failed}


add_span.replay = add_span_replay


def extra_units():
    """every fragment is emitted exactly once / both pooling methods give the classes of identical keys: the per-fragment
    assignment block of MoleculeIterator.__iter__ (C06's units, re-verified under this property)"""
    from contracts import c06
    from pyvc.units import share
    return [share(u, PROP) for u in c06.UNITS if getattr(u, 'name', '').startswith('MoleculeIterator.assign_fragment')
            or getattr(u, 'name', '') == 'Molecule.add_fragment']


# ------------------------------------------------------------------------------ one hash group of an ejection check, as a whole
# collect + pop + whatever else the body does: the molecules that were not selected stay buffered under their hash group (an
# ejection check may only remove what it emits), and exactly the selected ones are emitted.
def _group_body(f):
    import ast
    loops = blocks.find_nodes(f, lambda n: isinstance(n, ast.For) and 'molecules_per_cell.items()' in ast.unparse(n.iter)
                              and any(isinstance(x, ast.Call) and ast.unparse(x.func).endswith('can_be_yielded') for x in ast.walk(n)))
    return loops[0].body if loops else []


_COLLECT_INV = {
    'increasing': 'forall(t, implies(0 <= t and t < len(to_pop) - 1, to_pop[t] < to_pop[t+1]))',
    'in_range': 'forall(t, implies(0 <= t and t < len(to_pop), 0 <= to_pop[t] and to_pop[t] < k))',
    'at_most_one_per_iteration': 'len(to_pop) <= k',
    'index_at_least_rank': 'forall(t, implies(0 <= t and t < len(to_pop), to_pop[t] >= t))',
    'buffer_untouched': 'len(molecules) == len(entry(molecules, 0))',
}
group_body = Contract(
    PROP, FI + '::MoleculeIterator.__iter__', name='eject.hash_group[one group of an ejection check]',
    block=_group_body,
    params={'self': ('obj', 'MoleculeIterator', {'molecules_per_cell': lambda eng, name: None, 'waiting_fragments': 'int',
                                                  'yielded_fragments': 'int', 'perform_allele_clustering': ('const', False)}, FI),
            'hash_group': ('const', 'hg'), 'molecules': MOLS, 'current_chrom': 'str', 'current_position': 'int'},
    requires=[IDENT.format(L='molecules')],
    yields='checks-only',
    loops={0: LoopSpec(inv=_COLLECT_INV, types={'to_pop': ('symlist', (INT,), None)}),
           1: LoopSpec(inv={'length': 'len(molecules) == len(entry(molecules, 1)) - k',
                            'shifted_by_pops_so_far': 'forall(t, implies((k == 0 or t >= to_pop[k-1] - (k-1)) and 0 <= t and '
                                                      't < len(molecules), molecules[t].idx == t + k))'},
                         types={})},
    yield_checks={'only_selected_molecules_are_emitted': 'exists(t, 0 <= t and t < len(to_pop) and yv.idx == to_pop[t])'},
    ensures={
        'molecules_not_selected_stay_buffered_under_their_group':
            'implies(N0 - len(to_pop) > 0, ("hg" in self.molecules_per_cell) and len(self.molecules_per_cell["hg"]) == N0 - len(to_pop))',
        'no_other_group_appears': 'all(g == "hg" for g in self.molecules_per_cell)',
    },
    raises={},
    assumptions=['perform_allele_clustering off; can_be_yielded through its contract (an uninterpreted verdict per molecule here)'],
)


def _group_pre(eng, fr):
    fr.env['self'].attrs['molecules_per_cell'] = {'hg': fr.env['molecules']}
    eng.spec_env['N0'] = fr.env['molecules'].vc_len(eng) if hasattr(fr.env['molecules'], 'vc_len') else len(fr.env['molecules'])


group_body.pre_state = _group_pre
UNITS.append(group_body)


def group_replay(inputs, clause):
    """the real statements of the hash-group body on a real (uninitialised) MoleculeIterator: buffers of 2..6 molecules with every
    choice of ejectable ones; the molecules that are not ejectable must still be buffered under their group afterwards"""
    import itertools
    from pyvc.blockreplay import run_block
    from pyvc.contract import import_real
    cls = import_real(FI, 'MoleculeIterator')

    class Mol:
        def __init__(self, idx, ej):
            self.idx, self.ej = idx, ej

        def __finalise__(self):
            pass

        def can_be_yielded(self, chrom, pos):
            return self.ej

        def __len__(self):
            return 1
    n_model = len(inputs.get('molecules') or [])
    for n in sorted({2, 3, 4, 6} | ({n_model} if 0 < n_model <= 8 else set())):
        for pattern in itertools.product((False, True), repeat=n):
            it = object.__new__(cls)
            it.perform_allele_clustering = False
            it.waiting_fragments, it.yielded_fragments = n, 0
            lst = [Mol(i, e) for i, e in enumerate(pattern)]
            it.molecules_per_cell = {'hg': lst}
            env = {'self': it, 'hash_group': 'hg', 'molecules': lst, 'current_chrom': 'chr1', 'current_position': 100}
            ys, final, exc = run_block(FI, 'MoleculeIterator.__iter__', _group_body, env)
            kept = [m.idx for m in it.molecules_per_cell.get('hg', [])]
            want_kept = [i for i, e in enumerate(pattern) if not e]
            emitted = sorted(m.idx for m in (ys or []))
            if exc is not None or kept != want_kept or emitted != [i for i, e in enumerate(pattern) if e]:
                obs = {'outcome': 'raise' if exc else 'return', 'value': {'ejectable': list(pattern), 'emitted': emitted,
                                                                          'still_buffered': kept, 'expected_buffered': want_kept,
                                                                          'exception': str(exc) if exc else None}}
                return {'status': 'confirmed', 'observed': obs, 'failed': [{'clause': clause}]}
    return {'status': 'not-reproduced', 'observed': {'outcome': 'return', 'value': 'all patterns of 2,3,4,6 molecules agree'}}


group_body.replay = group_replay


# ------------------------------------------------------------------------------ the position an ejection check is made for
# "no molecule is emitted while a later fragment could still join it" rests on can_be_yielded being asked about the contig and
# the end of the fragment that triggered the check (Molecule.can_be_yielded's contract takes exactly that position) - whatever
# the iterator went through before (its counters and any other state _clear_cache initialises hold arbitrary values here).
def _check_prologue(f):
    import ast
    ifs = blocks.find_nodes(f, lambda n: isinstance(n, ast.If) and 'check_eject_every' in ast.unparse(n.test)
                            and 'check_ejection_iter' in ast.unparse(n.test))
    if not ifs:
        return []
    out = []
    for st in ifs[0].body:
        if isinstance(st, ast.If) and 'pooling_method' in ast.unparse(st.test):
            break
        out.append(st)
    return out


def _prologue_self(pooling):
    def mk(eng, name):
        o = Obj('MoleculeIterator', {'pooling_method': pooling}, info=eng.loader.classref(FI, 'MoleculeIterator'))
        # every attribute the iterator (re)initialises, with an arbitrary value of its kind: an arbitrary history
        eng.call_method(o, '_clear_cache', [], {})
        for k, v in list(o.attrs.items()):
            if isinstance(v, int) and not isinstance(v, bool) and k != 'pooling_method':
                h = named(INT, 'state.' + k)
                eng.assume(h.z >= 0)
                o.attrs[k] = h
        return o
    return mk


def _span_fragment(with_contig):
    def mk(eng, name):
        span = (named(STR, 'span_contig') if with_contig else None, named(INT, 'span_start'), named(INT, 'span_end'))
        eng.assume(z3.And(span[1].z >= 0, span[1].z <= span[2].z))
        eng.spec_env['SPAN'] = span
        o = Obj('SpanFragment', {'span': span})
        o.vc_immutable = True
        return o
    return mk


stubs.STUBS['SpanFragment'] = {'methods': {'get_span': lambda e, o: o.attrs['span']}, 'props': {}, 'setters': {}}

check_position = Contract(
    PROP, FI + '::MoleculeIterator.__iter__', name='eject.position[what can_be_yielded is asked about]',
    block=_check_prologue,
    params={'self': _prologue_self(0), 'fragment': _span_fragment(True)},
    cases=[{}, {'self': _prologue_self(1)}, {'fragment': _span_fragment(False)}],
    ensures={
        'the_check_is_made_for_the_contig_and_end_of_the_triggering_fragment':
            'implies(SPAN[0] is not None, current_chrom == SPAN[0] and current_position == SPAN[2])',
    },
    raises={},
    assumptions=['fragment.get_span() returns the span of the fragment (Fragment contract); iterator state: arbitrary values for '
                 'everything _clear_cache initialises'],
)
UNITS.append(check_position)


def position_replay(inputs, clause):
    """the real statements on a real (uninitialised) MoleculeIterator carrying the model's state, a fragment with the model's
    span: the position the check is made for is read back from the block's locals"""
    from pyvc.blockreplay import run_block
    from pyvc.contract import import_real
    cls = import_real(FI, 'MoleculeIterator')
    it = object.__new__(cls)
    for k, v in (inputs['self']['attrs'] or {}).items():
        setattr(it, k, v)
    span = tuple((inputs.get('ghost') or {}).get('SPAN') or inputs['fragment']['attrs']['span'])

    class Frag:
        def get_span(self):
            return span
    ys, final, exc = run_block(FI, 'MoleculeIterator.__iter__', _check_prologue, {'self': it, 'fragment': Frag()})
    got = (final.get('current_chrom'), final.get('current_position'))
    obs = {'outcome': 'raise' if exc else 'return', 'value': {'asked_about': list(got), 'span_of_the_fragment': list(span),
                                                                'exception': str(exc) if exc else None}}
    if exc is not None or (span[0] is not None and got != (span[0], span[2])):
        return {'status': 'confirmed', 'observed': obs, 'failed': [{'clause': clause}]}
    return {'status': 'not-reproduced', 'observed': obs}


check_position.replay = position_replay


# ------------------------------------------------------------------------------ Fragment.update_span: the span the ejection test reads
# can_be_yielded and plain-fragment equality read Fragment.span; this is what update_span makes of the mates (code-derived helper
# contract: inward-facing mates span from the forward mate's start to the reverse mate's end, a single mate spans itself)
FFR = 'singlecellmultiomics/fragment/fragment.py'


def span_fragment(which):
    def mk(eng, name):
        def rd(nm):
            r = stubs.make_read(eng, nm, tags={}, mapped=True, closed=True)
            eng.assume(z3.And(zterm(r.attrs['reference_start'], INT) >= 0,
                              zterm(r.attrs['reference_start'], INT) < zterm(r.attrs['reference_end'], INT)))
            return r
        r1 = rd('R1') if which in ('both', 'R1') else None
        r2 = rd('R2') if which in ('both', 'R2') else None
        eng.spec_env['M1'], eng.spec_env['M2'] = r1, r2
        return Obj('Fragment', {'reads': [r1, r2]}, info=eng.loader.classref(FFR, 'Fragment'))
    return mk


update_span = Contract(
    PROP, FFR + '::Fragment.update_span', name='Fragment.update_span',
    params={'self': span_fragment('both')},
    cases=[{}, {'self': span_fragment('R1')}, {'self': span_fragment('R2')}],
    ensures={
        'inward_facing_mates_span_from_the_forward_start_to_the_reverse_end':
            'implies(M1 is not None and M2 is not None and M1.is_reverse != M2.is_reverse, self.span == (M1.reference_name, '
            '(M2.reference_start if M1.is_reverse else M1.reference_start), (M1.reference_end if M1.is_reverse else M2.reference_end)) '
            'and self.safe_span == True)',
        'same_strand_mates_span_their_starts':
            'implies(M1 is not None and M2 is not None and M1.is_reverse == M2.is_reverse, self.span == (M1.reference_name, '
            'min(M1.reference_start, M2.reference_start), max(M1.reference_start, M2.reference_start)) and self.safe_span == False)',
        'a_single_mate_spans_itself':
            'implies(M1 is None or M2 is None, self.span == ((M1 if M1 is not None else M2).reference_name, '
            '(M1 if M1 is not None else M2).reference_start, (M1 if M1 is not None else M2).reference_end) and self.safe_span == False)',
    },
    raises={},
    assumptions=['mapped records with reference_start < reference_end (pysam record stub)'],
)
UNITS.append(update_span)


# ------------------------------------------------------------------------------ the two ejection branches as a whole, on real buffers (bounded)
# The block contracts above fix the shape of the collect / pop loops.  Whatever the branches look like, after an ejection check the
# buffer must hold exactly the molecules that could not be emitted yet, in the order they were created (later fragments are offered
# to the molecules in buffer order), and exactly the others must have been emitted.  Run on the real statements with stand-in
# molecules: every ejectable / not-ejectable pattern of buffers of up to 5 molecules (pooling 0) and of two hash groups of up to 3
# molecules (pooling 1).
def _eject_branch(pooling):
    def sel(f):
        import ast
        ifs = blocks.find_nodes(f, lambda n: isinstance(n, ast.If) and 'check_eject_every' in ast.unparse(n.test)
                                and 'check_ejection_iter' in ast.unparse(n.test))
        if not ifs:
            return []
        for st in ifs[0].body:
            if isinstance(st, ast.If) and ast.unparse(st.test) == 'self.pooling_method == 0':
                return st.body if pooling == 0 else st.orelse
        return []
    return sel


def eject_branches_bounded(tier, seed):
    import itertools
    import json
    import os
    from pyvc.blockreplay import run_block
    from pyvc.contract import import_real
    cls = import_real(FI, 'MoleculeIterator')

    class Mol:
        def __init__(self, idx, ej):
            self.idx, self.ej = idx, ej

        def __finalise__(self):
            pass

        def can_be_yielded(self, chrom, pos):
            return self.ej

        def __len__(self):
            return 1

    def fail(what, detail):
        out = os.environ.get('VERIF_OUT', '.')
        os.makedirs(os.path.join(out, 'replays', PROP), exist_ok=True)
        path = 'replays/%s/eject_branches.json' % PROP
        json.dump({'property': PROP, 'obligation': '%s/eject.branches' % PROP, 'replay': dict({'status': 'confirmed', 'what': what}, **detail)},
                  open(os.path.join(out, path), 'w'), indent=1)
        return {'result': 'violation', 'replay': path, 'confirmed': True}
    n = 0
    for size in range(1, 6):
        for pattern in itertools.product((False, True), repeat=size):
            it = object.__new__(cls)
            it.perform_allele_clustering = False
            it.waiting_fragments, it.yielded_fragments = size, 0
            it.molecules = [Mol(i, e) for i, e in enumerate(pattern)]
            ys, final, exc = run_block(FI, 'MoleculeIterator.__iter__', _eject_branch(0),
                                       {'self': it, 'current_chrom': 'chr1', 'current_position': 100})
            kept = [m.idx for m in it.molecules]
            emitted = sorted(m.idx for m in (ys or []))
            n += 1
            if exc is not None or kept != [i for i, e in enumerate(pattern) if not e] or emitted != [i for i, e in enumerate(pattern) if e]:
                return fail('pooling_method 0', {'ejectable': list(pattern), 'emitted': emitted, 'buffer_after': kept,
                                                 'expected_buffer_in_creation_order': [i for i, e in enumerate(pattern) if not e],
                                                 'exception': str(exc) if exc else None})
    for s1, s2 in itertools.product(range(0, 4), range(1, 4)):
        for pattern in itertools.product((False, True), repeat=s1 + s2):
            it = object.__new__(cls)
            it.perform_allele_clustering = False
            it.waiting_fragments, it.yielded_fragments = s1 + s2, 0
            mols = [Mol(i, e) for i, e in enumerate(pattern)]
            it.molecules_per_cell = {'g1': mols[:s1], 'g2': mols[s1:]}
            ys, final, exc = run_block(FI, 'MoleculeIterator.__iter__', _eject_branch(1),
                                       {'self': it, 'current_chrom': 'chr1', 'current_position': 100})
            kept = {g: [m.idx for m in it.molecules_per_cell.get(g, [])] for g in ('g1', 'g2')}
            want = {'g1': [i for i in range(s1) if not pattern[i]], 'g2': [i for i in range(s1, s1 + s2) if not pattern[i]]}
            emitted = sorted(m.idx for m in (ys or []))
            n += 1
            if exc is not None or kept != want or emitted != [i for i, e in enumerate(pattern) if e]:
                return fail('pooling_method 1', {'ejectable': list(pattern), 'group_sizes': [s1, s2], 'emitted': emitted,
                                                 'buffers_after': kept, 'expected_buffers': want, 'exception': str(exc) if exc else None})
    return {'result': 'clean', 'ejection_checks': n}


from pyvc.units import Bounded      # noqa: E402
eject_branches = Bounded(PROP, 'eject.branches[both pooling methods, every ejectable pattern of small buffers, real statements]',
                         eject_branches_bounded,
                         'buffers of 1-5 molecules (pooling 0); two hash groups of 0-3 and 1-3 molecules (pooling 1); all patterns',
                         'exhaustive run of the real statements against the specification')
UNITS.append(eject_branches)


# ------------------------------------------------------------------------------ the bucket key of a plain fragment
# pooling_method=1 compares a fragment only with the molecules filed under its match_hash; the partition equals the one of
# pooling_method=0 only if two fragments that compare equal (Fragment.__eq__, contract in C06: same cell, strand and contig,
# start or end within the radius, same UMI) never get different keys.  Relational clause over the real statements that end
# Fragment.__init__: the key the statements build for fragment A, and the same term with A's sample / strand / UMI / span
# renamed to those of a second fragment B that runs down the same path, must agree whenever A == B.  (Pairs on different
# paths are not compared: stated below.)
_KEYVARS = ('sample', 'strand', 'umi', 'contig', 'start', 'end')


def _key_tail(f):
    import ast
    for i, st in enumerate(f.body):
        if isinstance(st, ast.Expr) and ast.unparse(st).startswith('self.set_sample('):
            return f.body[i:]
    return []


def _key_vars(who):
    return {'sample': named(STR, who + '.sample'), 'strand': named(BOOL, who + '.strand'), 'umi': named(STR, who + '.umi'),
            'contig': named(STR, who + '.contig'), 'start': named(INT, who + '.start'), 'end': named(INT, who + '.end')}


def _key_self(eng, name):
    r = named(INT, 'assignment_radius')
    eng.assume(r.z >= 0)
    return Obj('Fragment', {'match_hash': None, 'assignment_radius': r, 'qcfail': named(BOOL, 'qcfail'), 'max_fragment_size': None,
                            'umi_hamming_distance': 0, 'span': None, 'strand': None, 'sample': None, 'umi': None},
               info=eng.loader.classref(FFR, 'Fragment'))


def _key_setup(eng):
    from pyvc.engine import Builtin
    A, B = _key_vars('a'), _key_vars('b')
    for who, v in (('a', A), ('b', B)):
        eng.assume(z3.And(v['start'].z >= 0, v['start'].z < v['end'].z))      # an aligned read covers at least one base
        for x in _KEYVARS:
            eng.spec_env['%s_%s' % (who, x)] = v[x]      # reported with the counter-model
    q = 'singlecellmultiomics.fragment.fragment.Fragment.'

    def setter(attr, val):
        def h(e, f, a, k, n):
            (f.bound if getattr(f, 'bound', None) is not None else a[0]).attrs[attr] = val
        return h
    eng.loader.call_hooks[q + 'set_sample'] = setter('sample', A['sample'])
    eng.loader.call_hooks[q + 'update_umi'] = setter('umi', A['umi'])
    eng.loader.call_hooks[q + 'identify_strand'] = lambda e, f, a, k, n: A['strand']
    eng.loader.call_hooks[q + 'update_span'] = setter('span', (A['contig'], A['start'], A['end']))

    def flat(v):
        if isinstance(v, tuple):
            return [x for y in v for x in flat(y)]
        return [v]

    def same_key(e, a, k, n):
        mh = a[0].attrs['match_hash']
        sub = [(A[x].z, B[x].z) for x in _KEYVARS]
        radius = a[0].attrs['assignment_radius'].z
        dist = lambda p, q_: z3.If(p - q_ >= 0, p - q_, q_ - p)      # noqa: E731
        ds, de = dist(A['start'].z, B['start'].z), dist(A['end'].z, B['end'].z)
        equal = z3.And(A['sample'].z == B['sample'].z, A['strand'].z == B['strand'].z, A['contig'].z == B['contig'].z,
                       z3.If(ds <= de, ds, de) <= radius, A['umi'].z == B['umi'].z)
        same_path = z3.And(*[z3.substitute(c, *sub) for c in e.pc]) if e.pc else z3.BoolVal(True)
        agree = []
        for x in flat(mh):
            if isinstance(x, Sym):
                agree.append(x.z == z3.substitute(x.z, *sub))
        return Sym(z3.Implies(z3.And(equal, same_path), z3.And(*agree) if agree else z3.BoolVal(True)), BOOL)
    eng.spec_env['SAME_KEY'] = Builtin('SAME_KEY', same_key)


plain_key = Contract(
    PROP, FFR + '::Fragment.__init__', name='Fragment.__init__[bucket key of plain fragments]',
    block=_key_tail,
    params={'self': _key_self, 'library_name': 'str'},
    setup=_key_setup,
    ensures={'fragments_that_compare_equal_share_their_bucket_key': 'SAME_KEY(self)'},
    raises={},
    assumptions=['set_sample / update_umi / identify_strand / update_span set arbitrary values (span with 0 <= start < end); '
                 'the second fragment takes the same path through the statements (pairs on different paths are not compared); '
                 'exact UMIs (umi_hamming_distance 0), Fragment.__eq__ by its C06 contract'],
)


def plain_key_replay(inputs, clause):
    """two real one-read fragments with the model's cell, strand, UMI and coordinates: do they compare equal and carry
    different bucket keys?"""
    import pysam
    from pyvc.contract import import_real
    Fragment = import_real(FFR, 'Fragment')
    g = inputs.get('ghost') or {}

    def val(who, k, d):
        for src in (inputs, g):
            for nm in (who + '.' + k, who + '_' + k):
                if src.get(nm) is not None:
                    return src[nm]
        return d
    hdr = pysam.AlignmentHeader.from_dict({'HD': {'VN': '1.0'}, 'SQ': [{'SN': 'chr1', 'LN': 10 ** 9}]})
    radius = inputs.get('assignment_radius', g.get('assignment_radius', 0)) or 0
    frs = []
    for who in ('a', 'b'):
        s, e_ = int(val(who, 'start', 100)), int(val(who, 'end', 150))
        if e_ <= s:
            e_ = s + 1
        if e_ - s > 5000:
            return {'status': 'no-input', 'observed': {'outcome': 'return', 'value': 'span too long for a real read'}}
        r = pysam.AlignedSegment(hdr)
        r.query_name = 'r_' + who
        r.reference_id, r.reference_start = 0, s
        r.query_sequence = 'A' * (e_ - s)
        r.cigarstring = '%dM' % (e_ - s)
        r.mapping_quality = 60
        r.is_reverse = bool(val(who, 'strand', False))
        r.set_tag('SM', str(val('a', 'sample', 'cell')) or 'cell')
        r.set_tag('RX', str(val('a', 'umi', 'ACG')) or 'ACG')
        frs.append(Fragment([r], umi_hamming_distance=0, assignment_radius=int(radius)))
    a, b = frs
    obs = {'outcome': 'return', 'value': {'a.span': list(a.span), 'b.span': list(b.span), 'equal': bool(a == b),
                                         'a.match_hash': repr(a.match_hash), 'b.match_hash': repr(b.match_hash)}}
    if (a == b) and a.match_hash != b.match_hash:
        return {'status': 'confirmed', 'observed': obs, 'failed': [{'clause': clause}]}
    return {'status': 'not-reproduced', 'observed': obs}


plain_key.replay = plain_key_replay
UNITS.append(plain_key)
