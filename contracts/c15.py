"""C15 - consensus pseudo-reads are well-formed and span exactly the molecule coverage (structure only)."""
import itertools

import z3

from pyvc.contract import Contract
from pyvc.engine import LoopSpec, Obj, Sym, SymSeq, GenResult, Builtin, BoundMethod, fresh, named, BOOL, INT, STR
from pyvc.units import Bounded
from pyvc import stubs

PROP = 'C15'
LEVEL = 'proof'
FM = 'singlecellmultiomics/molecule/molecule.py'
FS = 'singlecellmultiomics/utils/sequtils.py'
Q = 'singlecellmultiomics.molecule.molecule.Molecule.'


# ------------------------------------------------------------------------------ get_CIGAR: blocks -> M/N operations
def cigar_setup(eng):
    blocks = SymSeq.fresh((INT, INT), 2, 'blocks')
    eng.assume(blocks.n >= 0)
    eng.spec_env['BLOCKS'] = blocks
    eng.loader.call_hooks[Q + 'get_aligned_blocks'] = lambda e, f, a, k, n: GenResult(blocks)


# get_aligned_blocks (find_ranges over the sorted covered positions, assumed A4): maximal runs of covered reference
# positions as inclusive (start, end), ascending, separated by at least one uncovered position
BLOCKS_OK = ['forall(j, implies(0 <= j and j < seqlen(BLOCKS), BLOCKS[j][0] <= BLOCKS[j][1]))',
             'forall(j, implies(0 <= j and j < seqlen(BLOCKS) - 1, BLOCKS[j][1] + 1 < BLOCKS[j+1][0]))']

get_cigar = Contract(
    PROP, FM + '::Molecule.get_CIGAR', name='Molecule.get_CIGAR',
    params={'self': ('obj', 'Molecule', {}, FM), 'reference': 'none'},
    setup=cigar_setup,
    requires=BLOCKS_OK,
    loops={0: LoopSpec(
        peel=True,
        inv={'length': 'len(CIGAR) == (0 if k == 0 else 2*k - 1)',
             'match_blocks': 'forall(t, implies(0 <= t and t < k, CIGAR[2*t] == ("M", BLOCKS[t][1] - BLOCKS[t][0] + 1)))',
             'gaps': 'forall(t, implies(1 <= t and t < k, CIGAR[2*t - 1] == ("N", BLOCKS[t][0] - BLOCKS[t-1][1] - 1)))',
             'previous_end': 'k == 0 or prev_end == BLOCKS[k-1][1]',
             'first_block_is_leftmost_so_far': 'k == 0 or BLOCKS[0][0] <= BLOCKS[k-1][1]',
             'span': 'k == 0 or (alignment_start == BLOCKS[0][0] and alignment_end == BLOCKS[k-1][1])'},
        types={'CIGAR': ('symlist', (STR, INT), 2), 'prev_end': INT, 'alignment_start': INT, 'alignment_end': INT})},
    ensures={
        # M blocks = the covered runs (inclusive), N = the gap length between consecutive runs
        'one_M_per_block_one_N_per_gap': 'len(result[0]) == (0 if seqlen(BLOCKS) == 0 else 2*seqlen(BLOCKS) - 1)',
        'match_lengths': 'forall(t, implies(0 <= t and t < seqlen(BLOCKS), result[0][2*t] == ("M", BLOCKS[t][1] - BLOCKS[t][0] + 1)))',
        'gap_lengths': 'forall(t, implies(1 <= t and t < seqlen(BLOCKS), result[0][2*t - 1] == ("N", BLOCKS[t][0] - BLOCKS[t-1][1] - 1)))',
        'alignment_spans_the_coverage': 'implies(seqlen(BLOCKS) > 0, result[1] == BLOCKS[0][0] and result[2] == BLOCKS[seqlen(BLOCKS)-1][1])',
    },
    raises={},
    assumptions=['get_aligned_blocks / find_ranges / more_itertools.consecutive_groups: assumed contract (maximal runs, ascending)'],
)

UNITS = [get_cigar]


# ------------------------------------------------------------------------------ generate_partial_reads (bounded: <= 3 blocks)
def partial_setup(n_blocks):
    def setup(eng):
        eng.ghost.clear()
        cigar = []
        for i in range(n_blocks):
            if i:
                g = named(INT, 'gap%d' % i)
                eng.assume(g.z >= 1)
                cigar.append(('N', g))
            m = named(INT, 'match%d' % i)
            eng.assume(m.z >= 1)
            cigar.append(('M', m))
        start = named(INT, 'alignment_start')
        eng.spec_env['CIGAR'] = cigar
        eng.spec_env['START'] = start
        eng.loader.call_hooks[Q + 'get_CIGAR'] = lambda e, f, a, k, n: (list(cigar), start, None)

        def stretch(e, f, args, kwargs, node):
            # extract_stretch_from_dict(obs, a, b): b - a called bases and as many phred scores (its own contract)
            n_ = e.binop(__import__('ast').Sub(), args[2], args[1])
            s_ = fresh(STR, 'stretch')
            e.assume(z3.Length(s_.z) == n_.z)
            ph = Obj('Phreds', {'n': n_})
            ph.vc_immutable = True
            e.ghost.setdefault('stretches', []).append((args[1], args[2]))
            return (s_, ph)
        eng.loader.call_hooks[Q + 'extract_stretch_from_dict'] = stretch
        eng.spec_env['GHOST'] = eng.ghost
    return setup


PART = '(lambda part: %s)'
M_OF = 'sum([int(op[:-1]) for op in part[4] if op[-1] == "M"])'


def partial_unit(n_blocks):
    return Contract(
        PROP, FM + '::Molecule.generate_partial_reads', name='Molecule.generate_partial_reads[%d covered blocks]' % n_blocks,
        params={'self': ('obj', 'Molecule', {}, FM), 'obs': ('const', {}), 'max_N_span': 'int'},
        cases=[{}, {'max_N_span': 'none'}],
        requires=[],
        setup=partial_setup(n_blocks),
        ensures={
            # every part: sequence, qualities and CIGAR agree in length; reference span = sum of its operations
            'sequence_and_quality_lengths_match_the_M_operations':
                'all(sum([len(s) for s in part[2]]) == sum([p.n for p in part[3]]) for part in Y)',
            'reference_span_of_a_part_is_the_sum_of_its_operations':
                'all(part[1] - part[0] == sum([len(s) for s in part[2]]) + GAPS_INSIDE(part) for part in Y)',
            # parts are split exactly at gaps larger than max_N_span
            'number_of_parts': 'len(Y) == 1 + sum([(1 if (max_N_span is not None and op[1] > max_N_span) else 0) for op in CIGAR if op[0] == "N"])',
            'every_block_is_fetched_once_in_order':
                'GHOST["stretches"] == BLOCK_SPANS',
        },
        raises={},
        bounded='%d covered blocks (symbolic lengths and gaps, symbolic max_N_span)' % n_blocks,
        assumptions=['get_CIGAR and extract_stretch_from_dict through their contracts'],
    )


def _partial_pre(n_blocks):
    def pre(eng, fr):
        cigar, start = eng.spec_env['CIGAR'], eng.spec_env['START']
        spans, pos = [], start
        import ast as _ast
        for op, n in cigar:
            nxt = eng.binop(_ast.Add(), pos, n)
            if op == 'M':
                spans.append((pos, nxt))
            pos = nxt
        eng.spec_env['BLOCK_SPANS'] = spans

        def gaps_inside(e, a, k, n_):
            part = a[0]
            tot = 0
            # small gaps kept inside the part are written as '<n>N' into its CIGAR: their total is the reference span minus Ms
            for opstr in part[4]:
                pass
            return e.binop(_ast.Sub(), e.binop(_ast.Sub(), part[1], part[0]),
                           e.call(e.builtins()['sum'], [[e.call(e.builtins()['len'], [s], {}) for s in part[2]]], {})) \
                if False else GAPS(e, part)
        eng.spec_env['GAPS_INSIDE'] = Builtin('GAPS_INSIDE', gaps_inside)
    return pre


def GAPS(e, part):
    """sum of the N operations recorded in the part's CIGAR strings ('<amount>N'): the amounts are symbolic, so the strings
    carry their integer through str(int) provenance"""
    import ast as _ast
    tot = 0
    for opstr in part[4]:
        parts = getattr(opstr, 'parts', None) or [opstr]
        if isinstance(parts[-1], str) and parts[-1].endswith('N'):
            num = parts[0]
            tot = e.binop(_ast.Add(), tot, Sym(num.src, INT) if getattr(num, 'src', None) is not None else int(parts[0]))
    return tot


PARTIALS = []
for n in (1, 2, 3):
    u = partial_unit(n)
    u.pre_state = _partial_pre(n)
    PARTIALS.append(u)
UNITS += PARTIALS
stubs.STUBS['Phreds'] = {'methods': {}, 'props': {}, 'setters': {}}


# ------------------------------------------------------------------------------ get_CIGAR reflects the current coverage
def recall_setup(eng):
    eng.ghost.clear()
    eng.ghost['round'] = 0
    b1 = [(named(INT, 'a_s'), named(INT, 'a_e'))]
    b2 = [(named(INT, 'b_s'), named(INT, 'b_e')), (named(INT, 'c_s'), named(INT, 'c_e'))]
    eng.assume(z3.And(b1[0][0].z <= b1[0][1].z, b2[0][0].z <= b2[0][1].z, b2[0][1].z + 1 < b2[1][0].z, b2[1][0].z <= b2[1][1].z))
    eng.spec_env['B2'] = b2
    eng.loader.call_hooks[Q + 'get_aligned_blocks'] = lambda e, f, a, k, n: list(b1 if e.ghost['round'] == 0 else b2)
    eng.spec_env['MOL'] = Builtin('MOL', lambda e, a, k, n: Obj('Molecule', {}, info=e.loader.classref(FM, 'Molecule')))
    eng.spec_env['ADD_FRAGMENT'] = Builtin('ADD_FRAGMENT', lambda e, a, k, n: e.ghost.__setitem__('round', 1))


recall = Contract(
    PROP, FM + '::Molecule.get_CIGAR', name='Molecule.get_CIGAR[called again after the coverage changed]',
    harness='''
m = MOL()
first = m.get_CIGAR()
ADD_FRAGMENT(m)
return m.get_CIGAR()
''',
    params={}, setup=recall_setup,
    ensures={'second_answer_reflects_the_current_blocks':
             'result[0] == [("M", B2[0][1] - B2[0][0] + 1), ("N", B2[1][0] - B2[0][1] - 1), ("M", B2[1][1] - B2[1][0] + 1)] '
             'and result[1] == B2[0][0] and result[2] == B2[1][1]'},
    raises={},
    bounded='one block, then two blocks (symbolic coordinates); a fixed call/add/call history',
    assumptions=['functools.lru_cache (if present on a method) is modelled as a memo table keyed by (self, arguments)'],
)
UNITS.append(recall)


# ------------------------------------------------------------------------------ create_MD_tag (exhaustive, short strings)
def md_reference(ref, query):
    """independent restatement of the SAM MD rule for an ungapped alignment (used as the specification)"""
    out, run = [], 0
    for r, q in zip(ref.upper(), query):
        if r == q:
            run += 1
        else:
            if run:
                out.append(str(run))
            out.append(r)
            run = 0
    if run:
        out.append(str(run))
    return ''.join(out)


def md_setup(eng):
    alpha = 'ACNa'
    pairs = []
    for L in (0, 1, 2, 3):
        for r in itertools.product(alpha, repeat=L):
            for q in itertools.product('ACN', repeat=L):
                pairs.append((''.join(r), ''.join(q)))
    eng.spec_env['PAIRS'] = pairs
    eng.spec_env['MD'] = Builtin('MD', lambda e, a, k, n: md_reference(a[0], a[1]))


md = Contract(
    PROP, FS + '::create_MD_tag', name='create_MD_tag[all reference/query pairs up to length 3]',
    harness='return [(r, q, create_MD_tag(r, q)) for r, q in PAIRS]',
    params={}, setup=md_setup,
    ensures={
        'md_tag_matches_the_reference': 'all(got == MD(r, q) for r, q, got in result)',
        'matches_plus_mismatches_cover_the_alignment':
            'all(sum([int(x) for x in "".join([(c if c in "0123456789" else " ") for c in got]).split()]) + '
            'len([c for c in got if c not in "0123456789"]) == len(q) for r, q, got in result)',
    },
    raises={},
    bounded='reference over {A,C,N,a} and query over {A,C,N}, length 0..3, exhaustive (executed concretely)',
)
UNITS.append(md)


# ------------------------------------------------------------------------------ linkage (non-deductive, labelled)
def linkage(tier, seed):
    """every attribute of numpy used (as np.<name>) by the consensus code exists in the installed numpy: the consensus
    base calling cannot run at all otherwise (C15: requesting a molecule consensus yields records ...)"""
    import ast
    import os
    import numpy
    from pyvc.loader import REPO
    missing, checked = [], 0
    for rel in (FS, FM):
        src = open(os.path.join(REPO, rel)).read()
        tree = ast.parse(src)
        for n in ast.walk(tree):
            if isinstance(n, ast.Attribute) and isinstance(n.value, ast.Name) and n.value.id == 'np':
                checked += 1
                if not hasattr(numpy, n.attr):
                    missing.append({'file': rel, 'line': n.lineno, 'attribute': 'np.' + n.attr})
    if missing:
        # replay: the real call
        import importlib
        import sys
        if REPO not in sys.path:
            sys.path.insert(0, REPO)
        mod = importlib.import_module('singlecellmultiomics.utils.sequtils')
        try:
            mod.phredscores_to_base_call({'A': [0.95, 0.99], 'T': [0.1]})
            observed = 'no exception'
        except Exception as e:     # noqa
            observed = '%s: %s' % (type(e).__name__, e)
        import json
        os.makedirs('replays/C15', exist_ok=True)
        path = 'replays/C15/linkage.json'
        json.dump({'property': 'C15', 'obligation': 'C15/linkage', 'missing': missing,
                   'replay': {'status': 'confirmed' if 'Error' in observed else 'not-reproduced',
                              'call': "phredscores_to_base_call({'A':[.95,.99],'T':[.1]})", 'observed': observed}}, open(path, 'w'), indent=1)
        return {'result': 'violation', 'replay': path, 'confirmed': 'Error' in observed, 'missing': missing, 'attributes_checked': checked,
                'numpy': numpy.__version__}
    return {'result': 'clean', 'attributes_checked': checked, 'numpy': numpy.__version__}


UNITS.append(Bounded(PROP, 'linkage[numpy attributes used by the consensus code exist]', linkage,
                     'static scan of np.<attr> uses in sequtils.py and molecule.py against the installed numpy',
                     'ast scan + hasattr'))


# ------------------------------------------------------------------------------ phredscores_to_base_call: the decision
# "base at each position is the most likely call given the observed bases and their qualities (N when undecidable)":
# the decision structure (arg-max of the likelihoods, N on a tie of the two best) over the reals for 1-2 observations of two
# conflicting bases.  Floating-point rounding of np.prod / division is outside (A3: exact real arithmetic).
REAL_T = 'real'


def call_probs(shape):
    def mk(eng, name):
        from pyvc.engine import REAL
        d = {}
        for base, n in shape:
            vals = []
            for i in range(n):
                p = named(REAL, 'p_%s%d' % (base, i))
                eng.assume(z3.And(p.z > 0, p.z < 1))
                vals.append(p)
            d[base] = vals
        eng.spec_env['P0'] = {b: list(v) for b, v in d.items()}
        return d
    return mk


def _lik(base, shape):
    n = dict(shape)[base]
    return '(' + ' * '.join('P0["%s"][%d]' % (base, i) for i in range(n)) + ' * %d)' % (4 ** (n - 1))


def _lik_n(shape):
    terms = ['(1 - P0["%s"][%d])' % (b, i) for b, n in shape for i in range(n)]
    return '(' + ' * '.join(terms) + ' * %d)' % (4 ** (len(terms) - 1))


def base_call_unit(shape):
    bases = [b for b, _ in shape]
    L = {b: _lik(b, shape) for b in bases}
    L['N'] = _lik_n(shape)
    keys = bases + ['N']
    ens = {}
    for b in keys:
        others = [c for c in keys if c != b]
        ens['unique_most_likely_%s_is_called' % b] = 'implies(%s, result[0] == "%s")' % (
            ' and '.join('%s > %s' % (L[b], L[c]) for c in others), b)
    ens['tie_of_the_two_most_likely_gives_N'] = 'implies(%s, result[0] == "N")' % ' or '.join(
        '(%s == %s and %s)' % (L[a], L[b], ' and '.join('%s >= %s' % (L[a], L[c]) for c in keys if c not in (a, b)) or 'True')
        for a, b in itertools.combinations(keys, 2))
    return Contract(
        PROP, FS + '::phredscores_to_base_call', name='phredscores_to_base_call[%s]' % ', '.join('%s x%d' % s for s in shape),
        params={'probs': call_probs(shape)},
        ensures=ens, raises={},
        bounded='observations: %s; probabilities symbolic reals in (0,1)' % ', '.join('%d of %s' % (n, b) for b, n in shape),
        assumptions=['A3: np.prod, np.power, division and comparison over the reals (no floating-point rounding)',
                     'collections.Counter.most_common: sorted by value, descending, stable (assumed contract)'],
    )


UNITS += [base_call_unit((('A', 1), ('T', 1))), base_call_unit((('G', 1),))]
_deep = base_call_unit((('C', 2), ('T', 1)))      # degree-3 real arithmetic: about a minute
_deep.tiers = ('thorough',)
UNITS.append(_deep)


# ------------------------------------------------------------------------------ write_tags_to_psuedoreads
def pseudo_setup(eng):
    eng.ghost.clear()
    site = named(INT, 'cut_site')
    bc = named(STR, 'barcode')
    eng.spec_env['SITE'], eng.spec_env['BARCODE'] = site, bc
    eng.loader.call_hooks[Q + 'get_rt_reactions'] = lambda e, f, a, k, n: {}
    eng.loader.call_hooks[Q + 'get_barcode_sequences'] = lambda e, f, a, k, n: [bc]
    eng.loader.call_hooks[Q + 'get_cut_site'] = lambda e, f, a, k, n: (
        ('chr1', site, False) if e.spec_env.get('HAS_SITE', True) else None)


def pseudo_self(with_umi):
    def mk(eng, name):
        frs = [Obj('FragStub', {}) for _ in range(2)]
        ov = named(INT, 'overflow_fragments')
        eng.assume(ov.z >= 0)
        return Obj('NlaIIIMolecule', {'methylation_call_dict': None, 'sample': named(STR, 'sample'),
                                      'umi': named(STR, 'umi') if with_umi else None, 'fragments': frs, 'overflow_fragments': ov,
                                      'allele': None, 'allele_resolver': None},
                   info=eng.loader.classref('singlecellmultiomics/molecule/nlaIII.py', 'NlaIIIMolecule'))
    return mk


def pseudo_reads(eng, name):
    return [stubs.make_read(eng, 'pseudo%d' % i, tags={}, closed=True) for i in range(2)]


def pseudo_setup_nosite(eng):
    pseudo_setup(eng)
    eng.spec_env['HAS_SITE'] = False


pseudo_tags = Contract(
    PROP, FM + '::Molecule.write_tags_to_psuedoreads', name='Molecule.write_tags_to_psuedoreads',
    params={'self': pseudo_self(True), 'reads': pseudo_reads},
    cases=[{}, {'self': pseudo_self(False)}],
    setup=pseudo_setup,
    ensures={
        'sample_and_site': 'all(r.get_tag("SM") == self.sample and r.get_tag("DS") == SITE for r in reads)',
        'umi_barcode_and_molecule_identifier':
            'implies(self.umi is not None, all(r.get_tag("RX") == self.umi and r.get_tag("BC") == BARCODE and '
            'r.get_tag("MI") == BARCODE + self.umi for r in reads))',
        # the fragment count of the molecule, as Molecule.write_tags puts it on the source reads (C06): members + overflow
        'fragment_count': 'all(r.get_tag("TF") == len(self.fragments) + self.overflow_fragments for r in reads)',
    },
    raises={},
    assumptions=['get_cut_site / get_barcode_sequences / get_rt_reactions through stubs; no methylation calls, allele or '
                 'allele resolver on the molecule; two pseudo-reads (the loop treats each record independently)'],
)
UNITS.append(pseudo_tags)

# a molecule without a cut site (plain fragments: get_cut_site() gives None) still gets its pseudo-reads tagged
import copy as _copy      # noqa: E402
pseudo_tags_nosite = _copy.copy(pseudo_tags)
pseudo_tags_nosite.name = 'Molecule.write_tags_to_psuedoreads[molecule without a cut site]'
pseudo_tags_nosite.setup = pseudo_setup_nosite
pseudo_tags_nosite.ensures = dict(pseudo_tags.ensures)
pseudo_tags_nosite.ensures['sample_and_site'] = 'all(r.get_tag("SM") == self.sample and not r.has_tag("DS") for r in reads)'
UNITS.append(pseudo_tags_nosite)


# ------------------------------------------------------------------------------ get_dedup_reads: what each pseudo-read is built
# from (bounded: <= 3 covered blocks).  "whose MD tag matches the reference": the reference string handed to create_MD_tag
# must be the reference bases of the aligned (M) blocks of the part, in order - skipped (N) stretches are not part of MD -
# and must pair base by base with the consensus sequence of the part.
def dedup_setup(n_blocks):
    inner = partial_setup(n_blocks)

    def setup(eng):
        from pyvc import externals
        inner(eng)
        REF = named(STR, 'contig_sequence')
        eng.spec_env['REF'] = REF
        eng.ghost['reads'] = []

        def fetch(e, o, chrom, start, end):
            return e.eval_slice(REF, start, end) if hasattr(e, 'eval_slice') else Sym(
                z3.SubString(REF.z, start.z if isinstance(start, Sym) else z3.IntVal(start),
                             (end.z if isinstance(end, Sym) else z3.IntVal(end)) - (start.z if isinstance(start, Sym) else z3.IntVal(start))), STR)
        stubs.STUBS['Fasta'] = {'methods': {'fetch': fetch}, 'props': {}, 'setters': {}}

        def md(e, f, args, kwargs, node):
            return Obj('MDArgs', {'ref': args[0], 'query': args[1]})
        eng.loader.call_hooks['singlecellmultiomics.utils.sequtils.create_MD_tag'] = md

        def consensus_read(e, f, args, kwargs, node):
            o = Obj('PseudoRead', dict(kwargs))
            e.ghost['reads'].append(o)
            return o
        eng.loader.call_hooks[Q + 'get_consensus_read'] = consensus_read
        externals.EXTRA['numpy.concatenate'] = lambda e, a, k, n: Obj('Phreds', {'parts': a[0]})
        externals.EXTRA['array.array'] = lambda e, a, k, n: a[1]
    return setup


def dedup_self(eng, name):
    fa = Obj('Fasta', {})
    fa.vc_immutable = True
    # the molecule's span is what Fragment.update_span / Molecule._add_fragment make of the mates' orientation: with
    # dove-tailing mates aligned bases lie outside it, so nothing ties it to the aligned blocks but start <= end
    ss, se = named(INT, 'span_start'), named(INT, 'span_end')
    eng.assume(z3.And(ss.z >= 0, ss.z <= se.z))
    return Obj('Molecule', {'chromosome': 'chr1', 'reference': fa, 'strand': named(BOOL, 'strand'), 'spanStart': ss, 'spanEnd': se},
               info=eng.loader.classref(FM, 'Molecule'))


def dedup_pre(n_blocks):
    base = _partial_pre(n_blocks)

    def pre(eng, fr):
        base(eng, fr)
        start = eng.spec_env['START']
        end = eng.spec_env['BLOCK_SPANS'][-1][1]
        eng.assume(z3.And(start.z >= 0, z3.Length(eng.spec_env['REF'].z) >= (end.z if isinstance(end, Sym) else end)))
    return pre


def dedup_unit(n_blocks):
    u = Contract(
        PROP, FM + '::Molecule.get_dedup_reads', name='Molecule.get_dedup_reads[%d covered blocks]' % n_blocks,
        params={'self': dedup_self, 'read_name': ('const', 'pseudo'), 'target_bam': 'none', 'obs': ('const', {}), 'max_N_span': 'int'},
        cases=[{}, {'max_N_span': 'none'}],
        setup=dedup_setup(n_blocks),
        ensures={
            'one_record_per_part': 'len(Y) == 1 + sum([(1 if (max_N_span is not None and op[1] > max_N_span) else 0) for op in CIGAR if op[0] == "N"])',
            # MD pairs the consensus bases with the reference bases of the aligned blocks only
            'md_reference_pairs_base_by_base_with_the_consensus':
                'all(len(r.mdstring.ref) == len(r.mdstring.query) and r.mdstring.query == r.consensus for r in Y)',
            'md_reference_is_the_reference_of_the_aligned_blocks':
                '"".join([r.mdstring.ref for r in Y]) == "".join([REF[s:e] for s, e in BLOCK_SPANS])',
            'record_starts_at_its_first_aligned_block_and_keeps_the_strand':
                'all(r.is_reverse == self.strand for r in Y) and Y[0].start == START',
        },
        raises={},
        bounded='%d covered blocks (symbolic lengths, gaps and max_N_span, symbolic contig sequence)' % n_blocks,
        assumptions=['get_CIGAR / extract_stretch_from_dict through their contracts; get_consensus_read and create_MD_tag '
                     'recorded with their arguments (create_MD_tag has its own exhaustive unit); reference.fetch = substring'],
    )
    u.pre_state = dedup_pre(n_blocks)
    return u


UNITS += [dedup_unit(n) for n in (1, 2, 3)]


def dedup_replay(inputs, clause):
    """a real Molecule of real pysam records covering the blocks of the counter-model (one read per covered block, at
    START + 100), consensus requested through Molecule.deduplicate_majority; the MD tag of each pseudo-read is compared
    with create_MD_tag over the reference bases of its aligned (M) blocks"""
    import random
    import pysam
    from pyvc.contract import import_real
    Fragment = import_real('singlecellmultiomics/fragment/fragment.py', 'Fragment')
    Mol = import_real(FM, 'Molecule')
    md_of = import_real(FS, 'create_MD_tag')
    g = inputs.get('ghost', {})
    cigar = [(op, max(1, min(int(n), 40))) for op, n in g['CIGAR']]
    # block lengths are arbitrary in the contract: very short blocks hide MD differences ('1' either way), so every aligned
    # block gets at least 3 bases and the first one room for a dove-tailing mate pair
    cigar = [(op, max(n, 3) if op == 'M' else n) for op, n in cigar]
    if cigar[0][0] == 'M' and cigar[0][1] < 8:
        cigar[0] = ('M', 8)
    mns = inputs.get('max_N_span')
    rng = random.Random(7)
    off = 100
    total = off + sum(n for _, n in cigar) + 50
    ref = ''.join(rng.choice('ACGT') for _ in range(total))

    class Ref:
        def fetch(self, contig, start=None, end=None):
            return ref[start:end]
    header = pysam.AlignmentHeader.from_dict({'HD': {'VN': '1.6'}, 'SQ': [{'SN': 'chr1', 'LN': total}]})
    frags, pos, blocks = [], off, []
    for i, (op, n) in enumerate(cigar):
        if op == 'M':
            q = list(ref[pos:pos + n])
            if n >= 3:
                q[1] = 'A' if q[1] != 'A' else 'C'        # a mismatch so that MD is not just a number
            s = pysam.AlignedSegment(header)
            s.query_name = 'q%d' % i
            s.reference_id, s.reference_start = 0, pos
            s.query_sequence = ''.join(q)
            s.query_qualities = pysam.qualitystring_to_array('I' * n)
            s.cigartuples = [(0, n)]
            s.mapping_quality = 60
            s.flag = 0
            for t, v in (('SM', 'cell'), ('RX', 'ACG'), ('MX', 'x'), ('DS', off), ('BC', 'AAAA')):
                s.set_tag(t, v)
            frags.append(Fragment([s, None]))
            blocks.append((pos, pos + n))
        pos += n
    # second history for the first block: dove-tailing mates (the reverse mate starts upstream of the forward mate), so the
    # span of the fragment (forward start .. reverse end) starts after the first aligned base
    n0 = cigar[0][1]
    if cigar[0][0] == 'M' and n0 >= 6 and inputs.get('_dovetail', True):
        first = frags[0][0]
        mate1 = pysam.AlignedSegment(header)
        mate1.query_name = mate2_name = 'q0'
        mate1.reference_id, mate1.reference_start = 0, off + 3
        mate1.query_sequence = first.query_sequence[3:]
        mate1.query_qualities = pysam.qualitystring_to_array('I' * (n0 - 3))
        mate1.cigartuples, mate1.mapping_quality, mate1.flag = [(0, n0 - 3)], 60, 0x1 | 0x2 | 0x40 | 0x20
        first.flag = 0x1 | 0x2 | 0x80 | 0x10
        for t, v in (('SM', 'cell'), ('RX', 'ACG'), ('MX', 'x'), ('DS', off), ('BC', 'AAAA')):
            mate1.set_tag(t, v)
        frags[0] = Fragment([mate1, first])
    m = Mol(frags[0], reference=Ref())
    for f in frags[1:]:
        m._add_fragment(f)
    m.chromosome = 'chr1'
    m.get_cut_site = lambda: ('chr1', off, False)
    out = pysam.AlignmentFile(B_scratch_bam(), 'wb', header=header)
    try:
        reads = [r for r in m.deduplicate_majority(out, 'pseudo', max_N_span=mns) if r is not None]
    finally:
        out.close()
    failed, seen = [], []
    for r in reads:
        exp_ref = ''.join(ref[a:b] for a, b in r.get_blocks())
        want = md_of(exp_ref, r.query_sequence)
        seen.append({'start': r.reference_start, 'cigar': r.cigarstring, 'MD': r.get_tag('MD'), 'MD_expected': want})
        if r.get_tag('MD') != want:
            failed.append({'clause': 'md_reference_is_the_reference_of_the_aligned_blocks', 'cigar': r.cigarstring,
                           'MD': r.get_tag('MD'), 'expected': want})
    cov = sorted(b for r in reads for b in r.get_blocks())
    if cov != blocks:
        failed.append({'clause': 'aligned blocks', 'got': cov, 'expected': blocks})
    obs = {'outcome': 'return', 'value': seen}
    return {'status': 'confirmed' if failed else 'not-reproduced', 'observed': obs, 'failed': failed}


def B_scratch_bam():
    import os
    d = os.path.join(os.path.dirname(os.path.dirname(os.path.abspath(__file__))), '.scratch')
    os.makedirs(d, exist_ok=True)
    return os.path.join(d, 'c15_replay_%d.bam' % os.getpid())


for _u in UNITS[-3:]:
    _u.replay = dedup_replay


def pseudo_replay(inputs, clause):
    """real NlaIII-like molecule capped at one fragment with two more matching fragments offered (overflow 2): tag a pseudo-read"""
    import pysam
    from pyvc.contract import import_real
    Fragment = import_real('singlecellmultiomics/fragment/fragment.py', 'Fragment')
    Mol = import_real(FM, 'Molecule')
    header = pysam.AlignmentHeader.from_dict({'HD': {'VN': '1.6'}, 'SQ': [{'SN': 'chr1', 'LN': 1000}]})

    def seg(name):
        s = pysam.AlignedSegment(header)
        s.query_name, s.reference_id, s.reference_start = name, 0, 100
        s.query_sequence, s.cigartuples, s.mapping_quality, s.flag = 'ACGTACGTAC', [(0, 10)], 60, 0
        s.query_qualities = pysam.qualitystring_to_array('I' * 10)
        for t, v in (('SM', 'cell'), ('RX', 'ACG'), ('MX', 'x'), ('BC', 'AAAA')):
            s.set_tag(t, v)
        return s
    m = Mol(Fragment([seg('q0'), None]), max_associated_fragments=1)
    for i in (1, 2):
        try:
            m.add_fragment(Fragment([seg('q%d' % i), None]))
        except OverflowError:
            pass
    m.get_cut_site = lambda: ('chr1', 100, False)
    pseudo = seg('pseudo')
    m.write_tags_to_psuedoreads([pseudo])
    tags = dict(pseudo.get_tags())
    want_tf = len(m.fragments) + m.overflow_fragments
    obs = {'outcome': 'return', 'value': {'TF': tags.get('TF'), 'members': len(m.fragments), 'overflow': m.overflow_fragments,
                                          'SM': tags.get('SM'), 'DS': tags.get('DS'), 'RX': tags.get('RX'), 'MI': tags.get('MI')}}
    failed = []
    if tags.get('TF') != want_tf:
        failed.append({'clause': 'fragment_count', 'TF': tags.get('TF'), 'expected': want_tf})
    if tags.get('SM') != 'cell' or tags.get('DS') != 100:
        failed.append({'clause': 'sample_and_site'})
    if tags.get('RX') != m.umi or tags.get('MI') != 'AAAA' + m.umi:
        failed.append({'clause': 'umi_barcode_and_molecule_identifier'})
    # second molecule: records without UMI (RX tag absent) - the counts are written all the same
    def seg_noumi(name):
        s2 = seg(name)
        s2.set_tag('RX', None)
        return s2
    m2 = Mol(Fragment([seg_noumi('n0'), None]))
    m2.add_fragment(Fragment([seg_noumi('n1'), None]))
    m2.get_cut_site = lambda: ('chr1', 100, False)
    pseudo2 = seg_noumi('pseudo2')
    m2.write_tags_to_psuedoreads([pseudo2])
    t2 = dict(pseudo2.get_tags())
    obs['value']['molecule_without_umi'] = {'TF': t2.get('TF'), 'members': len(m2.fragments), 'SM': t2.get('SM')}
    if t2.get('TF') != len(m2.fragments) + m2.overflow_fragments:
        failed.append({'clause': 'fragment_count', 'TF': t2.get('TF'), 'expected': len(m2.fragments), 'molecule': 'without UMI'})
    return {'status': 'confirmed' if failed else 'not-reproduced', 'observed': obs, 'failed': failed}


pseudo_tags.replay = pseudo_replay


def pseudo_nosite_replay(inputs, clause):
    """real plain Molecule of a plain Fragment (no DS tag, no restriction site): tag a pseudo-read"""
    import pysam
    from pyvc.contract import import_real
    Fragment = import_real('singlecellmultiomics/fragment/fragment.py', 'Fragment')
    Mol = import_real(FM, 'Molecule')
    header = pysam.AlignmentHeader.from_dict({'HD': {'VN': '1.6'}, 'SQ': [{'SN': 'chr1', 'LN': 1000}]})

    def seg(name):
        s = pysam.AlignedSegment(header)
        s.query_name, s.reference_id, s.reference_start = name, 0, 100
        s.query_sequence, s.cigartuples, s.mapping_quality, s.flag = 'ACGTACGTAC', [(0, 10)], 60, 0
        s.query_qualities = pysam.qualitystring_to_array('I' * 10)
        for t, v in (('SM', 'cell'), ('RX', 'ACG'), ('MX', 'x'), ('BC', 'AAAA')):
            s.set_tag(t, v)
        return s
    m = Mol(Fragment([seg('q'), None]))
    pseudo = seg('pseudo')
    pseudo.set_tag('SM', None)
    try:
        m.write_tags_to_psuedoreads([pseudo])
    except Exception as e:     # noqa
        return {'status': 'confirmed', 'observed': {'outcome': 'raise', 'value': [type(e).__name__, str(e)]},
                'failed': [{'clause': 'raises.only', 'exception': type(e).__name__}]}
    tags = dict(pseudo.get_tags())
    ok = tags.get('SM') == 'cell' and 'DS' not in tags and tags.get('TF') == 1
    return {'status': 'not-reproduced' if ok else 'confirmed', 'observed': {'outcome': 'return', 'value': {k: str(v) for k, v in tags.items()}},
            'failed': [] if ok else [{'clause': 'sample_and_site / fragment_count'}]}


pseudo_tags_nosite.replay = pseudo_nosite_replay


# ------------------------------------------------------------------------------ get_base_confidence_dict: observation -> confidence
# every aligned base of every read is one observation of its base at its reference position with confidence 1 - 10^(-Q/10)
# (10^x uninterpreted: what matters is that the confidence is that function of the base's own quality, for every Q)
def conf_setup(eng):
    from pyvc import nparr
    eng.spec_env['POW10'] = Builtin('POW10', lambda e, a, k, n: Sym(nparr.POW10(z3.ToReal(a[0].z) if a[0].t == INT else a[0].z), __import__('pyvc.engine', fromlist=['REAL']).REAL))
    QF = z3.Function('query_quality_at', z3.IntSort(), z3.IntSort())
    pairs = []
    for i in range(2):
        q, r = named(INT, 'qpos%d' % i), named(INT, 'refpos%d' % i)
        eng.assume(z3.And(q.z >= 0, r.z >= 0))
        pairs.append((q, r))
    eng.assume(z3.And(pairs[0][0].z < pairs[1][0].z, pairs[0][1].z < pairs[1][1].z))
    seq = named(STR, 'read_sequence')
    eng.assume(z3.Length(seq.z) > pairs[1][0].z)
    eng.spec_env['PAIRS'], eng.spec_env['SEQ'] = pairs, seq
    eng.spec_env['QUAL'] = Builtin('QUAL', lambda e, a, k, n: Sym(QF(a[0].z), INT))

    class Quals:
        def vc_getitem(self, e, idx, node=None):
            v = Sym(QF(idx.z if isinstance(idx, Sym) else z3.IntVal(idx)), INT)
            e.assume(v.z >= 0)
            return v
    rd = stubs.make_read(eng, 'read', tags={}, closed=True, fields={'seq': lambda e, n: seq, 'query_qualities': lambda e, n: Quals()})
    stubs.STUBS['AlignedSegment']['methods']['get_aligned_pairs'] = lambda e, o, **k: list(pairs)
    eng.loader.call_hooks[Q + 'iter_reads'] = lambda e, f, a, k, n: [rd]


confidence = Contract(
    PROP, FM + '::Molecule.get_base_confidence_dict', name='Molecule.get_base_confidence_dict[1 read, 2 aligned bases]',
    params={'self': ('obj', 'Molecule', {'chromosome': ('const', 'chr1')}, FM)},
    setup=conf_setup,
    ensures={
        'one_observation_per_aligned_base_at_its_reference_position':
            'len(result) == 2 and all(any([k[0] == "chr1" and k[1] == PAIRS[i][1] for k in result]) for i in range(2))',
        'confidence_is_one_minus_ten_to_minus_q_over_ten':
            'all(implies(k[1] == PAIRS[i][1], len(result[k]) == 1 and all(b == SEQ[PAIRS[i][0]] and len(result[k][b]) == 1 and '
            'result[k][b][0] == 1 - POW10(-QUAL(PAIRS[i][0]) / 10) for b in result[k])) for k in result for i in range(2))',
    },
    raises={},
    bounded='one read with two aligned bases (symbolic positions, bases and qualities)',
    assumptions=['10**x is an uninterpreted function of x (no floating point); pysam get_aligned_pairs / query_qualities through stubs'],
)
UNITS.append(confidence)


# ------------------------------------------------------------------------------ get_aligned_blocks against its assumed contract
# The CIGAR / MD units above use Molecule.get_aligned_blocks through an assumed contract (maximal runs of covered reference
# positions, ascending, inclusive ends).  The function itself is run here on real records over an exhaustive small domain.
def aligned_blocks_bounded(tier, seed):
    import itertools
    import json
    import os
    import pysam
    from pyvc.contract import import_real
    Mol = import_real(FM, 'Molecule')
    header = pysam.AlignmentHeader.from_dict({'HD': {'VN': '1.6'}, 'SQ': [{'SN': 'chr1', 'LN': 1000}]})

    def read(start, ops):
        a = pysam.AlignedSegment(header)
        n = sum(l for op, l in ops if op in (0, 1, 4))
        a.query_name, a.query_sequence = 'q', 'A' * n
        a.query_qualities = pysam.qualitystring_to_array('I' * n)
        a.reference_id, a.reference_start, a.cigartuples, a.mapping_quality, a.flag = 0, start, ops, 60, 0
        return a
    shapes = [[(0, 2)], [(0, 3)], [(0, 1), (2, 1), (0, 2)], [(0, 2), (3, 2), (0, 1)], [(4, 1), (0, 2), (1, 1), (0, 1)]]
    n = 0
    for s1, s2 in itertools.product(shapes, repeat=2):
        for off in range(0, 9):
            r1, r2 = read(10, s1), read(10 + off, s2)
            m = object.__new__(Mol)
            m.fragments = [[r1, r2]]
            covered = sorted({p for r in (r1, r2) for _, p in r.get_aligned_pairs(matches_only=True)})
            want, run = [], None
            for p in covered:
                if run and p == run[1] + 1:
                    run[1] = p
                else:
                    run = [p, p]
                    want.append(run)
            want = [tuple(x) for x in want]
            try:
                got = [tuple(int(v) for v in x) for x in m.get_aligned_blocks()]
            except Exception as e:      # noqa: BLE001
                got = '%s: %s' % (type(e).__name__, e)
            n += 1
            if got != want:
                out = os.environ.get('VERIF_OUT', '.')
                os.makedirs(os.path.join(out, 'replays', PROP), exist_ok=True)
                path = 'replays/%s/get_aligned_blocks.json' % PROP
                json.dump({'property': PROP, 'obligation': '%s/get_aligned_blocks[assumed contract]' % PROP,
                           'replay': {'status': 'confirmed', 'reads': [[10, r1.cigarstring], [10 + off, r2.cigarstring]],
                                      'observed': got, 'expected_maximal_runs_of_covered_positions': want}},
                          open(os.path.join(out, path), 'w'), indent=1)
                return {'result': 'violation', 'replay': path, 'confirmed': True, 'molecules': n}
    return {'result': 'clean', 'molecules': n}


UNITS.append(Bounded(PROP, 'get_aligned_blocks[the contract the CIGAR/MD units assume, on real records]', aligned_blocks_bounded,
                     'two reads of 5 alignment shapes (M, D, N, S, I) each, second read shifted 0..8 bases: 225 molecules',
                     'exhaustive run of the real function against the specification'))


# ------------------------------------------------------------------------------ get_consensus_read: the record that is written
# get_dedup_reads hands sequence, qualities, CIGAR, MD and start to get_consensus_read (recorded by a hook in the units above);
# here: the record it returns carries exactly these, on the molecule's contig and strand, and goes through the tag writer
def cread_setup(eng):
    from pyvc import externals
    eng.ghost.clear()
    eng.ghost['tagged'] = []
    eng.spec_env['GHOST'] = eng.ghost

    def new_read(e, a, k, n):
        return Obj('NewRead', {'_tags': {}})
    stubs.STUBS['NewRead'] = {'methods': {'set_tag': lambda e, o, t, v, *a, **k: o.attrs['_tags'].__setitem__(t, v)},
                              'props': {}, 'setters': {}}
    externals.EXTRA['pysam.AlignedSegment'] = new_read
    eng.loader.call_hooks[Q + 'get_max_mapping_qual'] = lambda e, f, a, k, n: named(INT, 'max_mapping_quality')
    eng.loader.call_hooks[Q + 'write_tags_to_psuedoreads'] = lambda e, f, a, k, n: e.ghost['tagged'].extend(list(a[-1]))


def cread_self(eng, name):
    return Obj('Molecule', {'chromosome': named(STR, 'contig'), 'strand': named(BOOL, 'strand'), 'spanStart': named(INT, 'span_start'),
                            'spanEnd': named(INT, 'span_end')}, info=eng.loader.classref(FM, 'Molecule'))


consensus_read = Contract(
    PROP, FM + '::Molecule.get_consensus_read', name='Molecule.get_consensus_read[sequence, qualities, CIGAR and MD given]',
    params={'self': cread_self, 'target_file': lambda e, n: Obj('TargetBam', {'header': 'HEADER'}), 'read_name': 'str',
            'consensus': 'str', 'phred_scores': lambda e, n: Obj('Phreds', {}), 'cigarstring': 'str', 'mdstring': 'str', 'start': 'int',
            'supplementary': 'bool'},
    cases=[{}, {'mdstring': 'none'}, {'start': 'none'}],
    setup=cread_setup,
    ensures={
        'record_carries_what_it_was_given':
            'result.query_sequence == consensus and (result.query_qualities is phred_scores) and result.cigarstring == cigarstring '
            'and result.query_name == read_name and result.is_supplementary == supplementary',
        'placed_on_the_contig_strand_and_start':
            'result.reference_name == self.chromosome and result.is_reverse == self.strand and '
            'result.reference_start == (start if start is not None else self.spanStart)',
        'md_tag_iff_given': '(("MD" in result._tags) == (mdstring is not None)) and (mdstring is None or result._tags["MD"] == mdstring)',
        'mapping_quality_is_the_maximum_of_the_molecule': 'result.mapping_quality == MAXQ',
        'goes_through_the_pseudo_read_tag_writer': 'len(GHOST["tagged"]) == 1 and (GHOST["tagged"][0] is result)',
    },
    raises={},
    assumptions=['pysam.AlignedSegment as a record of independent fields (A4); get_max_mapping_qual / write_tags_to_psuedoreads '
                 'through hooks (the latter has its own units above)'],
)
consensus_read.pre_state = lambda eng, fr: eng.spec_env.update({'MAXQ': named(INT, 'max_mapping_quality')})
UNITS.append(consensus_read)


# ------------------------------------------------------------------------------ extract_stretch_from_dict against its assumed contract
# generate_partial_reads / get_dedup_reads use it through an assumed contract (b - a calls and as many qualities, position by
# position, 'N' with quality 0 where nothing was called).  The function itself, on the real class, over an exhaustive small domain.
def stretch_bounded(tier, seed):
    import itertools
    import json
    import math
    import os
    from pyvc.contract import import_real
    Mol = import_real(FM, 'Molecule')
    m = object.__new__(Mol)
    m.chromosome = 'chr1'
    probs = [0.0, 0.5, 0.9, 0.99, 0.999999, 1.0]
    n = 0
    for present in itertools.product((False, True), repeat=4):
        for shift in range(3):
            calls = {('chr1', 10 + i): ('ACGT'[(i + shift) % 4], probs[(2 * i + shift) % len(probs)]) for i in range(4) if present[i]}
            calls[('chr2', 11)] = ('T', 0.9)      # another contig at the same coordinate must not be read
            for a, b in ((9, 15), (10, 14), (11, 12), (12, 12)):
                want_seq = ''.join(calls.get(('chr1', p), ('N', 0))[0] for p in range(a, b))
                want_q = [int(round(-10 * math.log10(min(max(1 - calls.get(('chr1', p), ('N', 0))[1], 1e-9), 0.999999999)))) for p in range(a, b)]
                try:
                    seq, q = m.extract_stretch_from_dict(calls, a, b)
                    got = (seq, [int(x) for x in q])
                except Exception as e:      # noqa: BLE001
                    got = '%s: %s' % (type(e).__name__, e)
                n += 1
                if got != (want_seq, want_q):
                    out = os.environ.get('VERIF_OUT', '.')
                    os.makedirs(os.path.join(out, 'replays', PROP), exist_ok=True)
                    path = 'replays/%s/extract_stretch_from_dict.json' % PROP
                    json.dump({'property': PROP, 'obligation': '%s/extract_stretch_from_dict[assumed contract]' % PROP,
                               'replay': {'status': 'confirmed', 'calls': {str(k): list(v) for k, v in calls.items()}, 'window': [a, b],
                                          'observed': got if isinstance(got, str) else list(got), 'expected': [want_seq, want_q]}},
                              open(os.path.join(out, path), 'w'), indent=1)
                    return {'result': 'violation', 'replay': path, 'confirmed': True, 'calls': n}
    return {'result': 'clean', 'calls': n}


UNITS.append(Bounded(PROP, 'extract_stretch_from_dict[the contract the partial-read units assume, on the real class]', stretch_bounded,
                     'calls at any subset of 4 positions x 3 base/probability assignments x 4 windows (192 calls)',
                     'exhaustive run of the real function against the specification'))


# ------------------------------------------------------------------------------ deduplicate_majority: the glue between the units above
def majority_setup(eng):
    eng.ghost.clear()
    eng.ghost.update({'dedup_args': None, 'tagged': None})
    eng.spec_env['GHOST'] = eng.ghost
    conf = {('chr1', 10): {'A': ['pA']}, ('chr1', 11): {'C': ['pC1', 'pC2'], 'T': ['pT']}}
    eng.spec_env['CONF'] = conf
    eng.loader.call_hooks[Q + 'get_base_confidence_dict'] = lambda e, f, a, k, n: conf
    eng.loader.call_hooks['singlecellmultiomics.utils.sequtils.phredscores_to_base_call'] = lambda e, f, a, k, n: ('call_of', a[0])
    r1, r2 = Obj('PseudoRead', {'i': 1}), Obj('PseudoRead', {'i': 2})
    eng.spec_env['READS'] = [r1, None, r2]

    def dedup(e, f, a, k, n):
        e.ghost['dedup_args'] = (list(a)[-2:], dict(k))
        return list(e.spec_env['READS'])
    eng.loader.call_hooks[Q + 'get_dedup_reads'] = dedup
    eng.loader.call_hooks[Q + 'write_tags_to_psuedoreads'] = lambda e, f, a, k, n: e.ghost.__setitem__('tagged', list(a[-1]))


majority = Contract(
    PROP, FM + '::Molecule.deduplicate_majority', name='Molecule.deduplicate_majority',
    params={'self': lambda e, n: Obj('Molecule', {}, info=e.loader.classref(FM, 'Molecule')), 'target_bam': ('const', 'TARGET'),
            'read_name': 'str', 'max_N_span': 'int'},
    cases=[{}, {'max_N_span': 'none'}],
    setup=majority_setup,
    ensures={
        'every_position_gets_the_call_of_its_own_observations':
            'len(GHOST["dedup_args"][1]["obs"]) == 2 and all(GHOST["dedup_args"][1]["obs"][k] == ("call_of", CONF[k]) for k in CONF)',
        'name_target_and_gap_limit_are_passed_on':
            'GHOST["dedup_args"][0][0] == read_name and GHOST["dedup_args"][0][1] == "TARGET" and GHOST["dedup_args"][1]["max_N_span"] == max_N_span',
        'every_record_that_exists_goes_through_the_tag_writer': 'len(GHOST["tagged"]) == 2 and (GHOST["tagged"][0] is READS[0]) and (GHOST["tagged"][1] is READS[2])',
        'all_parts_are_returned': 'len(result) == 3 and (result[0] is READS[0]) and result[1] is None and (result[2] is READS[2])',
    },
    raises={},
    assumptions=['get_base_confidence_dict, phredscores_to_base_call, get_dedup_reads, write_tags_to_psuedoreads through their own '
                 'contracts above (recording hooks here)'],
)
UNITS.append(majority)


# ------------------------------------------------------------------------------ the tagger's method table: pseudo-read tags of every class
# the molecule-level tags of a consensus record (sample, UMI, cut site, counts ...: units above) are written by
# Molecule.write_tags_to_psuedoreads; every molecule class the tagger can select must run it exactly once on the records when
# its own write_tags_to_psuedoreads is called (twice would be harmless for most tags but not for counters; never is a loss)
def pseudo_table_units():
    from contracts import c06
    units, seen = [], set()
    for methods, mol, frag in c06.method_table():
        if mol in seen or mol == 'Molecule':
            continue
        seen.add(mol)
        rel = c06.class_file('molecule', mol)
        if rel is not None:
            units.append(pseudo_table_unit(methods, mol, rel))
    return units


def pseudo_table_setup(eng):
    eng.ghost.clear()
    eng.ghost['base_calls'] = []
    eng.spec_env['GHOST'] = eng.ghost
    Qm = 'singlecellmultiomics.molecule.'
    eng.loader.call_hooks[Qm + 'molecule.Molecule.write_tags_to_psuedoreads'] = lambda e, f, a, k, n: e.ghost['base_calls'].append(a[-1])
    eng.loader.call_hooks[Qm + 'molecule.Molecule.get_cut_site'] = lambda e, f, a, k, n: ('chr1', named(INT, 'cut'), named(BOOL, 'cut_strand'))
    eng.loader.call_hooks[Qm + 'nlaIII.NlaIIIMolecule.get_undigested_site_count'] = lambda e, f, a, k, n: named(INT, 'undigested')
    eng.loader.call_hooks[Qm + 'taps.TAPSMolecule.add_cpg_color_tag_to_read'] = lambda e, f, a, k, n: None
    stubs.STUBS['TableRead'] = {'methods': {'set_tag': lambda e, o, t, v, *a, **k: o.attrs['tags'].__setitem__(t, v)}, 'props': {}, 'setters': {}}


def pseudo_table_unit(methods, cls, relpath):
    def mol(eng, name):
        return Obj(cls, {'reference': None, 'exons': set(), 'introns': set(), 'genes': {'geneA'}, 'junctions': set(), 'is_spliced': None,
                         'exon_hit_gene_names': set(), 'site_location': ['chr1', named(INT, 'site')], 'strand': named(BOOL, 'strand')},
                   info=eng.loader.classref(relpath, cls))
    return Contract(
        PROP, relpath + '::' + cls, name='%s.write_tags_to_psuedoreads[base tag writer runs once; -method %s]' % (cls, ','.join(methods)),
        harness='''
MOL.write_tags_to_psuedoreads(READS)
return MOL
''',
        params={'MOL': mol, 'READS': lambda eng, name: [Obj('TableRead', {'tags': {}}), Obj('TableRead', {'tags': {}})]},
        setup=pseudo_table_setup,
        ensures={'the_molecule_level_tag_writer_runs_exactly_once_on_these_records':
                 'len(GHOST["base_calls"]) == 1 and len(GHOST["base_calls"][0]) == 2 and '
                 '(GHOST["base_calls"][0][0] is READS[0]) and (GHOST["base_calls"][0][1] is READS[1])'},
        raises={},
        assumptions=['Molecule.write_tags_to_psuedoreads itself: units above; class names from the method table of bamtagmultiome.py'],
    )


UNITS += pseudo_table_units()
