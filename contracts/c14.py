"""C14 - TAPS methylation calls reflect reference context and observed conversion."""
import itertools

import z3

from pyvc.contract import Contract
from pyvc.engine import Obj, Sym, Builtin, BoundMethod, PyRaise, fresh, named, BOOL, INT, STR
from pyvc import stubs

PROP = 'C14'
LEVEL = 'proof'
FT = 'singlecellmultiomics/molecule/taps.py'
FM = 'singlecellmultiomics/molecule/molecule.py'


# ------------------------------------------------------------------------------ position_to_context: exhaustive
def ctx_setup(eng):
    stubs.STUBS['Colormap'] = {'methods': {'set_bad': lambda e, o, *a: None}, 'props': {}, 'setters': {}}

    def fetch(e, o, chrom, start, end):
        if start < 0:
            raise PyRaise('ValueError', 'start out of range')       # pysam.FastaFile.fetch (A4)
        return o.attrs['seq'][start:end]
    stubs.STUBS['Fasta'] = {'methods': {'fetch': fetch}, 'props': {}, 'setters': {}}
    eng.spec_env['FASTA'] = Builtin('FASTA', lambda e, a, k, n: Obj('Fasta', {'seq': a[0]}))
    eng.spec_env['CONTEXTS'] = [''.join(t) for t in itertools.product('ACGTN', repeat=2)]
    eng.spec_env['TRIPLES'] = [''.join(t) for t in itertools.product('ACGT', repeat=3)]


context = Contract(
    PROP, FT + '::TAPS', name='TAPS.position_to_context[all contexts x observed bases, both strands, contig ends]',
    harness='''
t = TAPS()
out = []
for two in CONTEXTS:
    for obs in 'ACGTNacgt':
        # reference C at position 2 followed by `two`
        ref = 'NN' + 'C' + two
        out.append(('C', 'C' + two, obs, t.position_to_context('chr', 2, 'C', obs, strand=False, reference=FASTA(ref))))
        # reference G at position 2 preceded by `two`: the C-strand context is revcomp(two + 'G')
        ref = two + 'G' + 'NN'
        out.append(('G', two + 'G', obs, t.position_to_context('chr', 2, 'G', obs, strand=True, reference=FASTA(ref))))
# truncated contexts at the contig ends: every 3-base contig, every position whose three-base context does not fit
ends = []
for three in TRIPLES:
    for pos in (1, 2):
        if three[pos] == 'C':
            for obs in 'TC':
                ends.append(t.position_to_context('chr', pos, 'C', obs, strand=False, reference=FASTA(three)))
    for pos in (0, 1):
        if three[pos] == 'G':
            for obs in 'AG':
                ends.append(t.position_to_context('chr', pos, 'G', obs, strand=True, reference=FASTA(three)))
return (out, ends)
''',
    params={}, setup=ctx_setup,
    ensures={
        # (a context containing a non-ACGT reference base gives no call - my reading of the statement for CGN)
        # C strand: context = the three reference bases starting at the C; G strand: reverse complement of the three bases
        # ending at the G.  z/x/h by CpG / CHG / CHH, upper case iff the conversion (C>T, G>A) is observed
        'context_is_the_true_three_base_context':
            'all(got[0] == (true if rb == "C" else "".join([{"A": "T", "C": "G", "G": "C", "T": "A"}.get(c, c) for c in true[::-1]])) '
            'for rb, true, obs, got in result[0])',
        'letter_encodes_context_and_conversion':
            'all(got[1] == (lambda ctx, conv, unconv: '
            '(lambda kind: "." if kind == "." or (not conv and not unconv) else (kind.upper() if conv else kind))'
            '("." if (ctx[1] not in "ACGT" or ctx[2] not in "ACGT") else "z" if ctx[1] == "G" else ("x" if (ctx[1] in "ACT" and ctx[2] == "G") else ("h" if (ctx[1] in "ACT" and ctx[2] in "ACT") else "."))))'
            '(got[0], obs.upper() == ("T" if rb == "C" else "A"), obs.upper() == rb) for rb, true, obs, got in result[0])',
        'truncated_contexts_give_no_call': 'all(e[1] == "." for e in result[1])',
    },
    raises={},
    assumptions=['exhaustive over all two-base extensions over ACGTN (25), nine observed characters, both strands, plus every C / G of '
                 'every 3-base contig whose context is cut by a contig end; executed concretely by the engine on the real TAPS class',
                 'reference.fetch: substring, ValueError for a negative start (A4, pysam.FastaFile)'],
)



class _NativeFasta:
    """native counterpart of the FASTA() helper for the replay: a one-contig reference (pysam.FastaFile behaviour: a negative
    start raises ValueError, an end beyond the contig is clipped)"""

    def __init__(self, seq):
        self.seq = seq

    def fetch(self, chrom, start, end):
        if start < 0:
            raise ValueError('start out of range (%i)' % start)
        return self.seq[start:end]


context.native_env = {'FASTA': _NativeFasta, 'CONTEXTS': [''.join(t) for t in itertools.product('ACGTN', repeat=2)],
                      'TRIPLES': [''.join(t) for t in itertools.product('ACGT', repeat=3)]}
UNITS = [context]


# ------------------------------------------------------------------------------ Molecule.set_methylation_call_tags
LETTERS = 'zZxXhH.'


def tags_setup(eng, base=99):
    eng.ghost.clear()
    calls = {}
    for p in (base + 1, base + 2, base + 4):
        letter = named(STR, 'call_%d' % p)
        eng.assume(z3.Or(*[letter.z == z3.StringVal(c) for c in LETTERS]))
        calls[('chr1', p)] = {'context': letter, 'reference_base': 'C', 'consensus': 'T'}
    eng.spec_env['CALLS'] = calls
    pairs = [(0, base), (1, base + 1), (2, base + 2), (3, base + 3), (None, base + 4), (4, None), (5, base + 5)]
    eng.spec_env['PAIRS'] = pairs

    def aligned_pairs(e, o, **k):
        if k.get('with_seq'):
            return [(q, r, 'C') for q, r in pairs if q is not None and r is not None]
        return list(pairs)
    stubs.STUBS['AlignedSegment']['methods']['get_aligned_pairs'] = aligned_pairs


def tagged_read(eng, name):
    r = stubs.make_read(eng, name, tags={}, closed=True, fields={'reference_name': lambda e, n: 'chr1',
                                                                 'query_sequence': lambda e, n: 'TACGTA'})
    return [r]


set_tags = Contract(
    PROP, FM + '::Molecule.set_methylation_call_tags', name='Molecule.set_methylation_call_tags',
    params={'self': ('obj', 'Molecule', {}, FM), 'call_dict': lambda e, n: e.spec_env['CALLS'], 'reads': tagged_read},
    setup=tags_setup,
    ensures={
        # one character per aligned base, the call letter of that reference position or '.'
        'call_string_has_one_character_per_aligned_base':
            'len(reads[0].get_tag("XM")) == len([1 for q, r in PAIRS if q is not None and r is not None])',
        'call_string_characters':
            'reads[0].get_tag("XM") == "".join([(CALLS[("chr1", r)]["context"] if ("chr1", r) in CALLS else ".") '
            'for q, r in PAIRS if q is not None and r is not None])',
        # per-molecule totals = number of calls of each kind
        'totals': 'all(reads[0].get_tag(t) == sum([(1 if CALLS[k]["context"] == c else 0) for k in CALLS]) '
                  'for t, c in [("sZ", "Z"), ("sz", "z"), ("sX", "X"), ("sx", "x"), ("sH", "H"), ("sh", "h")])',
        'methylated_total': 'reads[0].get_tag("MC") == reads[0].get_tag("sZ") + reads[0].get_tag("sX") + reads[0].get_tag("sH")',
        'unmethylated_total': 'reads[0].get_tag("uC") == reads[0].get_tag("sz") + reads[0].get_tag("sx") + reads[0].get_tag("sh")',
        'calls_stored_on_the_molecule': 'self.methylation_call_dict is call_dict',
    },
    raises={},
    bounded='three calls (symbolic letters over zZxXhH.), one read with seven aligned pairs incl. an insertion and a deletion',
    assumptions=['pysam get_aligned_pairs(matches_only=True) yields the aligned (query, reference) columns (A4)'],
)
UNITS.append(set_tags)

# the same read aligned at the very start of the contig (reference position 0 is a position like any other)
import copy as _copy      # noqa: E402
set_tags_at_0 = _copy.copy(set_tags)
set_tags_at_0.name = 'Molecule.set_methylation_call_tags[alignment starts at reference position 0]'
set_tags_at_0.setup = lambda eng: tags_setup(eng, 0)
UNITS.append(set_tags_at_0)


# ------------------------------------------------------------------------------ TAPSMolecule.obtain_methylation_calls
def calls_setup(eng, empty=False):
    eng.ghost.clear()
    eng.ghost['consensus_kwargs'] = None
    eng.ghost['context_calls'] = []
    eng.spec_env['GHOST'] = eng.ghost
    cons = {} if empty else {('chr1', 10): named(STR, 'base_10'), ('chr1', 20): named(STR, 'base_20')}
    eng.spec_env['CONS'] = cons

    class Phreds:
        def vc_getitem(self, e, k, node=None):
            return Phreds()

        def vc_len(self, e):
            return named(INT, 'coverage')

        def vc_iter(self, e):
            return []
    Q = 'singlecellmultiomics.molecule.'

    def get_consensus(e, f, args, kwargs, node):
        e.ghost['consensus_kwargs'] = dict(kwargs)
        if empty:
            return ({}, None, None)      # get_consensus(with_probs_and_obs=True) of a molecule without a usable base
        return (dict(cons), Phreds(), None)
    eng.loader.call_hooks[Q + 'molecule.Molecule.get_consensus'] = get_consensus

    def set_tags_hook(e, f, args, kwargs, node):
        e.ghost['tagged_with'] = args[0]
    eng.loader.call_hooks[Q + 'molecule.Molecule.set_methylation_call_tags'] = set_tags_hook

    def p2c(e, o, **kw):
        e.ghost['context_calls'].append(kw)
        return ('CTX', named(STR, 'letter_%d' % kw['position']))
    stubs.STUBS['TAPSStub'] = {'methods': {'position_to_context': p2c}, 'props': {}, 'setters': {}}


def taps_molecule(eng, name):
    t = Obj('TAPSStub', {})
    t.vc_immutable = True
    ref = Obj('Fasta', {})
    ref.vc_immutable = True
    return Obj('TAPSMolecule', {'strand': named(BOOL, 'strand'), 'taps_strand': 'F', 'allow_unsafe_base_calls': named(BOOL, 'allow_unsafe'),
                                'taps': t, 'reference': ref}, info=eng.loader.classref(FT, 'TAPSMolecule'))


EXPECTED = '(("G" if self.strand else "C") if self.taps_strand == "F" else ("C" if self.strand else "G"))'
obtain = Contract(
    PROP, FT + '::TAPSMolecule.obtain_methylation_calls', name='TAPSMolecule.obtain_methylation_calls',
    params={'self': taps_molecule},
    cases=[{}, {'self': lambda e, n: (lambda o: (o.attrs.update({'taps_strand': 'R'}), o)[1])(taps_molecule(e, n))}],
    setup=calls_setup,
    ensures={
        # every call sits on the reference base that the chemistry converts on the molecule's strand ...
        'only_the_convertible_reference_base_is_considered':
            'GHOST["consensus_kwargs"]["only_include_refbase"] == %s' % EXPECTED,
        # ... inside the mate-overlap-safe span unless unsafe calls were asked for
        'mate_overlap_safe_span_unless_allowed': 'GHOST["consensus_kwargs"]["dove_safe"] == (not self.allow_unsafe_base_calls)',
        'one_call_per_consensus_position': 'len(result) == 2 and all(k in result for k in CONS)',
        'call_records_consensus_and_reference_base':
            'all(result[k]["consensus"] == CONS[k] and result[k]["reference_base"] == %s for k in CONS)' % EXPECTED,
        'context_is_looked_up_at_the_call_position_with_the_observed_base':
            'all(any(c["position"] == k[1] and c["chromosome"] == k[0] and c["observed_base"] == CONS[k] and '
            'c["ref_base"] == %s and c["strand"] == self.strand for c in GHOST["context_calls"]) for k in CONS)' % EXPECTED,
        'tags_written_from_these_calls': 'GHOST["tagged_with"] is result',
    },
    raises={},
    bounded=None,
    assumptions=['Molecule.get_consensus (C13) and TAPS.position_to_context (above) through their contracts; two consensus '
                 'positions (the comprehension treats positions independently)'],
)
UNITS.append(obtain)

# a molecule whose mate-overlap-safe span holds no convertible base: get_consensus returns ({}, None, None); the (empty) call
# set is still written - the reads get their call string and totals like any other molecule
obtain_empty = _copy.copy(obtain)
obtain_empty.name = 'TAPSMolecule.obtain_methylation_calls[no convertible base in the safe span]'
obtain_empty.setup = lambda eng: calls_setup(eng, True)
obtain_empty.ensures = {
    'only_the_convertible_reference_base_is_considered': obtain.ensures['only_the_convertible_reference_base_is_considered'],
    'no_calls': 'len(result) == 0',
    'tags_are_written_all_the_same': '("tagged_with" in GHOST) and (GHOST["tagged_with"] is result)',
}
UNITS.append(obtain_empty)


def extra_units():
    # the mate-overlap-safe window of get_consensus_dictionaries (bases outside it are never called) is contracts/c13.py's unit
    from contracts import c13
    import copy
    u = copy.copy(c13.dove)
    u.prop = PROP
    out = [u]
    # "upper case exactly when the consensus shows the conversion": the consensus TAPS reads is get_consensus(with_probs_and_obs)
    # and the per-read calls come from read_to_consensus_dict (C13's bounded units, re-verified under this property)
    for v in c13.UNITS:
        # ... and Fragment.get_consensus hands the mate-overlap-safe restriction on unchanged (C13's fragment units)
        if getattr(v, 'name', '').endswith('with_probs_and_obs]') or getattr(v, 'name', '').startswith('read_to_consensus_dict') \
                or getattr(v, 'name', '').startswith('Fragment.get_consensus'):
            w = copy.copy(v)
            w.prop = PROP
            out.append(w)
    return out


# ------------------------------------------------------------------------------ the tagger's TAPS classes: calls are made when a molecule is finalised
# every molecule class the tagger selects for a TAPS method (read from the method table of bamtagmultiome.py on every run) must
# obtain the methylation calls - and so write the call strings - when it is finalised
def taps_table_units():
    from contracts import c06
    units, seen = [], set()
    for methods, mol, frag in c06.method_table():
        if 'TAPS' not in mol or mol in seen:
            continue
        seen.add(mol)
        rel = c06.class_file('molecule', mol)
        if rel is None:
            continue
        units.append(finalise_unit(methods, mol, rel))
    return units


def finalise_setup(eng):
    eng.ghost.clear()
    eng.ghost['calls_obtained'] = 0
    eng.spec_env['GHOST'] = eng.ghost
    Qm = 'singlecellmultiomics.molecule.'

    def obtain(e, f, a, k, n):
        e.ghost['calls_obtained'] += 1
        return {}
    eng.loader.call_hooks[Qm + 'taps.TAPSMolecule.obtain_methylation_calls'] = obtain
    eng.loader.call_hooks[Qm + 'molecule.Molecule.iter_reads'] = lambda e, f, a, k, n: []
    eng.loader.call_hooks[Qm + 'molecule.Molecule.update_mapability'] = lambda e, f, a, k, n: None
    eng.loader.call_hooks[Qm + 'chic.CHICMolecule.update_ligation_motif'] = lambda e, f, a, k, n: None


def finalise_unit(methods, cls, relpath):
    return Contract(
        PROP, relpath + '::' + cls, name='%s.__finalise__[methylation calls are obtained; -method %s]' % (cls, ','.join(methods)),
        harness='''
MOL.__finalise__()
return MOL
''',
        params={'MOL': lambda eng, name: Obj(cls, {'mapability_reader': None, 'get_consensus_dictionaries_kwargs': {}, 'fragments': [],
                                                  'finalised': False}, info=eng.loader.classref(relpath, cls))},
        setup=finalise_setup,
        ensures={'methylation_calls_are_obtained_when_the_molecule_is_finalised': 'GHOST["calls_obtained"] >= 1',
                 'and_the_molecule_is_marked_finalised': 'result.finalised == True'},
        raises={},
        assumptions=['obtain_methylation_calls through its own contract above; no reads (the colour tag loop is outside the property)'],
    )


UNITS += taps_table_units()
