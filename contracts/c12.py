"""C12 - binned molecule counting is independent of how the genome is split into jobs."""
import z3

from pyvc.contract import Contract
from pyvc.engine import LoopSpec, Builtin, Obj, fresh, named, zterm, INT, BOOL, STR
from pyvc.units import Lemma
from pyvc import stubs, externals

PROP = 'C12'
LEVEL = 'proof'
F = 'singlecellmultiomics/bamProcessing/bamBinCounts.py'

READ_TAGS = {'DS': INT, 'SM': STR, 'mp': STR}


def read_param(eng, name):
    return stubs.make_read(eng, name, tags=READ_TAGS)


# the property's counting rule, written from the statement: non-duplicate, non-rejected(qc-fail) read-1 records
# passing the MAPQ threshold and not marked non-uniquely mappable
COUNTED = ('read.is_read1 and not read.is_qcfail and not (dedup and read.is_duplicate) '
           'and (ignore_mp or not read.has_tag("mp") or read.get_tag("mp") == "unique") '
           'and (min_mq is None or read.mapping_quality >= min_mq)')

read_counts = Contract(
    PROP, F + '::read_counts', name='read_counts',
    params={'read': read_param, 'min_mq': 'int', 'dedup': 'bool', 'read1_only': ('const', True), 'ignore_mp': 'bool',
            'ignore_qcfail': ('const', False), 'verbose': ('const', False)},
    cases=[{}, {'min_mq': 'none'}],
    result='bool',
    ensures={'iff': 'result == (%s)' % COUNTED},
)

# ------------------------------------------------------------------------------ count_fragments_binned
ARGS = ('tuple', ('const', 'in.bam'), 'int', 'int', 'str', 'int', 'int', 'int', 'none', 'none', 'bool', ('const', {}))


def cfb_setup(eng):
    def reads(e, nm, a, k):
        r = stubs.make_read(e, nm, tags=READ_TAGS)
        # A4: fetch(contig, start, stop) returns exactly the records overlapping [start, stop)
        e.assume(z3.And(zterm(r.attrs['reference_start'], INT) < zterm(k['stop'], INT),
                        zterm(r.attrs['reference_end'], INT) > zterm(k['start'], INT)))
        return r
    externals.EXTRA['pysam.AlignmentFile'] = lambda e, args, kwargs, node: stubs.alignment_file(e, reads)

    def contig_size(e, f, args, kwargs, node):
        v = fresh(INT, 'contig_size')
        e.assume(v.z > 0)
        return v
    eng.loader.call_hooks['singlecellmultiomics.bamProcessing.bamFunctions.get_contig_size'] = contig_size
    eng.loader.call_hooks['singlecellmultiomics.bamProcessing.bamBinCounts.get_contig_size'] = contig_size


SITE = '(read.get_tag("DS") if read.has_tag("DS") else read.reference_start)'
SAMPLE = '(read.get_tag("SM") if read.has_tag("SM") else "bulk")'
CFB_COUNTED = COUNTED.replace('ignore_mp', 'False')
BIN_START = 'bin_size * fdiv(%s, bin_size)' % SITE

def cfb_fetch_covers(eng, fr):
    """obligation at the fetch call: the window handed to fetch overlaps every record of the contig whose site lies in this
    job's [start, end) and whose alignment lies within max_fragment_size of its site (the documented limit) - such a record
    is owned by this job and by no other, so it must be seen here (ghost record g)"""
    a, k = eng.ghost['fetch_args']
    f_lo, f_hi = zterm(k['start'], INT), zterm(k['stop'], INT)
    env = fr.env
    start, end, M, csize = (zterm(env[n], INT) for n in ('start', 'end', 'max_fragment_size', 'contig_size'))
    gs = [fresh(INT, n) for n in ('g_site', 'g_reference_start', 'g_reference_end')]
    eng.witness['ghost_record'] = tuple(gs)
    g_site, g_rs, g_re = (g.z for g in gs)
    near = z3.And(start <= g_site, g_site < end, 0 <= g_rs, g_rs < g_re, g_re <= csize, g_rs <= g_site + M, g_re > g_site - M)
    eng.check('fetch_window_covers_every_record_whose_site_is_owned_by_this_job',
              z3.Implies(near, z3.And(g_rs < f_hi, g_re > f_lo, eng.equals(k['contig'], env['args'][3]))), kind='post')


count_fragments_binned = Contract(
    PROP, F + '::count_fragments_binned', name='count_fragments_binned',
    params={'args': ARGS},
    cases=[{}, {'args': ARGS[:7] + ('none',) + ARGS[8:]}],      # min_mq an int / None
    requires=['args[1] >= 1', 'args[2] >= 0', 'args[4] >= 0', 'args[4] <= args[5]'],
    setup=cfb_setup,
    callees=['read_counts'],
    loops={0: LoopSpec(
        inv={}, head_hook=cfb_fetch_covers, must_exhaust=True,     # every fetched record is looked at (sites are not sorted)
        types={'counts': ('symdict', [(STR, INT, INT), (STR,)], INT)},
        body_post={
            # one arbitrary fetched record: the matrix changes by exactly +1 in the cell (bin containing the site,
            # sample) iff the record is counted by the rule and its site lies in this job's [start, end); every other
            # cell is unchanged (frame)
            'counted_once_in_its_bin_iff_owned': (
                'forall("c:str a b s:str", dget(counts, (c, a, b), s, 0) == dget(head(counts, 0), (c, a, b), s, 0) + '
                '(1 if ((%s) and start <= %s and %s < end and c == contig and a == %s and '
                'b == min(%s + bin_size, contig_size) and s == %s) else 0))'
                % (CFB_COUNTED, SITE, SITE, BIN_START, BIN_START, SAMPLE)),
            'bin_contains_site': ('implies((%s) and start <= %s and %s < end, %s <= %s and %s < %s + bin_size)'
                                  % (CFB_COUNTED, SITE, SITE, BIN_START, SITE, SITE, BIN_START)),
        })},
    raises={},
    assumptions=['A4 pysam.AlignmentFile.fetch returns the records overlapping [f_start,f_end) (each once); a record '
                 'whose site lies further than max_fragment_size from its alignment is never fetched by the owning job '
                 '(documented limit, precondition of the property)',
                 'records are mapped (fetch never returns unmapped records); DS tag is an integer; kwargs == {} ; '
                 'alt_spans None; key_tags None',
                 'A3 int(site/bin_size) exact'],
)

UNITS = [read_counts, count_fragments_binned]


# ---- replay of count_fragments_binned counter-models: one-record BAM built from the witness record
def cfb_replay(inputs, clause):
    import os
    from pyvc import bamreplay as B
    from pyvc.contract import import_real
    args = list(inputs['args'])
    if clause.startswith('fetch_window'):
        # the ghost record of the obligation: a countable read 1 with site g_site aligned at [g_rs, g_re)
        g = inputs['witness']['ghost_record']
        w = {'is_read1': True, 'is_read2': False, 'is_qcfail': False, 'is_duplicate': False, 'is_unmapped': False, 'is_paired': False,
             'mapping_quality': 60, 'reference_start': int(g[1]), 'reference_end': int(g[2]), 'query_name': 'ghost',
             'tags': {'DS': int(g[0]), 'SM': 'cell'}}
    else:
        w = B.witness_read(inputs['witness']['fetch_elem'])
    contig = B.safe_name(args[3], 'ctgA')
    csize = int(inputs['witness'].get('contig_size', 0) or 0)
    bin_size, maxfrag, start, end, min_mq, dedup = args[1], args[2], args[4], args[5], args[6], args[9]
    csize = max(csize, 1)
    f_start, f_end = max(0, start - maxfrag), min(end + maxfrag, csize)
    if not clause.startswith('fetch_window') and not (w['reference_start'] < f_end and w['reference_end'] > f_start):
        return {'status': 'no-input', 'note': 'witness record lies outside the fetch window (excluded by assumption A4)'}
    d = B.scratch('c12_')
    try:
        path = os.path.join(d, 'in.bam')
        B.write_bam(path, [(contig, max(csize, 1))], [(contig, w)])
        fn = import_real(F, 'count_fragments_binned')
        try:
            got = fn((path, bin_size, maxfrag, contig, start, end, min_mq, None, None, dedup, {}))
        except Exception as e:
            return {'status': 'confirmed', 'observed': {'outcome': 'raise', 'value': [type(e).__name__, str(e)]},
                    'failed': [{'clause': 'raises.only'}]}
        tags = w['tags']
        counted = bool(w['is_read1'] and not w['is_qcfail'] and not (dedup and w['is_duplicate'])
                       and (('mp' not in tags) or tags['mp'] == 'unique')
                       and (min_mq is None or min(255, w['mapping_quality']) >= min_mq))
        site = tags['DS'] if 'DS' in tags else w['reference_start']
        expected = {}
        if counted and start <= site < end:
            bs = bin_size * (site // bin_size)
            expected = {(contig, bs, min(bs + bin_size, csize)): {tags.get('SM', 'bulk'): 1}}
        got = {k: dict(v) for k, v in got.items() if v}
        rec = {'observed': {'outcome': 'return', 'value': {str(k): v for k, v in got.items()}},
               'expected': {str(k): v for k, v in expected.items()},
               'record': {k: w[k] for k in ('is_read1', 'is_qcfail', 'is_duplicate', 'mapping_quality', 'reference_start',
                                            'reference_end', 'tags')}}
        if got != expected:
            rec.update({'status': 'confirmed', 'failed': [{'clause': clause, 'why': 'matrix differs from the counting rule'}]})
        else:
            rec['status'] = 'not-reproduced'
        return rec
    finally:
        B.cleanup(d)


count_fragments_binned.replay = cfb_replay
_old_setup = cfb_setup


def cfb_setup2(eng):
    _old_setup(eng)

    def contig_size(e, f, args, kwargs, node):
        v = fresh(INT, 'contig_size')
        e.assume(v.z > 0)
        e.witness['contig_size'] = v
        return v
    eng.loader.call_hooks['singlecellmultiomics.bamProcessing.bamFunctions.get_contig_size'] = contig_size
    eng.loader.call_hooks['singlecellmultiomics.bamProcessing.bamBinCounts.get_contig_size'] = contig_size


count_fragments_binned.setup = cfb_setup2


# ------------------------------------------------------------------------------ generate_jobs (one arbitrary contig)
def gj_setup(eng):
    def sizes(e, f, args, kwargs, node):
        c, l = named(STR, 'contig'), named(INT, 'length')
        e.assume(l.z >= 0)
        e.witness['contig'] = c
        e.witness['length'] = l
        e.spec_env['contig'] = c
        e.spec_env['length'] = l

        class OneContig:
            def vc_getattr(self, eng_, attr, node=None):
                from pyvc.engine import BoundMethod
                return BoundMethod('items', lambda e2, a, k: [(c, l)])
        return OneContig()
    for q in ('singlecellmultiomics.bamProcessing.bamFunctions.get_contig_sizes',
              'singlecellmultiomics.bamProcessing.bamBinCounts.get_contig_sizes'):
        eng.loader.call_hooks[q] = sizes


generate_jobs = Contract(
    PROP, F + '::generate_jobs', name='generate_jobs',
    params={'alignments_path': ('const', 'in.bam'), 'bin_size': 'int', 'bins_per_job': 'int'},
    requires=['bin_size >= 1', 'bins_per_job >= 1'],
    setup=gj_setup,
    yields=((STR, INT, INT), 3),
    ensures={
        # job intervals of a contig partition [0, ceil(length/W)*W) with W = bin_size*bins_per_job
        'count': 'seqlen(Y) == cdiv(length, bin_size*bins_per_job)',
        'tiling': 'forall(j, implies(0 <= j and j < seqlen(Y), Y[j][0] == contig and '
                  'Y[j][1] == j*bin_size*bins_per_job and Y[j][2] == (j+1)*bin_size*bins_per_job))',
        'covers_contig': 'implies(length > 0, Y[seqlen(Y)-1][2] >= length)',
    },
    assumptions=['get_contig_sizes returns each contig of the BAM header once (dict); verified for one arbitrary contig '
                 '(contigs are handled independently by the generator)'],
)


def gj_replay(inputs, clause):
    """real generate_jobs on a header-only BAM with one contig of the counter-model's length"""
    import os
    from pyvc import bamreplay as B
    from pyvc.contract import import_real
    length = int(inputs['witness']['length'])
    b, m = int(inputs['bin_size']), int(inputs['bins_per_job'])
    if length < 1 or length > 10 ** 9:
        return {'status': 'no-input', 'note': 'contig length %d not realisable in a BAM header' % length}
    d = B.scratch('c12j_')
    try:
        path = os.path.join(d, 'in.bam')
        B.write_bam(path, [('ctgA', length)], [])
        jobs = list(import_real(F, 'generate_jobs')(path, b, m))
    finally:
        B.cleanup(d)
    W = b * m
    want = [('ctgA', j * W, (j + 1) * W) for j in range(-(-length // W))]
    obs = {'outcome': 'return', 'value': {'jobs': [list(j) for j in jobs[:6]], 'n_jobs': len(jobs), 'expected_n_jobs': len(want),
                                          'contig_length': length, 'bin_size': b, 'bins_per_job': m}}
    if [tuple(j) for j in jobs] != want:
        return {'status': 'confirmed', 'observed': obs, 'failed': [{'clause': clause, 'why': 'job intervals do not tile the contig'}]}
    return {'status': 'not-reproduced', 'observed': obs}


generate_jobs.replay = gj_replay


def lemma_disjoint_bins():
    """Two sites owned by different jobs fall into different bins when the job width is a multiple of the bin size
    (uses the ownership clause start <= site < end of count_fragments_binned and the tiling of generate_jobs);
    hence no (bin, sample) cell is produced by two jobs and the dict.update merge of obtain_counts adds nothing twice."""
    from pyvc.engine import zfloordiv
    s1, s2, b, m, j1, j2 = z3.Ints('s1 s2 b m j1 j2')
    W = b * m
    hyps = [b >= 1, m >= 1, j1 >= 0, j2 >= 0, j1 != j2,
            j1 * W <= s1, s1 < (j1 + 1) * W, j2 * W <= s2, s2 < (j2 + 1) * W]
    goal = b * zfloordiv(s1, b) != b * zfloordiv(s2, b)
    # helper facts proved first (division by a symbolic b): q = floor(s/b) <=> b*q <= s < b*q + b
    q1, q2, x, y = z3.Ints('q1 q2 x y')
    u1, u2 = (j1 + 1) * m, (j2 + 1) * m

    def cancel(p, q):      # instance of the cancellation lemma  b>=1 and p*b < q*b  ==>  p < q
        return z3.Implies(p * b < q * b, p < q)
    return [('floor_characterisation', [b >= 1, q1 == zfloordiv(s1, b)], z3.And(b * q1 <= s1, s1 < b * q1 + b)),
            ('cancel_positive_factor', [b >= 1, x * b < y * b], x < y),
            ('bins_of_different_jobs_differ',
             hyps + [b * q1 <= s1, s1 < b * q1 + b, b * q2 <= s2, s2 < b * q2 + b,
                     cancel(u1, q2 + 1), cancel(q1, u1), cancel(u2, q1 + 1), cancel(q2, u2),
                     z3.Or(j1 + 1 <= j2, j2 + 1 <= j1),
                     z3.Implies(j1 + 1 <= j2, u1 * b <= j2 * m * b), z3.Implies(j2 + 1 <= j1, u2 * b <= j1 * m * b)],
             q1 != q2),
            ('monotone_job_start', [b >= 1, m >= 1, j1 >= 0, j2 >= 0, j1 + 1 <= j2], (j1 + 1) * m * b <= j2 * m * b)]


UNITS += [generate_jobs, Lemma(PROP, 'lemma.disjoint_bins', lemma_disjoint_bins)]


# ------------------------------------------------------------------------------ mate_iter (second observation point:
# get_binned_counts -> _generate_count_dict counts the record in slot 0 of every yielded pair)
FB = 'singlecellmultiomics/bamProcessing/bamFunctions.py'


def mate_iter_unit(n):
    def alignments(eng, name):
        reads = [stubs.make_read(eng, 'r%d' % i, tags={}) for i in range(n)]
        eng.spec_env['READS'] = reads
        o = stubs.Obj('AlignmentFile', {})
        o.vc_immutable = True
        stubs.STUBS['AlignmentFile'] = {'methods': {'fetch': lambda e, obj, *a, **k: list(reads)}, 'props': {}, 'setters': {}}
        return o

    def replay(inputs, clause):
        return {'status': 'no-input', 'note': 'see replay harness mate_iter_replay (synthetic BAM) in thorough tier'}

    return Contract(
        PROP, FB + '::mate_iter', name='mate_iter[%d records]' % n,
        params={'alignments': alignments},
        setup=lambda eng: None,
        # A7 well-formed records: a paired record is exactly one of read1 / read2
        requires=['all(implies(r.is_paired, r.is_read1 != r.is_read2) for r in READS)',
                  'all(not (r.is_read1 and r.is_read2) for r in READS)',
                  # primary records only: no two fetched records share name and mate number
                  'all(implies(a is not b and a.query_name == b.query_name, '
                  '(a.is_read1 != b.is_read1) and (a.is_read2 != b.is_read2)) for a in READS for b in READS)'],
        tiers=('thorough',) if n >= 3 else None, max_paths=60000,
        ensures={
            # every primary, non-qcfail record of the fetched region appears in exactly one yielded pair ...
            'each_record_yielded_exactly_once':
                'all(implies(not r.is_qcfail and not r.is_supplementary, '
                'sum(1 for y in Y for z in y if z is r) == 1) for r in READS)',
            'no_record_yielded_twice':
                'all(sum(1 for y in Y for z in y if z is r) <= 1 for r in READS)',
            # ... with read-2 records never in the read-1 slot (the consumers count slot 0 as the read-1 record)
            'slot0_never_holds_a_read2':
                'all(implies(y[0] is not None, not y[0].is_read2) for y in Y)',
            'slot1_never_holds_a_read1':
                'all(implies(y[1] is not None, not y[1].is_read1) for y in Y)',
        },
        bounded='%d fetched records (symbolic flags and names)' % n,
        replay=mate_iter_replay,
    )


def mate_iter_replay(inputs, clause):
    """Replay through the real mate_iter on a synthetic BAM built from the model's records."""
    import os
    from pyvc import bamreplay as B
    from pyvc.contract import import_real
    import pysam
    ws = inputs.get('witness', {})
    reads = [B.witness_read(ws[k]) for k in sorted(ws) if k.startswith('r')]
    if not reads:
        return {'status': 'no-input', 'note': 'no witness records'}
    d = B.scratch('c12m_')
    try:
        path = os.path.join(d, 'in.bam')
        names = {}
        for i, r in enumerate(reads):
            r['query_name'] = names.setdefault(r.get('query_name'), 'q%d' % len(names))   # keeps name equalities
            r['reference_start'] = 100 + 10 * i
            r['reference_end'] = 150 + 10 * i
        B.write_bam(path, [('ctgA', 10000)], [('ctgA', r) for r in reads])
        fn = import_real(FB, 'mate_iter')
        with pysam.AlignmentFile(path) as al:
            pairs = [tuple(p) for p in fn(al, contig='ctgA')]
            al.reset()
            recs = list(al.fetch(contig='ctgA'))
        def key(r):
            return None if r is None else (r.query_name, r.flag, r.reference_start)
        failed = []
        for r in recs:
            n = sum(1 for p in pairs for z in p if z is not None and key(z) == key(r))
            if (not r.is_qcfail and not r.is_supplementary and n != 1) or n > 1:
                failed.append({'clause': 'each_record_yielded_exactly_once', 'record': key(r), 'times': n})
        for p in pairs:
            if p[0] is not None and p[0].is_read2:
                failed.append({'clause': 'slot0_never_holds_a_read2', 'pair': [key(p[0]), key(p[1])]})
            if p[1] is not None and p[1].is_read1:
                failed.append({'clause': 'slot1_never_holds_a_read1', 'pair': [key(p[0]), key(p[1])]})
        obs = {'outcome': 'return', 'value': [[key(a), key(b)] for a, b in pairs]}
        if failed:
            return {'status': 'confirmed', 'observed': obs, 'failed': failed}
        return {'status': 'not-reproduced', 'observed': obs}
    finally:
        B.cleanup(d)


UNITS += [mate_iter_unit(n) for n in (1, 2, 3)]


# ------------------------------------------------------------------------------ get_contig_size: the length of the contig IN THE FILE ASKED
# (count_fragments_binned clips its fetch window and its last bin with it; two BAM files may give the same contig name
# different lengths)
CLEN = z3.Function('contig_length_in_file', z3.StringSort(), z3.StringSort(), z3.IntSort())


def gcs_setup(eng):
    from pyvc.engine import Sym
    eng.spec_env['CLEN_OF'] = Builtin('CLEN_OF', lambda e, a, k, n: Sym(CLEN(z3.StringVal(a[0]), z3.StringVal(a[1])), INT))

    def bam(e, a, k, n):
        o = stubs.Obj('AlignmentFile', {'path': a[0]})
        o.vc_immutable = True
        return o
    stubs.STUBS['AlignmentFile'] = {
        'methods': {'__enter__': lambda e, o: o, '__exit__': lambda e, o, *a: None},
        'props': {'references': lambda e, o: ['chr1', 'chr2'],
                  'lengths': lambda e, o: [Sym(CLEN(z3.StringVal(o.attrs['path']), z3.StringVal(c)), INT) for c in ('chr1', 'chr2')]},
        'setters': {}}
    externals.EXTRA['pysam.AlignmentFile'] = bam


contig_size = Contract(
    PROP, FB + '::get_contig_size', name='get_contig_size[two files, same contig names]',
    harness='''
first = get_contig_size('a.bam', 'chr2')
second = get_contig_size('b.bam', 'chr2')
third = get_contig_size('b.bam', 'chr1')
missing = get_contig_size('a.bam', 'chrUn')
return (first, second, third, missing)
''',
    params={}, setup=gcs_setup,
    ensures={
        'the_length_recorded_in_the_header_of_the_file_asked':
            'result[0] == CLEN_OF("a.bam", "chr2") and result[1] == CLEN_OF("b.bam", "chr2") and result[2] == CLEN_OF("b.bam", "chr1")',
        'unknown_contig': 'result[3] is None',
    },
    raises={},
    bounded='two BAM files with two contigs each (symbolic lengths), four lookups',
    assumptions=['pysam.AlignmentFile header accessors through a stub'],
)
def gcs_replay(inputs, clause):
    """real get_contig_size on two header-only BAM files that give the same contig names different lengths"""
    import os
    from pyvc import bamreplay as B
    from pyvc.contract import import_real
    fn = import_real(FB, 'get_contig_size')
    d = B.scratch('c12s_')
    try:
        a, b = os.path.join(d, 'a.bam'), os.path.join(d, 'b.bam')
        B.write_bam(a, [('chr1', 1000), ('chr2', 2000)], [])
        B.write_bam(b, [('chr1', 1500), ('chr2', 2500)], [])
        got = [fn(a, 'chr2'), fn(b, 'chr2'), fn(b, 'chr1'), fn(a, 'chrUn')]
    finally:
        B.cleanup(d)
    want = [2000, 2500, 1500, None]
    obs = {'outcome': 'return', 'value': got, 'expected': want}
    return {'status': 'confirmed' if got != want else 'not-reproduced', 'observed': obs,
            'failed': [{'clause': clause}] if got != want else []}


contig_size.replay = gcs_replay
UNITS.append(contig_size)


# ------------------------------------------------------------------------------ obtain_counts: merging the per-job matrices
# "identical for every number of bins per job and every worker schedule": every cell of every job's matrix ends up in the
# merged matrix with its count, whatever order the workers finish in (bounded: two jobs; disjoint cells by lemma.disjoint_bins)
def oc_setup(eng):
    eng.ghost.clear()
    v = [named(INT, 'count_%d' % i) for i in range(4)]
    for x in v:
        eng.assume(x.z >= 1)
    s1, s2 = named(STR, 'sample_1'), named(STR, 'sample_2')
    eng.assume(s1.z != s2.z)
    # job A owns bins (chr1,0,100) and (chr1,100,200); job B owns (chr1,200,300) - and a second sample in its own bin only
    res = {'A': {('chr1', 0, 100): {s1: v[0]}, ('chr1', 100, 200): {s1: v[1], s2: v[2]}},
           'B': {('chr1', 200, 300): {s2: v[3]}}}
    eng.spec_env.update({'V': v, 'S1': s1, 'S2': s2})
    eng.spec_env['COUNT_FN'] = Builtin('count_function', lambda e, a, k, n: {b: dict(d) for b, d in res[a[0]].items()})

    def pool(e, a, k, n):
        o = stubs.Obj('Pool', {})
        o.vc_immutable = True
        return o

    def imap(e, o, fn, commands, *a, **k):
        cmds = list(commands)
        if e.branch(fresh(BOOL, 'second_job_finishes_first').z):      # any completion order
            cmds = cmds[::-1]
        return [e.call(fn, [c], {}) for c in cmds]
    stubs.STUBS['Pool'] = {'methods': {'__enter__': lambda e, o: o, '__exit__': lambda e, o, *a: None, 'imap_unordered': imap},
                           'props': {}, 'setters': {}}
    externals.EXTRA['multiprocessing.Pool'] = pool
    externals.EXTRA['datetime.datetime.now'] = lambda e, a, k, n: 'now'


obtain_counts = Contract(
    PROP, F + '::obtain_counts', name='obtain_counts[two jobs, any completion order]',
    params={'commands': ('const', ['A', 'B']), 'reference': 'none', 'live_update': ('const', False), 'show_n_cells': ('const', 4),
            'update_interval': ('const', 3), 'threads': ('const', 2), 'count_function': lambda e, n: e.spec_env['COUNT_FN'],
            'show_progress': ('const', False)},
    setup=oc_setup,
    ensures={
        'every_cell_of_every_job_is_in_the_merged_matrix':
            'result[("chr1", 0, 100)][S1] == V[0] and result[("chr1", 100, 200)][S1] == V[1] and '
            'result[("chr1", 100, 200)][S2] == V[2] and result[("chr1", 200, 300)][S2] == V[3]',
        'nothing_else': 'len(result) == 3 and sum([len(result[b]) for b in result]) == 4',
    },
    raises={},
    bounded='two jobs with 2 + 1 bins and two samples (symbolic counts and sample names), both completion orders',
    assumptions=['multiprocessing.Pool.imap_unordered yields the results of count_function in an arbitrary order (A6)'],
)
UNITS.append(obtain_counts)


# ------------------------------------------------------------------------------ generate_commands: one command per job, in the slots
# count_fragments_binned unpacks (the two functions agree on the tuple only by position)
def gc_setup(eng):
    eng.ghost.clear()
    eng.spec_env['GHOST'] = eng.ghost
    jobs = {'a.bam': [('chr1', 0, 200), ('chr1', 200, 400), ('chr2', 0, 200)], 'b.bam': [('chr1', 0, 200)]}
    eng.spec_env['JOBS'] = jobs
    eng.loader.call_hooks['singlecellmultiomics.bamProcessing.bamBinCounts.generate_jobs'] = \
        lambda e, f, a, k, n: list(jobs[k.get('alignments_path', a[0] if a else None)])

    # a job's interval may hold no alignment at all and still own sites (the site of a read lies up to a fragment away from it)
    def bam(e, a, k, n):
        o = Obj('JobBam', {})
        o.vc_immutable = True
        return o

    def count(e, o, *a, **k):
        c = fresh(INT, 'alignments_in_the_interval')
        e.assume(c.z >= 0)
        return c
    stubs.STUBS['JobBam'] = {'methods': {'__enter__': lambda e, o: o, '__exit__': lambda e, o, *a: None, 'count': count,
                                         'close': lambda e, o: None, 'fetch': lambda e, o, *a, **k: []}, 'props': {}, 'setters': {}}
    externals.EXTRA['pysam.AlignmentFile'] = bam


UNPACK = ('(lambda c: {"alignments_path": c[0], "bin_size": c[1], "max_fragment_size": c[2], "contig": c[3], "start": c[4], '
          '"end": c[5], "min_mq": c[6], "alt_spans": c[7], "key_tags": c[8], "dedup": c[9], "kwargs": c[10]})')
generate_commands = Contract(
    PROP, F + '::generate_commands', name='generate_commands',
    params={'alignments_path': ('const', ['a.bam', 'b.bam']), 'bin_size': 'int', 'bins_per_job': 'int', 'alt_spans': 'none',
            'min_mq': 'int', 'max_fragment_size': 'int', 'head': 'none', 'key_tags': ('const', ('DA',)), 'dedup': 'bool',
            'kwargs': ('const', {'ignore_mp': True}), 'skip_contigs': 'none'},
    cases=[{}, {'alignments_path': ('const', 'a.bam')}, {'skip_contigs': ('const', {'chr2'})}],
    setup=gc_setup,
    ensures={
        'one_command_per_job_of_every_file_in_order':
            '[(c[0], c[3], c[4], c[5]) for c in list(result)] == EXPECTED',
        'settings_in_the_slots_count_fragments_binned_unpacks':
            'all((lambda u: u["bin_size"] == bin_size and u["max_fragment_size"] == max_fragment_size and u["min_mq"] == min_mq and '
            'u["alt_spans"] is None and u["key_tags"] == ("DA",) and u["dedup"] == dedup and u["kwargs"] == {"ignore_mp": True})'
            '(%s(c)) for c in list(result))' % UNPACK,
    },
    raises={},
    bounded='two files with 3 + 1 jobs',
    assumptions=['generate_jobs through its own contract above (a fixed job list per file here)'],
)


def _gc_pre(eng, fr):
    paths = fr.env['alignments_path']
    paths = paths if isinstance(paths, list) else [paths]
    skip = fr.env['skip_contigs'] or set()
    eng.spec_env['EXPECTED'] = [(p, c, s, e) for p in paths for (c, s, e) in eng.spec_env['JOBS'][p] if c not in skip]


generate_commands.pre_state = _gc_pre
UNITS.append(generate_commands)


# ------------------------------------------------------------------------------ _generate_count_dict (the worker of get_binned_counts)
# one whole contig (no region limits, no custom filter): every pair yielded by mate_iter whose first slot holds a non-duplicate,
# non-rejected record adds exactly 1 to the cell (bin of its site, its sample); nothing else changes
def gcd_setup(eng):
    def pair(e, nm, a=None, k=None):
        r1 = stubs.make_read(e, nm + '_R1', tags=READ_TAGS)
        e.assume(zterm(r1.attrs['reference_start'], INT) >= 0)
        e.assume(zterm(r1.attrs['_vc_tags']['DS'][1], INT) >= 0)      # sites left of the contig start (CHIC at position 0/1) are outside
        e.spec_env['REC'] = r1
        has = fresh(BOOL, 'first_slot_filled')
        e.spec_env['HAS_R1'] = has
        return [r1 if e.branch(has.z) else None, None]
    eng.loader.call_hooks['singlecellmultiomics.bamProcessing.bamFunctions.mate_iter'] = \
        lambda e, f, a, k, n: stubs.ObjSeq(pair, 'pairs')
    eng.loader.call_hooks['singlecellmultiomics.bamProcessing.bamBinCounts.mate_iter'] = \
        lambda e, f, a, k, n: stubs.ObjSeq(pair, 'pairs')

    def bam(e, a, k, n):
        o = Obj('CountBam', {})
        o.vc_immutable = True
        return o
    stubs.STUBS['CountBam'] = {'methods': {'__enter__': lambda e, o: o, '__exit__': lambda e, o, *a: None}, 'props': {}, 'setters': {}}
    externals.EXTRA['pysam.AlignmentFile'] = bam


GCD_SITE = '(REC.get_tag("DS") if REC.has_tag("DS") else (REC.reference_end if REC.is_reverse else REC.reference_start))'
GCD_SAMPLE = '(REC.get_tag("SM") if REC.has_tag("SM") else "No_Sample")'
GCD_COUNTED = '(HAS_R1 and not REC.is_duplicate and not REC.is_qcfail)'
generate_count_dict = Contract(
    PROP, F + '::_generate_count_dict', name='_generate_count_dict[whole contig, default filter]',
    params={'args': ('tuple', ('const', 'in.bam'), 'int', 'str', 'none', 'none', 'none')},
    requires=['args[1] >= 1'],
    setup=gcd_setup,
    loops={0: LoopSpec(
        inv={}, must_exhaust=True,
        types={'cut_counts': ('symdict', [(STR, INT), (STR,)], INT, 0), 'i': 'frame'},
        body_post={
            'counted_once_in_the_bin_of_its_site_iff_it_passes': (
                'forall("c:str a s:str", dget(cut_counts, (c, a), s, 0) == dget(head(cut_counts, 0), (c, a), s, 0) + '
                '(1 if (%s and c == contig and a == bin_size * fdiv(%s, bin_size) and s == %s) else 0))'
                % (GCD_COUNTED, GCD_SITE, GCD_SAMPLE)),
        })},
    raises={},
    assumptions=['mate_iter through its own (bounded) units: pairs [R1 or None, R2]; DS tag a non-negative integer; '
                 'A3 int(site/bin_size) exact'],
)
UNITS.append(generate_count_dict)


# ------------------------------------------------------------------------------ get_binned_counts: one job per (contig, file), results added
def gbc_setup(eng):
    eng.ghost.clear()
    eng.ghost['jobs'] = []
    eng.spec_env['GHOST'] = eng.ghost
    n = {k: named(INT, 'count_%s' % k) for k in ('a1', 'a2', 'b1', 'c1')}
    for v in n.values():
        eng.assume(v.z >= 0)
    eng.spec_env['N'] = n
    per_job = {('x.bam', 'chr1'): {('chr1', 0): {'cellA': n['a1']}}, ('y.bam', 'chr1'): {('chr1', 0): {'cellA': n['a2'], 'cellB': n['b1']}},
               ('x.bam', 'chr2'): {('chr2', 0): {'cellA': n['c1']}}, ('y.bam', 'chr2'): {}}

    def worker(e, f, a, k, nn):
        job = a[0]
        e.ghost['jobs'].append(tuple(job))
        cc = externals.DefaultDict(externals.col_counter_factory)
        for key, cells in per_job[(job[0], job[2])].items():
            c = externals.CounterDict()
            c.update(cells)
            cc[key] = c
        return (cc, job[2], job[0])
    eng.loader.call_hooks['singlecellmultiomics.bamProcessing.bamBinCounts._generate_count_dict'] = worker

    class Sizes:
        def vc_getattr(self, e, attr, node=None):
            from pyvc.engine import BoundMethod
            return BoundMethod('keys', lambda e2, a, k: ['chr1', 'chr2'])
    eng.loader.call_hooks['singlecellmultiomics.bamProcessing.bamBinCounts.get_contig_sizes'] = lambda e, f, a, k, nn: Sizes()
    eng.loader.call_hooks['singlecellmultiomics.bamProcessing.bamFunctions.get_contig_sizes'] = lambda e, f, a, k, nn: Sizes()
    pool = Obj('Pool', {})
    pool.vc_immutable = True

    def imap(e, o, fn, jobs, *a, **k):
        return [e.call(fn, [j], {}) for j in e.iterate_concrete(jobs)]
    stubs.STUBS['Pool'] = {'methods': {'__enter__': lambda e, o: o, '__exit__': lambda e, o, *a: None, 'imap': imap}, 'props': {}, 'setters': {}}
    externals.EXTRA['multiprocessing.Pool'] = lambda e, a, k, nn: pool

    def frame(e, a, k, nn):
        o = Obj('Frame', {'T': a[0]})
        o.vc_immutable = True
        return o
    externals.EXTRA['pandas.DataFrame'] = frame


get_binned_counts = Contract(
    PROP, F + '::get_binned_counts', name='get_binned_counts[two files x two contigs]',
    params={'bams': ('const', ['x.bam', 'y.bam']), 'bin_size': 'int', 'regions': 'none', 'filter_function': 'none', 'n_threads': 'none'},
    requires=['bin_size >= 1'],
    setup=gbc_setup,
    ensures={
        'one_job_per_contig_and_file': 'sorted([(j[0], j[2]) for j in GHOST["jobs"]]) == '
                                       '[("x.bam", "chr1"), ("x.bam", "chr2"), ("y.bam", "chr1"), ("y.bam", "chr2")] and '
                                       'all(j[1] == bin_size and j[3] is None and j[4] is None and j[5] is None for j in GHOST["jobs"])',
        'counts_of_the_jobs_are_added_cell_by_cell':
            'result[("chr1", 0)]["cellA"] == N["a1"] + N["a2"] and result[("chr1", 0)]["cellB"] == N["b1"] and '
            'result[("chr2", 0)]["cellA"] == N["c1"] and len(result) == 2',
    },
    raises={},
    bounded='two BAM files, two contigs, symbolic counts',
    assumptions=['multiprocessing.Pool.imap applies the worker to every job in order (A4); _generate_count_dict through its own '
                 'contract above; pandas.DataFrame(...).T is the table of the dictionary (A4)'],
)
UNITS.append(get_binned_counts)


# ------------------------------------------------------------------------------ generate_jobs over several contigs (bounded, real code)
# the unit above verifies one arbitrary contig and assumes contigs are handled independently; here the real generator runs on
# header-only BAM files with several contigs of mixed lengths: every contig is tiled from 0 in steps of bin_size*bins_per_job
def generate_jobs_history(tier, seed):
    import itertools
    import json
    import os
    from pyvc import bamreplay as B
    from pyvc.contract import import_real
    fn = import_real(F, 'generate_jobs')
    n = 0
    d = B.scratch('c12g_')
    try:
        for lengths in ((7, 50), (50, 7), (13, 13, 100), (100, 5, 33), (1, 64)):
            contigs = [('ctg%d' % i, L) for i, L in enumerate(lengths)]
            path = os.path.join(d, 'h_%s.bam' % '_'.join(map(str, lengths)))
            B.write_bam(path, contigs, [])
            for b, m in itertools.product((1, 3, 8, 10), (1, 2, 5)):
                W = b * m
                want = [(c, j * W, (j + 1) * W) for c, L in contigs for j in range(-(-L // W))]
                try:
                    got = [tuple(x) for x in fn(path, b, m)]
                except Exception as e:      # noqa: BLE001
                    got = '%s: %s' % (type(e).__name__, e)
                n += 1
                if got != want:
                    out = os.environ.get('VERIF_OUT', '.')
                    os.makedirs(os.path.join(out, 'replays', PROP), exist_ok=True)
                    rp = 'replays/%s/generate_jobs_contigs.json' % PROP
                    json.dump({'property': PROP, 'obligation': '%s/generate_jobs[several contigs]' % PROP,
                               'replay': {'status': 'confirmed', 'contigs': contigs, 'bin_size': b, 'bins_per_job': m,
                                          'observed': got if isinstance(got, str) else [list(x) for x in got][:12],
                                          'expected': [list(x) for x in want][:12]}}, open(os.path.join(out, rp), 'w'), indent=1)
                    return {'result': 'violation', 'replay': rp, 'confirmed': True, 'calls': n}
    finally:
        B.cleanup(d)
    return {'result': 'clean', 'calls': n}


from pyvc.units import Bounded      # noqa: E402
UNITS.append(Bounded(PROP, 'generate_jobs[several contigs of mixed lengths, real header-only BAM files]', generate_jobs_history,
                     '5 contig lists (2-3 contigs, lengths 1..100) x bin size 1,3,8,10 x bins per job 1,2,5',
                     'exhaustive run of the real generator against the specification'))
