"""C19 - per-cell file splitting loses no record under handle limits and open failures."""
import z3

from pyvc.contract import Contract
from pyvc.engine import Obj, Builtin, PyRaise, fresh, named, BOOL, INT, REAL, STR
from pyvc import externals, stubs

PROP = 'C19'
LEVEL = 'proof'
FH = 'singlecellmultiomics/pyutils/handlelimiter.py'
PATH = 'cellA.fastq.gz'
OTHERS = ['cellB.fastq.gz', 'cellC.fastq.gz']

# ------------------------------------------------------------------------------ ghost file system
# content[path]: list of strings written (None: file does not exist); a handle appends on write.
# open(mode w/wb) truncates/creates, (a/ab) preserves; every open may instead fail (OSError, no effect) - any number
# of times, in any pattern: each call branches.


def fs_setup(eng):
    g = eng.ghost
    g.clear()
    g.update({'content': {}, 'live': 0, 'failed_with_no_other_handle_open': False, 'opens': []})

    def handle(path):
        o = Obj('FileHandle', {'path': path, 'is_open': True})
        return o

    def do_open(e, path, mode):
        fails = fresh(BOOL, 'open_fails')
        if e.branch(fails.z):
            if e.ghost['live'] == 0:
                e.ghost['failed_with_no_other_handle_open'] = True
            e.ghost['opens'].append((path, mode, 'EMFILE'))
            raise PyRaise('OSError', 'too many open files')
        if mode in ('w', 'wb', 'wt'):
            e.ghost['content'][path] = []
        elif e.ghost['content'].get(path) is None:
            e.ghost['content'][path] = []
        e.ghost['live'] += 1
        e.ghost['opens'].append((path, mode, 'ok'))
        return handle(path)

    def h_write(e, o, data):
        if not o.attrs['is_open']:
            raise PyRaise('ValueError', 'write to closed file')
        e.ghost['content'][o.attrs['path']].append(data)

    def h_close(e, o):
        if o.attrs['is_open']:
            o.attrs['is_open'] = False
            e.ghost['live'] -= 1
    stubs.STUBS['FileHandle'] = {'methods': {'write': h_write, 'close': h_close}, 'props': {}, 'setters': {}}
    externals.EXTRA['gzip.open'] = lambda e, a, k, n: do_open(e, a[0], a[1])
    externals.EXTRA['time.time'] = lambda e, a, k, n: fresh(REAL, 'now')
    eng.spec_env['open'] = Builtin('open', lambda e, a, k, n: do_open(e, a[0], a[1] if len(a) > 1 else 'r'))
    eng.spec_env['bytes'] = Builtin('bytes', lambda e, a, k, n: a[0])
    eng.spec_env['GHOST'] = g
    eng.spec_env['PATH'] = PATH


def limiter(n_others, seen_path):
    def mk(eng, name):
        g = eng.ghost
        handles = {}
        for i in range(n_others):
            p = OTHERS[i]
            g['content'][p] = [named(STR, 'old_%s' % p)]
            g['live'] += 1
            handles[p] = {'handle': Obj('FileHandle', {'path': p, 'is_open': True}), 'lastw': named(REAL, 'lastw_%d' % i)}
        seen = set(OTHERS[:n_others])
        if seen_path:
            seen.add(PATH)
            g['content'][PATH] = [named(STR, 'old_' + PATH)]
        else:
            g['content'][PATH] = None
        g['old_content'] = {k: (list(v) if v is not None else None) for k, v in g['content'].items()}
        info = eng.loader.classref(FH, 'HandleLimiter')
        return Obj('HandleLimiter', {'openHandles': handles, 'seen': seen, 'maxHandles': named(INT, 'maxHandles'),
                                     'pruneEvery': named(INT, 'pruneEvery'), 'pruneIntervalCounter': named(INT, 'counter'),
                                     'compressionLevel': 1}, info=info)
    return mk


CASES = []
for n in (0, 1, 2):
    for seen in (False, True):
        for method in (0, 1):
            CASES.append({'self': limiter(n, seen), 'method': ('const', method)})

APPENDS = '(PATH in old(self).seen or forceAppend)'      # evaluated on the entry snapshot below

write = Contract(
    PROP, FH + '::HandleLimiter.write', name='HandleLimiter.write',
    params={'self': limiter(0, False), 'path': ('const', PATH), 'string': 'str', 'method': ('const', 1), 'forceAppend': 'bool'},
    cases=CASES,
    requires=['self.maxHandles >= 1', 'self.pruneEvery >= 1', 'self.pruneIntervalCounter >= 0'],
    setup=fs_setup,
    pre_state=lambda eng, fr: eng.spec_env.update({'SEEN0': set(fr.env['self'].attrs['seen'])}),
    ensures={
        # the record is appended to its own file: earlier content survives when the file was written before (or append is
        # forced), a first write starts an empty file
        'record_appended_after_earlier_content':
            'implies(PATH in SEEN0 or forceAppend, GHOST["content"][PATH] == (GHOST["old_content"][PATH] or []) + [string])',
        'first_write_starts_the_file':
            'implies(not (PATH in SEEN0 or forceAppend), GHOST["content"][PATH] == [string])',
        'other_files_untouched':
            'all(GHOST["content"][p] == GHOST["old_content"][p] for p in GHOST["old_content"] if p != PATH)',
        'file_remembered_as_written': 'implies(not forceAppend, PATH in self.seen)',
        'every_registered_handle_is_usable':
            'all(("handle" in self.openHandles[p]) and self.openHandles[p]["handle"].is_open for p in self.openHandles)',
    },
    # an exception escapes only if opening the file failed while no other handle was open
    raises={'Exception': 'GHOST["failed_with_no_other_handle_open"]'},
    assumptions=['ghost file system: open(w/wb) truncates, open(a/ab) preserves, a failing open has no effect, write appends; '
                 'validity of multi-member gzip files is A4',
                 'the retry loop is unrolled completely (every path terminates within the unwinding bound, which is itself '
                 'checked): all sequences of open() failures are covered; the number of OTHER open handles is 0, 1 or 2 '
                 '(case split; the code only distinguishes "none" from "some")'],
)

UNITS = [write]


def write_replay(inputs, clause):
    """Real HandleLimiter in a scratch directory; gzip.open / open fail according to the failure pattern of the model."""
    import builtins
    import gzip
    import os
    import shutil
    import tempfile
    from pyvc.contract import import_real
    ghost = inputs.get('ghost', {}).get('GHOST', {})
    pattern = [o[2] for o in ghost.get('opens', [])]
    selfm = inputs['self']['attrs']
    n_others = len(selfm['openHandles'])
    seen_path = PATH in selfm['seen']
    method = inputs['method']
    cls = import_real(FH, 'HandleLimiter')
    mod = __import__('singlecellmultiomics.pyutils.handlelimiter', fromlist=['x'])
    d = tempfile.mkdtemp(prefix='c19_')
    real_gzip_open, real_open = gzip.open, builtins.open
    try:
        h = cls(maxHandles=max(1, int(selfm['maxHandles'])), pruneEvery=10 ** 9)
        full = lambda p: os.path.join(d, p)
        for p in OTHERS[:n_others]:
            h.write(full(p), 'old_%s\n' % p, method=method)
        if seen_path:
            h.write(full(PATH), 'old_%s\n' % PATH, method=method)
            h.openHandles.pop(full(PATH))['handle'].close()      # written before, currently not open (pruned)
        calls = []

        def failing(opener):
            def f(path, *a, **k):
                if str(path).startswith(d):
                    i = len(calls)
                    calls.append(path)
                    if i < len(pattern) and pattern[i] == 'EMFILE':
                        # odd attempts fail with ENFILE, even ones with EMFILE: the retry must not depend on the errno
                        raise OSError(23 if i % 2 == 0 else 24, 'Too many open files (injected)')
                return opener(path, *a, **k)
            return f
        mod.gzip.open = failing(real_gzip_open)
        builtins.open = failing(real_open)
        exc = None
        try:
            h.write(full(PATH), inputs['string'] + '\n', method=method, forceAppend=inputs['forceAppend'])
        except Exception as e:      # noqa
            exc = e
        finally:
            mod.gzip.open = real_gzip_open
            builtins.open = real_open
        remembered = full(PATH) in h.seen
        second_ok = None
        if exc is None and not inputs['forceAppend']:
            # consequence of forgetting the file: a later write after the handle was pruned must still append
            ent = h.openHandles.pop(full(PATH), None)
            if ent and 'handle' in ent:
                ent['handle'].close()
            try:
                h.write(full(PATH), 'second\n', method=method)
                second_ok = True
            except Exception:      # noqa
                second_ok = False
        h.close()

        def read(p):
            if not os.path.exists(full(p)):
                return None
            with (real_gzip_open(full(p), 'rt') if method == 1 else real_open(full(p))) as f:
                return f.read()
        others_alive = sum(1 for o in ghost.get('opens', []) if False)
        obs = {'outcome': 'raise' if exc else 'return', 'value': [type(exc).__name__, str(exc)] if exc else None,
               'open_calls': len(calls), 'failure_pattern': pattern, 'files': {p: read(p) for p in [PATH] + OTHERS[:n_others]}}
        failed = []
        if exc is not None and not ghost.get('failed_with_no_other_handle_open'):
            failed.append({'clause': 'raises.only', 'exception': type(exc).__name__,
                           'why': 'raised although the file could be opened once the other handles were closed'})
        if exc is None:
            old = ('old_%s\n' % PATH) if (seen_path or False) else ''
            expect = (old if (seen_path or inputs['forceAppend']) else '') + inputs['string'] + '\n'
            if second_ok:
                expect += 'second\n'
            if not inputs['forceAppend'] and not remembered:
                failed.append({'clause': 'file_remembered_as_written', 'why': 'path missing from HandleLimiter.seen after the write'})
            if read(PATH) != expect:
                failed.append({'clause': 'record_appended (after a prune and a second write)', 'expected': expect, 'got': read(PATH)})
        if failed:
            return {'status': 'confirmed', 'observed': obs, 'failed': failed}
        return {'status': 'not-reproduced', 'observed': obs}
    finally:
        gzip.open, builtins.open = real_gzip_open, real_open
        shutil.rmtree(d, ignore_errors=True)


write.replay = write_replay


# ------------------------------------------------------------------------------ prune / close
def limiter_n(n):
    def mk(eng, name):
        g = eng.ghost
        handles = {}
        for i in range(n):
            p = 'cell%d.fastq.gz' % i
            g['content'][p] = [named(STR, 'old_%s' % p)]
            g['live'] += 1
            handles[p] = {'handle': Obj('FileHandle', {'path': p, 'is_open': True}), 'lastw': named(REAL, 'lastw_%d' % i)}
        g['old_content'] = {k: list(v) for k, v in g['content'].items()}
        eng.spec_env['LASTW'] = {p: handles[p]['lastw'] for p in handles}
        eng.spec_env['HANDLES0'] = {p: handles[p]['handle'] for p in handles}
        info = eng.loader.classref(FH, 'HandleLimiter')
        return Obj('HandleLimiter', {'openHandles': handles, 'seen': set(handles), 'maxHandles': named(INT, 'maxHandles'),
                                     'pruneEvery': named(INT, 'pruneEvery'), 'pruneIntervalCounter': named(INT, 'counter'),
                                     'compressionLevel': 1}, info=info)
    return mk


prune = Contract(
    PROP, FH + '::HandleLimiter.prune', name='HandleLimiter.prune',
    params={'self': limiter_n(3)},
    cases=[{'self': limiter_n(n)} for n in (0, 1, 2, 3, 4)],
    requires=['self.maxHandles >= 0'],
    setup=fs_setup,
    ensures={
        'at_most_maxHandles_remain': 'len(self.openHandles) == min(len(HANDLES0), self.maxHandles)',
        'content_untouched': 'all(GHOST["content"][p] == GHOST["old_content"][p] for p in GHOST["old_content"])',
        'remaining_handles_are_open': 'all(self.openHandles[p]["handle"].is_open for p in self.openHandles)',
        'pruned_handles_are_closed': 'all(p in self.openHandles or not HANDLES0[p].is_open for p in HANDLES0)',
        # least recently written handles go first: every pruned handle was written no later than every kept one
        'least_recently_written_pruned_first':
            'all(implies(p not in self.openHandles and q in self.openHandles, LASTW[p] <= LASTW[q]) for p in HANDLES0 for q in HANDLES0)',
        'counter_reset': 'self.pruneIntervalCounter == 0',
    },
    raises={},
    bounded='0..4 open handles (symbolic write times and limits)',
)

close = Contract(
    PROP, FH + '::HandleLimiter.close', name='HandleLimiter.close',
    params={'self': limiter_n(3)},
    cases=[{'self': limiter_n(n)} for n in (0, 1, 2, 3)],
    setup=fs_setup,
    ensures={
        'no_handle_left': 'len(self.openHandles) == 0',
        'all_closed': 'all(not HANDLES0[p].is_open for p in HANDLES0)',
        'content_untouched': 'all(GHOST["content"][p] == GHOST["old_content"][p] for p in GHOST["old_content"])',
    },
    raises={},
    bounded='0..3 open handles',
)
UNITS += [prune, close]


def prune_replay(inputs, clause):
    """real HandleLimiter with n open gzip handles (write times from the counter-model) and the model's maxHandles: prune"""
    import os
    import shutil
    import tempfile
    from pyvc.contract import import_real
    HL = import_real(FH, 'HandleLimiter')
    a = inputs['self']['attrs']
    n, mx = len(a['openHandles']), int(a['maxHandles'])
    base = os.path.join(os.path.dirname(os.path.dirname(os.path.abspath(__file__))), '.scratch')
    os.makedirs(base, exist_ok=True)
    d = tempfile.mkdtemp(prefix='c19p_', dir=base)
    try:
        hl = HL(maxHandles=max(mx, 0), pruneEvery=10 ** 9)
        paths = []
        for i, (name, ent) in enumerate(sorted(a['openHandles'].items())):
            p = os.path.join(d, name)
            hl.write(p, 'x%d\n' % i, method=1)
            hl.openHandles[p]['lastw'] = float(ent['lastw']) if not isinstance(ent['lastw'], str) else float(i)
            paths.append(p)
        hl.maxHandles = mx
        hl.prune()
        left = sorted(hl.openHandles)
        still_open = [p for p in left if not hl.openHandles[p]['handle'].closed]
        obs = {'outcome': 'return', 'value': {'registered_after_prune': len(left), 'expected': min(n, mx), 'open_among_them': len(still_open)}}
        failed = []
        if len(left) != min(n, mx):
            failed.append({'clause': 'at_most_maxHandles_remain'})
        if len(still_open) != len(left):
            failed.append({'clause': 'remaining_handles_are_open'})
        hl.close()
        return {'status': 'confirmed' if failed else 'not-reproduced', 'observed': obs, 'failed': failed}
    finally:
        shutil.rmtree(d, ignore_errors=True)


prune.replay = prune_replay


# ------------------------------------------------------------------------------ HandleLimiter.__init__: per-instance state
fresh_state = Contract(
    PROP, FH + '::HandleLimiter', name='HandleLimiter.__init__[instances share no state]',
    harness='''
a = HandleLimiter()
b = HandleLimiter(maxHandles=3)
a.seen.add('x.fastq.gz')
a.openHandles['x.fastq.gz'] = {}
return (a, b)
''',
    params={},
    ensures={
        'a_new_limiter_has_seen_no_file_and_holds_no_handle': 'len(result[1].seen) == 0 and len(result[1].openHandles) == 0',
        'state_is_per_instance': '(result[0].seen is not result[1].seen) and (result[0].openHandles is not result[1].openHandles)',
        'limits_as_given': 'result[1].maxHandles == 3 and result[0].maxHandles == 32 and result[0].pruneIntervalCounter == 0',
    },
    raises={},
)
UNITS.append(fresh_state)


def extra_units():
    """one file per cell: FastqHandle.write routes every record to the file of its own cell (C01's units, re-verified here)"""
    from contracts import c01
    from pyvc.units import share
    return [share(u, PROP) for u in c01.UNITS if getattr(u, 'name', '').startswith('FastqHandle.write[one file per cell')]


# ------------------------------------------------------------------------------ split_bam_by_tag: one pass with a limit on open handles
# The per-cell BAM splitter works in passes: a pass writes the first max_handles values it meets and reports the others as
# waiting, the caller runs another pass for them.  One pass: every record of a value it reports done is in that value's file, in
# order; the values it could not open are reported waiting and not done (else they would never be written).
FSB = 'singlecellmultiomics/bamProcessing/bamSplitByTag.py'


def split_setup(eng):
    from pyvc import externals, stubs
    eng.ghost.clear()
    eng.ghost.update({'files': {}, 'closed': []})
    eng.spec_env['GHOST'] = eng.ghost
    values = ['cell A', 'cell B', 'cell A', 'cell C', 'cell B', 'cell D', 'cell A']      # raw tag values; file names get '_' for ' '
    recs = []
    for i, v in enumerate(values):
        o = Obj('SplitRead', {'i': i, 'value': v})
        o.vc_immutable = True
        recs.append(o)
    eng.spec_env['RECS'] = recs
    stubs.STUBS['SplitRead'] = {'methods': {'has_tag': lambda e, o, t: True, 'get_tag': lambda e, o, t: o.attrs['value']},
                                'props': {}, 'setters': {}}

    class Header:
        def vc_getattr(self, e, attr, node=None):
            from pyvc.engine import BoundMethod
            return BoundMethod('copy', lambda e2, a, k: 'HEADER')

    def opener(e, a, k, n):
        path, mode = a[0], (a[1] if len(a) > 1 else 'rb')
        if 'w' in mode:
            e.ghost['files'][path] = []
            fn = Obj('Bytes', {'text': path})
            return Obj('SplitOut', {'path': path, 'filename': fn})
        o = Obj('SplitIn', {})
        o.vc_immutable = True
        return o
    stubs.STUBS['SplitIn'] = {'methods': {'__iter__': lambda e, o: list(recs)}, 'props': {'header': lambda e, o: Header()}, 'setters': {}}
    stubs.STUBS['SplitOut'] = {'methods': {'write': lambda e, o, r: e.ghost['files'][o.attrs['path']].append(r.attrs['i']),
                                           'close': lambda e, o: e.ghost['closed'].append(o.attrs['path'])}, 'props': {}, 'setters': {}}
    stubs.STUBS['Bytes'] = {'methods': {'decode': lambda e, o, *a: o.attrs['text']}, 'props': {}, 'setters': {}}
    externals.EXTRA['pysam.AlignmentFile'] = opener
    externals.EXTRA['singlecellmultiomics.utils.path.get_valid_filename'] = lambda e, a, k, n: a[0].replace(' ', '_')
    eng.loader.call_hooks['singlecellmultiomics.utils.path.get_valid_filename'] = lambda e, f, a, k, n: a[0].replace(' ', '_')
    pool = Obj('Pool', {})
    pool.vc_immutable = True
    stubs.STUBS['Pool'] = {'methods': {'__enter__': lambda e, o: o, '__exit__': lambda e, o, *a: None,
                                       'imap_unordered': lambda e, o, fn, items: []}, 'props': {}, 'setters': {}}
    externals.EXTRA['multiprocessing.Pool'] = lambda e, a, k, n: pool


split_pass = Contract(
    PROP, FSB + '::split_bam_by_tag', name='split_bam_by_tag[one pass, 4 cells, at most 2 handles]',
    params={'input_bam_path': ('const', 'in.bam'), 'output_prefix': ('const', 'out_'), 'tag': ('const', 'SM'), 'head': 'none',
            'max_handles': ('const', 2), 'skip': ('const', set())},
    cases=[{}, {'skip': ('const', {'cell_A'})}],
    setup=split_setup,
    ensures={
        'files_hold_the_records_of_their_cell_in_order':
            'all(GHOST["files"].get("out_" + v + ".bam") == [r.i for r in RECS if r.value.replace(" ", "_") == v] for v in result[0])',
        'done_are_exactly_the_cells_with_a_file': 'sorted(["out_" + v + ".bam" for v in result[0]]) == sorted(list(GHOST["files"].keys()))',
        'postponed_cells_are_reported_waiting_and_not_done':
            'all(((r.value.replace(" ", "_") in result[0]) or (r.value.replace(" ", "_") in result[1]) or (r.value.replace(" ", "_") in skip)) for r in RECS) and '
            'all(not (v in result[0]) for v in result[1]) and all(not (v in skip) for v in result[0])',
        'the_limit_on_open_handles_is_kept': 'len(GHOST["files"]) <= 2',
        'every_opened_file_is_closed': 'sorted(GHOST["closed"]) == sorted(list(GHOST["files"].keys()))',
    },
    raises={},
    bounded='7 records of 4 cells, at most 2 handles; nothing skipped / one cell skipped (done in an earlier pass)',
    assumptions=['pysam.AlignmentFile reader/writer and the indexing pool through stubs (A4); get_valid_filename turns the blank of these names into an underscore'],
)
UNITS.append(split_pass)
