"""C13 - molecule consensus is the strict majority call and never reports a tie."""
import itertools

import z3

from pyvc.contract import Contract
from pyvc.engine import LoopSpec, Obj, Sym, Builtin, BoundMethod, fresh, named, BOOL, INT, STR
from pyvc import stubs

PROP = 'C13'
LEVEL = 'proof'
FS = 'singlecellmultiomics/utils/sequtils.py'
FM = 'singlecellmultiomics/molecule/molecule.py'
FF = 'singlecellmultiomics/fragment/fragment.py'

# ------------------------------------------------------------------------------ pick_best_base_call, any number of calls
pick_unbounded = Contract(
    PROP, FS + '::pick_best_base_call', name='pick_best_base_call[any number of calls]',
    params={'calls': ('seq', (STR, INT), 2)},
    requires=['forall(j, implies(0 <= j and j < seqlen(calls), calls[j][1] >= 0))', 'seqlen(calls) >= 1'],
    replay_args=lambda inputs: ([tuple(c) for c in inputs['calls']], {}),
    loops={0: LoopSpec(
        inv={'best_quality_is_an_upper_bound': 'forall(j, implies(0 <= j and j < k, calls[j][1] <= best_q))',
             'never_below_start': 'best_q >= -1 and iff(best_q == -1, k == 0)',
             # without a tie every call of the best quality seen so far names the best base
             'no_tie_means_unique_base': 'implies(not tie, forall(j, implies(0 <= j and j < k and calls[j][1] == best_q, calls[j][0] == best_base)))',
             'tie_flag_is_a_bool': 'tie == True or tie == False'},
        types={'best_base': STR})},
    ensures={
        # a base is reported only if its quality is strictly better than every call of a different base
        'reported_base_has_the_strictly_best_quality':
            'implies(result != ("N", 0), forall(j, implies(0 <= j and j < seqlen(calls), calls[j][1] < result[1] or '
            '(calls[j][1] == result[1] and calls[j][0] == result[0]))))',
    },
    raises={},
    assumptions=['phred qualities are >= 0; calls are (base, quality) tuples (None entries: bounded unit below)'],
)
pick_unbounded.pre_state = lambda eng, fr: None


# two calls, either may be None (the arity used by Fragment.get_consensus): complete specification
def call_param(none):
    def mk(eng, name):
        if none:
            return None
        q = named(INT, name + '.q')
        eng.assume(q.z >= 0)
        return (named(STR, name + '.base'), q)
    return mk


PICK2 = {
    'only_one_mate_covers': 'implies((a is None) != (b is None), result == (a if b is None else b))',
    'nothing_covers': 'implies(a is None and b is None, result == ("N", 0))',
    'higher_quality_mate_wins': 'implies(a is not None and b is not None and a[1] != b[1], result == (a if a[1] > b[1] else b))',
    'equal_quality_same_base': 'implies(a is not None and b is not None and a[1] == b[1] and a[0] == b[0], result == a)',
    'equal_quality_different_bases_is_a_tie': 'implies(a is not None and b is not None and a[1] == b[1] and a[0] != b[0], result == ("N", 0))',
}
pick2 = Contract(
    PROP, FS + '::pick_best_base_call', name='pick_best_base_call[two mates]',
    harness='return pick_best_base_call(a, b)',
    params={'a': call_param(False), 'b': call_param(False)},
    cases=[{}, {'a': call_param(True)}, {'b': call_param(True)}, {'a': call_param(True), 'b': call_param(True)}],
    ensures=PICK2, raises={},
)
for k in list(PICK2):
    # `a if cond else b` on tuples with symbolic cond is merged by the engine; None cases are concrete per case
    pass

UNITS = [pick_unbounded, pick2]


# ------------------------------------------------------------------------------ Molecule.get_consensus: majority per position
# n fragments x P positions; each fragment contributes at most one call per position: a base over ACGTN or no call.
def molecule_unit(n_frag, n_pos, order=None, duplicate=False, probs=False, single_end=False):
    def setup(eng):
        eng.ghost.clear()
        calls = []
        for f in range(n_frag):
            row = []
            for p in range(n_pos):
                present = named(BOOL, 'covers_%d_%d' % (f, p))
                base = named(STR, 'base_%d_%d' % (f, p))
                eng.assume(z3.Or(*[base.z == z3.StringVal(c) for c in 'ACGTN']))
                q = named(INT, 'q_%d_%d' % (f, p))
                eng.assume(q.z >= 0)
                row.append((present, base, q))
            calls.append(row)
        eng.spec_env['CALLS'] = calls
        eng.spec_env['NPOS'] = n_pos

        def frag_consensus(e, o, **kw):
            d = {}
            for p, (present, base, q) in enumerate(calls[o.attrs['i']]):
                if e.branch(present.z):
                    d[100 + p] = (base, q)
            return d
        stubs.STUBS['FragStub'] = {'methods': {'get_consensus': frag_consensus, 'has_R1': lambda e, o: True,
                                               'has_R2': lambda e, o: not single_end}, 'props': {}, 'setters': {}}
        idx = list(order) if order else list(range(n_frag))
        if duplicate:
            idx = idx + idx
        frags = []
        for i in idx:
            fo = Obj('FragStub', {'i': i})
            fo.vc_immutable = True
            frags.append(fo)
        eng.spec_env['FRAGS'] = frags

    def mol(eng, name):
        m = Obj('Molecule', {'fragments': eng.spec_env['FRAGS']}, info=eng.loader.classref(FM, 'Molecule'))
        return m
    COUNT = '(lambda p, b: sum([(1 if (CALLS[f][p][0] and CALLS[f][p][1] == b) else 0) for f in range(len(CALLS))]))'
    spec = {
        # the consensus base is called by strictly more fragments than any other base; ties and N-only positions are absent
        'strict_majority':
            'all(all(iff((100 + p) in result and result.get(100 + p) == b, '
            '%s(p, b) > 0 and all(%s(p, b) > %s(p, o) for o in "ACGT" if o != b)) for b in "ACGT") for p in range(NPOS))' % (COUNT, COUNT, COUNT),
        'N_is_never_reported': 'all(result[k] != "N" for k in result)',
        'only_covered_positions': 'all(k >= 100 and k < 100 + NPOS for k in result)',
    }
    tag = '%d fragments x %d positions%s%s%s' % (n_frag, n_pos, ', order %s' % (order,) if order else '', ', every fragment twice' if duplicate else '',
                                                ', single-end fragments' if single_end else '')
    params = {'self': mol}
    if probs:
        # the variant TAPS uses: (consensus, phred scores per base, observation vectors)
        tag += ', with_probs_and_obs'
        params['with_probs_and_obs'] = ('const', True)
        spec = {k: '(lambda result: %s)(result[0])' % v for k, v in spec.items()}
    return Contract(
        PROP, FM + '::Molecule.get_consensus', name='Molecule.get_consensus[%s]' % tag,
        params=params, setup=setup, ensures=spec, raises={},
        bounded=tag + ' (symbolic calls over ACGTN / no call)', max_paths=100000,
        assumptions=['numpy zeros/vstack/argmax/arange/boolean-mask indexing per the NumPy reference on small arrays; '
                     'Fragment.get_consensus gives one call per covered position (pick_best_base_call contract above)',
                     'insertion-order independence and invariance under duplication follow from the specification being a '
                     'function of the per-base counts: checked here by running permuted / duplicated fragment lists against the '
                     'same specification'],
    )


def _mol_pre(eng, fr):
    pass


UNITS += [molecule_unit(2, 1, single_end=True),      # fragments of one mate only vote like any other (default: no dove-safe window)
          molecule_unit(1, 2),      # a molecule of one fragment: nothing to vote on, N calls still absent
          molecule_unit(2, 1), molecule_unit(3, 1), molecule_unit(2, 2), molecule_unit(3, 1, order=(2, 0, 1)),
          molecule_unit(2, 1, duplicate=True),
          # four fragments: the smallest molecule with a plurality that is not an absolute majority (2:1:1)
          molecule_unit(4, 1),
          molecule_unit(2, 2, probs=True)]


def molecule_replay(order, duplicate, probs=False, single_end=False):
    def replay(inputs, clause):
        """real Molecule.get_consensus on stand-in fragments that return the model's per-position calls"""
        from pyvc.contract import import_real
        fn = import_real(FM, 'Molecule.get_consensus')
        calls = inputs.get('ghost', {}).get('CALLS')
        if not calls:
            return {'status': 'no-input', 'note': 'no calls in the model'}

        class Frag:
            def __init__(self, row):
                # insertion order of the dict = position order (the real code iterates .items())
                self.d = {100 + p: (b, q) for p, (cov, b, q) in enumerate(row) if cov}

            def get_consensus(self, **kw):
                return dict(self.d)

            def has_R1(self):
                return True

            def has_R2(self):
                return not single_end

        class Mol:
            def __init__(self, frags):
                self.frags = self.fragments = frags

            def __iter__(self):
                return iter(self.frags)

            def __len__(self):
                return len(self.frags)
        idx = list(order) if order else list(range(len(calls)))
        if duplicate:
            idx = idx + idx
        got = fn(Mol([Frag(calls[i]) for i in idx]), with_probs_and_obs=True)[0] if probs else fn(Mol([Frag(calls[i]) for i in idx]))
        npos = len(calls[0])
        expect = {}
        for p in range(npos):
            cnt = {b: sum(1 for i in idx if calls[i][p][0] and calls[i][p][1] == b) for b in 'ACGT'}
            best = max(cnt.values())
            winners = [b for b in 'ACGT' if cnt[b] == best]
            if best > 0 and len(winners) == 1:
                expect[100 + p] = winners[0]
        obs = {'outcome': 'return', 'value': {str(k): v for k, v in got.items()}, 'expected': {str(k): v for k, v in expect.items()},
               'calls': calls}
        if dict(got) != expect:
            return {'status': 'confirmed', 'observed': obs, 'failed': [{'clause': 'strict_majority'}]}
        return {'status': 'not-reproduced', 'observed': obs}
    return replay


for _u in UNITS:
    if _u.name.startswith('Molecule.get_consensus'):
        _u.replay = molecule_replay((2, 0, 1) if 'order' in _u.name else None, 'twice' in _u.name, 'with_probs' in _u.name,
                                    'single-end' in _u.name)


# ------------------------------------------------------------------------------ mate-overlap-safe window (also used by C14)
def dove_setup(eng):
    eng.ghost.clear()
    eng.ghost['windows'] = []
    eng.spec_env['GHOST'] = eng.ghost

    def rtc(e, f, args, kwargs, node):
        e.ghost['windows'].append((args[1], args[2]))
        return {}
    eng.loader.call_hooks['singlecellmultiomics.utils.sequtils.read_to_consensus_dict'] = rtc


def mate(n):
    def mk(eng, name):
        r = stubs.make_read(eng, name, tags={})
        r.attrs['is_read1'] = (n == 1)
        r.attrs['is_read2'] = (n == 2)
        return r
    return mk


dove = Contract(
    PROP, FS + '::get_consensus_dictionaries', name='get_consensus_dictionaries[dove_safe window]',
    params={'R1': mate(1), 'R2': mate(2), 'only_include_refbase': 'none', 'dove_safe': ('const', True),
            'dove_R2_distance': 'int', 'dove_R1_distance': 'int'},
    requires=['dove_R1_distance >= 0', 'dove_R2_distance >= 0'],
    setup=dove_setup,
    ensures={
        # both mates are restricted to the same window: from the start of the forward mate to the last base of the
        # reverse mate (inclusive bounds), shrunk by the requested distances
        'window_is_the_mate_overlap_safe_span':
            'GHOST["windows"] == [(w0, w1), (w0, w1)] where_w' ,
    },
    raises={'ValueError': 'R1.is_reverse == R2.is_reverse'},
)
dove.ensures = {
    'forward_R1': 'implies(not R1.is_reverse and R2.is_reverse, GHOST["windows"] == '
                  '[(R1.reference_start + dove_R1_distance, R2.reference_end - 1 - dove_R2_distance)] * 2)',
    'reverse_R1': 'implies(R1.is_reverse and not R2.is_reverse, GHOST["windows"] == '
                  '[(R2.reference_start + dove_R2_distance, R1.reference_end - 1 - dove_R1_distance)] * 2)',
}
UNITS.append(dove)


# ------------------------------------------------------------------------------ read_to_consensus_dict: every aligned base of the window
# is a call of the fragment - N included (an N read by the better mate must be able to veto the other mate's base)
QUALF = z3.Function('query_quality_at', z3.IntSort(), z3.IntSort())


def rtc_read(eng, name):
    from pyvc.engine import Sym
    pairs = []
    for i in range(2):
        q, r = named(INT, 'qpos%d' % i), named(INT, 'refpos%d' % i)
        rb = named(STR, 'refbase%d' % i)
        eng.assume(z3.And(q.z >= 0, r.z >= 0, z3.Length(rb.z) == 1))
        pairs.append((q, r, rb))
    eng.assume(z3.And(pairs[0][0].z < pairs[1][0].z, pairs[0][1].z < pairs[1][1].z))
    seq = named(STR, 'query_sequence')
    eng.assume(z3.Length(seq.z) > pairs[1][0].z)
    eng.spec_env['PAIRS'], eng.spec_env['SEQ'] = pairs, seq
    eng.spec_env['QUAL'] = Builtin('QUAL', lambda e, a, k, n: Sym(QUALF(a[0].z), INT))

    class Quals:
        def vc_getitem(self, e, idx, node=None):
            return Sym(QUALF(idx.z if isinstance(idx, Sym) else z3.IntVal(idx)), INT)
    r = stubs.make_read(eng, name, tags={}, closed=True, fields={'reference_name': lambda e, n: 'chr1', 'query_sequence': lambda e, n: seq,
                                                                 'query_qualities': lambda e, n: Quals()})
    stubs.STUBS['AlignedSegment']['methods']['get_aligned_pairs'] = lambda e, o, **k: list(pairs)
    return r


def _rtc_cond(i):
    return ('((start is None or PAIRS[%d][1] >= start) and (end is None or PAIRS[%d][1] <= end) and '
            '(min_phred_score is None or QUAL(PAIRS[%d][0]) >= min_phred_score) and '
            '(only_include_refbase is None or PAIRS[%d][2].upper() == only_include_refbase))' % (i, i, i, i))


read_to_consensus = Contract(
    PROP, FS + '::read_to_consensus_dict', name='read_to_consensus_dict[2 aligned pairs]',
    params={'read': rtc_read, 'start': 'int', 'end': 'int', 'only_include_refbase': 'none', 'skip_first_n_cycles': 'none',
            'skip_last_n_cycles': 'none', 'min_phred_score': 'int'},
    cases=[{}, {'start': 'none', 'end': 'none', 'min_phred_score': 'none'}, {'only_include_refbase': ('const', 'C')}],
    ensures={
        'a_position_is_called_iff_it_passes_the_window_and_quality_filters':
            'all(any([k[1] == PAIRS[i][1] for k in result]) == %s for i in range(2))'.replace('%s', '[%s, %s][i]' % (_rtc_cond(0), _rtc_cond(1))),
        'the_call_is_the_read_base_with_its_quality_N_included':
            'all(implies(k[1] == PAIRS[i][1], result[k][0] == SEQ[PAIRS[i][0]] and result[k][1] == QUAL(PAIRS[i][0]) and '
            'result[k][2] == PAIRS[i][2]) for k in result for i in range(2))',
        'nothing_else_is_called': 'all(k[0] == "chr1" and (k[1] == PAIRS[0][1] or k[1] == PAIRS[1][1]) for k in result) and len(result) <= 2',
    },
    raises={},
    bounded='two aligned (query position, reference position, reference base) pairs with symbolic values; no cycle skipping',
    assumptions=['pysam get_aligned_pairs(matches_only, with_seq) through a stub; query_qualities an arbitrary function of the position'],
)
UNITS.append(read_to_consensus)


# ------------------------------------------------------------------------------ get_consensus_dictionaries without the overlap-safe window:
# a single-end fragment (or one whose mate is missing) still votes - with all its aligned bases
no_window = Contract(
    PROP, FS + '::get_consensus_dictionaries', name='get_consensus_dictionaries[no window: single-end fragments vote]',
    params={'R1': mate(1), 'R2': 'none', 'only_include_refbase': 'none', 'dove_safe': ('const', False),
            'dove_R2_distance': ('const', 0), 'dove_R1_distance': ('const', 0)},
    cases=[{}, {'R2': mate(2)}, {'R1': 'none', 'R2': mate(2)}],
    setup=dove_setup,
    ensures={'both_mates_are_read_without_a_window': 'GHOST["windows"] == [(None, None), (None, None)]'},
    raises={},
    assumptions=['read_to_consensus_dict recorded with its window arguments (its own unit above)'],
)
UNITS.append(no_window)


# ------------------------------------------------------------------------------ Fragment.get_consensus: one call per covered position,
# the better of the two mates (pick_best_base_call) - positions covered by one mate only included
FFRAG = 'singlecellmultiomics/fragment/fragment.py'


def fc_setup(eng):
    eng.ghost.clear()
    mk = lambda nm: (named(STR, nm + '_base'), named(INT, nm + '_qual'))
    r1 = {10: mk('r1_10'), 11: mk('r1_11')}
    r2 = {11: mk('r2_11'), 12: mk('r2_12')}
    eng.spec_env['R1C'], eng.spec_env['R2C'] = r1, r2
    eng.spec_env['GHOST'] = eng.ghost

    def dictionaries(e, f, a, k, n):
        e.ghost['dict_args'] = (list(a), dict(k))
        return (dict(r1), dict(r2))
    for q in ('singlecellmultiomics.utils.sequtils.get_consensus_dictionaries', 'singlecellmultiomics.fragment.fragment.get_consensus_dictionaries'):
        eng.loader.call_hooks[q] = dictionaries
    for q in ('singlecellmultiomics.utils.sequtils.pick_best_base_call', 'singlecellmultiomics.fragment.fragment.pick_best_base_call'):
        eng.loader.call_hooks[q] = lambda e, f, a, k, n: ('best of', a[0], a[1])


def fc_fragment(eng):
    """a fragment of two mapped mates in any orientation and any relative position (overlapping, apart, past each other)"""
    from pyvc import stubs as _st
    from pyvc.engine import Obj as _Obj, fresh as _fresh
    rs = []
    for nm in ('R1', 'R2'):
        r = _st.make_read(eng, nm, tags={}, mapped=True, closed=True)
        rs.append(r)
    return _Obj('Fragment', {'reads': rs}, info=eng.loader.classref(FFRAG, 'Fragment'))


fragment_consensus = Contract(
    PROP, FFRAG + '::Fragment.get_consensus', name='Fragment.get_consensus[both mates, overlapping in one position]',
    params={'self': lambda e, n: fc_fragment(e), 'only_include_refbase': 'none', 'dove_safe': 'bool'},
    setup=fc_setup,
    ensures={
        # the mate-overlap-safe restriction (and the reference-base filter) asked for is the one applied, for every pair of mates
        'the_mates_and_the_restrictions_are_handed_on_unchanged':
            '(GHOST["dict_args"][0][0] is self.reads[0]) and (GHOST["dict_args"][0][1] is self.reads[1]) and '
            'GHOST["dict_args"][1]["dove_safe"] == dove_safe and GHOST["dict_args"][1]["only_include_refbase"] is None',
        'every_position_covered_by_either_mate_gets_one_call': 'sorted(list(result.keys())) == [10, 11, 12]',
        'the_call_is_the_better_of_the_two_mates':
            'result[10] == ("best of", R1C[10], None) and result[11] == ("best of", R1C[11], R2C[11]) and result[12] == ("best of", None, R2C[12])',
    },
    raises={},
    bounded='mate 1 covers positions 10-11, mate 2 covers 11-12 (symbolic calls)',
    assumptions=['get_consensus_dictionaries and pick_best_base_call through recording stubs (their own units above)'],
)
UNITS.append(fragment_consensus)


# one mate without any call (single-end fragment, unmapped or fully clipped mate): every call still goes through
# pick_best_base_call, so that the molecule receives (base, quality) pairs of the same shape
def fc_setup_single(which):
    def setup(eng):
        fc_setup(eng)
        r1 = dict(eng.spec_env['R1C']) if which == 1 else {}
        r2 = dict(eng.spec_env['R2C']) if which == 2 else {}
        for q in ('singlecellmultiomics.utils.sequtils.get_consensus_dictionaries', 'singlecellmultiomics.fragment.fragment.get_consensus_dictionaries'):
            eng.loader.call_hooks[q] = lambda e, f, a, k, n: (dict(r1), dict(r2))
    return setup


import copy as _copy13      # noqa: E402
for _w, _spec in ((1, 'sorted(list(result.keys())) == [10, 11] and result[10] == ("best of", R1C[10], None) and result[11] == ("best of", R1C[11], None)'),
                  (2, 'sorted(list(result.keys())) == [11, 12] and result[11] == ("best of", None, R2C[11]) and result[12] == ("best of", None, R2C[12])')):
    _u = _copy13.copy(fragment_consensus)
    _u.name = 'Fragment.get_consensus[only mate %d has calls]' % _w
    _u.setup = fc_setup_single(_w)
    _u.ensures = {'every_call_of_the_only_mate_goes_through_the_same_selection': _spec}
    _u.bounded = 'mate %d covers two positions, the other mate none' % _w
    UNITS.append(_u)
