"""C09 - cut-site coordinates are correct and strand-symmetric."""
import z3

from pyvc.contract import Contract
from pyvc.engine import named, INT, BOOL, STR
from pyvc.units import Lemma
from pyvc import stubs

PROP = 'C09'
LEVEL = 'proof'
FN = 'singlecellmultiomics/fragment/nlaIII.py'
FC = 'singlecellmultiomics/fragment/chic.py'


def cigar(n):
    def mk(eng, name):
        ops = []
        for i in range(n):
            op, ln = named(INT, '%s[%d].op' % (name, i)), named(INT, '%s[%d].len' % (name, i))
            eng.assume(z3.And(op.z >= 0, op.z <= 8, ln.z >= 1))
            ops.append((op, ln))
        return ops
    return mk


def r1(n_cigar, tags, absent=('RR', 'DS', 'RS', 'RZ')):
    def mk(eng, name):
        r = stubs.make_read(eng, name, tags=tags, fields={'seq': STR, 'cigartuples': cigar(n_cigar)},
                            absent_tags=absent)
        # pysam: query_alignment_sequence = the read bases without the soft-clipped ends (assumed contract, A4)
        from pyvc.engine import Sym
        seq, ops = r.attrs['seq'], r.attrs['cigartuples']
        left = z3.If(ops[0][0].z == 4, ops[0][1].z, 0)
        right = z3.If(ops[-1][0].z == 4, ops[-1][1].z, 0) if len(ops) > 1 else z3.IntVal(0)
        eng.assume(left + right <= z3.Length(seq.z))
        r.attrs['query_alignment_sequence'] = Sym(z3.SubString(seq.z, left, z3.Length(seq.z) - left - right), STR)
        r.attrs['query_sequence'] = seq
        return r
    return mk


def r2(eng, name):
    return stubs.make_read(eng, name, tags={}, free_unmapped=True, absent_tags=('RR', 'DS', 'RS', 'RZ'))


R1 = 'self.reads[0]'
CLIP_L = '(%s.cigartuples[0][1] if (not self.no_umi_cigar_processing and %s.cigartuples[0][0] == 4) else 0)' % (R1, R1)
CLIP_R = '(%s.cigartuples[-1][1] if (not self.no_umi_cigar_processing and %s.cigartuples[-1][0] == 4) else 0)' % (R1, R1)

# A7: alignments start and end with an M or S operation; a one-operation CIGAR is a match
WELLFORMED_CIGAR = ('(%s.cigartuples[0][0] == 0 or %s.cigartuples[0][0] == 4) and (%s.cigartuples[-1][0] == 0 or '
                    '%s.cigartuples[-1][0] == 4) and (len(%s.cigartuples) > 1 or %s.cigartuples[0][0] == 0)' % ((R1,) * 6))

# ------------------------------------------------------------------------------ NlaIII
FWD_EXACT = '%s.seq[:4] == "CATG"' % R1
REV_EXACT = '%s.seq[-4:] == "CATG"' % R1
# a read that lost its first sequenced base: forward reads start with ATG; reverse reads are stored reverse
# complemented, so they END with CAT
FWD_SHIFT = '(self.allow_cycle_shift and %s.seq[:3] == "ATG")' % R1
REV_SHIFT = '(self.allow_cycle_shift and %s.seq[-3:] == "CAT")' % R1
NLA_ACCEPT = '((%s or %s) if not %s.is_reverse else (%s or %s))' % (FWD_EXACT, FWD_SHIFT, R1, REV_EXACT, REV_SHIFT)


def nla_self(n_cigar):
    return ('obj', 'NlaIIIFragment', {
        'reads': ('tuple', r1(n_cigar, {}), 'none'), 'meta': ('const', {}), 'no_overhang': ('const', False),
        'check_motif': ('const', True), 'allow_cycle_shift': 'bool', 'no_umi_cigar_processing': 'bool',
        'invert_strand': 'bool', 'found_valid_site': ('const', False), 'reference': 'none',
        'cut_location_offset': ('const', -4)}, FN)


def nla_pre(eng, fr):
    s = fr.env['self']
    s.attrs['reads'] = list(s.attrs['reads'])
    s.attrs['meta'] = {}


nla_site = Contract(
    PROP, FN + '::NlaIIIFragment.identify_site', name='NlaIIIFragment.identify_site',
    params={'self': nla_self(3)},
    cases=[{}, {'self': nla_self(1)}],
    pre_state=nla_pre,
    requires=['len(%s.seq) >= 8' % R1, WELLFORMED_CIGAR],
    setup=lambda eng: None,
    ensures={
        # a fragment is given a site iff the motif is at the start of read 1 (5' end: first bases of a forward read,
        # last bases of a reverse read as stored)
        'accepted_iff_motif_at_read_start': 'self.found_valid_site == %s' % NLA_ACCEPT,
        # the site is the reference coordinate of the recognised CATG, soft-clipped bases at the read start included
        'site_forward': 'implies(not %s.is_reverse and %s, %s.get_tag("DS") == %s.reference_start - %s)'
                        % (R1, FWD_EXACT, R1, R1, CLIP_L),
        'site_reverse': 'implies(%s.is_reverse and %s, %s.get_tag("DS") == %s.reference_end + %s - 4)'
                        % (R1, REV_EXACT, R1, R1, CLIP_R),
        'site_forward_cycle_shifted': 'implies(not %s.is_reverse and not %s and %s, %s.get_tag("DS") == %s.reference_start - %s - 1)'
                                      % (R1, FWD_EXACT, FWD_SHIFT, R1, R1, CLIP_L),
        'site_reverse_cycle_shifted': 'implies(%s.is_reverse and not %s and %s, %s.get_tag("DS") == %s.reference_end + %s - 3)'
                                      % (R1, REV_EXACT, REV_SHIFT, R1, R1, CLIP_R),
        'accepted_has_site_and_strand_tags': 'implies(%s, %s.has_tag("DS") and %s.get_tag("RS") == (%s.is_reverse != self.invert_strand))'
                                             % (NLA_ACCEPT, R1, R1, R1),
        'rejected_is_qcfail_and_has_no_site': 'implies(not %s, %s.is_qcfail and not %s.has_tag("DS"))' % (NLA_ACCEPT, R1, R1),
    },
    raises={},
    assumptions=['A7 reads are at least 8 nt and carry no RR/DS/RS/RZ tag yet; R2 absent (identify_site does not use it)',
                 'pysam AlignedSegment stub: cigartuples first/last entries, seq, reference_start/end independent fields'],
)


# ------------------------------------------------------------------------------ CHIC
def chic_self(n_cigar, with_r2):
    return ('obj', 'CHICFragment', {
        'reads': ('tuple', r1(n_cigar, {'MX': STR, 'lh': STR}), r2 if with_r2 else 'none'), 'meta': ('const', {}),
        'invert_strand': 'bool', 'no_umi_cigar_processing': 'bool', 'found_valid_site': ('const', False),
        'ligation_motif': 'none'}, FC)


TRIMMED = '(%s.has_tag("MX") and %s.get_tag("MX")[:6] == "scCHIC")' % (R1, R1)
R2X = 'self.reads[1]'
CHIC_ACCEPT = '(%s is None or %s.is_unmapped or (%s.is_reverse != %s.is_reverse))' % (R2X, R2X, R1, R2X)

chic_site = Contract(
    PROP, FC + '::CHICFragment.identify_site', name='CHICFragment.identify_site',
    params={'self': chic_self(3, True)},
    cases=[{}, {'self': chic_self(1, True)}, {'self': chic_self(3, False)}, {'self': chic_self(1, False)}],
    pre_state=nla_pre,
    requires=[WELLFORMED_CIGAR],
    setup=lambda eng: None,
    ensures={
        'valid_iff_mates_point_inwards': 'self.found_valid_site == %s' % CHIC_ACCEPT,
        # site = base adjacent to the ligated overhang; the trimmed layout has lost the ligated base, the untrimmed
        # one still starts with it (alignment starts one base earlier)
        'site_forward_trimmed': 'implies(%s and %s and not %s.is_reverse, %s.get_tag("DS") == %s.reference_start - %s - 2)'
                                % (CHIC_ACCEPT, TRIMMED, R1, R1, R1, CLIP_L),
        'site_reverse_trimmed': 'implies(%s and %s and %s.is_reverse, %s.get_tag("DS") == %s.reference_end + %s + 1)'
                                % (CHIC_ACCEPT, TRIMMED, R1, R1, R1, CLIP_R),
        'site_forward_untrimmed': 'implies(%s and not %s and not %s.is_reverse, %s.get_tag("DS") == %s.reference_start - %s - 1)'
                                  % (CHIC_ACCEPT, TRIMMED, R1, R1, R1, CLIP_L),
        'site_reverse_untrimmed': 'implies(%s and not %s and %s.is_reverse, %s.get_tag("DS") == %s.reference_end + %s)'
                                  % (CHIC_ACCEPT, TRIMMED, R1, R1, R1, CLIP_R),
        'invert_strand_only_flips_the_strand_tag': 'implies(%s, %s.get_tag("RS") == (%s.is_reverse != self.invert_strand))'
                                                   % (CHIC_ACCEPT, R1, R1),
        'rejected_has_no_site': 'implies(not %s, not %s.has_tag("DS"))' % (CHIC_ACCEPT, R1),
    },
    raises={},
    assumptions=['R1 mapped (an unmapped / missing R1 is rejected before any site logic); reads carry no RR/DS/RS/RZ tag yet'],
)


def lemma_chic():
    s, c, L, e = z3.Ints('s c L e')
    out = []
    # mirror(p) = L - 1 - p ; a forward read (start s, leading clip c) is, on the other strand, a reverse read with
    # reference_end L - s and trailing clip c
    out.append(('mirror_trimmed', [c >= 0], (L - s) + c + 1 == L - 1 - (s - c - 2)))
    out.append(('mirror_untrimmed', [c >= 0], (L - s) + c == L - 1 - (s - c - 1)))
    # the untrimmed read still contains the ligated base: its alignment starts one base earlier / ends one base later
    out.append(('trimmed_and_untrimmed_layouts_agree_forward', [c >= 0], (s - 1) - c - 1 == s - c - 2))
    out.append(('trimmed_and_untrimmed_layouts_agree_reverse', [c >= 0], (e + 1) + c == e + c + 1))
    return out


def lemma_nla():
    s, c, L = z3.Ints('s c L')
    return [('mirror_exact', [c >= 0], (L - s) + c - 4 == L - 4 - (s - c)),
            # shifted read: forward starts at p+1 (C lost), site p = s - c - 1; mirrored: reverse read ending at
            # (L - s), the lost base is the one after its end, site = end + c - 3
            ('mirror_cycle_shifted', [c >= 0], (L - s) + c - 3 == L - 4 - (s - c - 1))]


UNITS = [nla_site, chic_site, Lemma(PROP, 'lemma.nla_mirror', lemma_nla), Lemma(PROP, 'lemma.chic_mirror', lemma_chic)]


# ------------------------------------------------------------------------------ replay on real pysam records
def _real_r1(w, header):
    """Real AlignedSegment realising the witness: first/last cigar op, first 4 / last 4 bases, start, strand, tags."""
    import pysam
    from pyvc import bamreplay as B
    a = w['attrs']
    cig = [tuple(x) for x in a['cigartuples']]
    seq = a['seq']
    clean = ''.join(ch if ch in 'ACGTN' else 'N' for ch in seq)
    head, tail = clean[:4], clean[-4:]
    first, last = cig[0], cig[-1]
    if len(cig) == 1:
        if first[0] != 0:
            return None           # a read consisting of one non-M operation cannot be built
        ops = [(0, 30)]
    else:
        def lim(op):
            return (op[0], min(op[1], 12))
        f, l = lim(first), lim(last)
        if f[0] not in (0, 4) or l[0] not in (0, 4):
            return None
        ops = [f, (0, 30), l]
        if (f[1], l[1]) != (first[1], last[1]):
            return None           # keep the model's clip lengths exactly
    qlen = sum(n for op, n in ops if op in (0, 1, 4, 7, 8))
    if qlen < 8:
        return None
    # the model's own start coordinate (the contig start included); only starts beyond the scratch contig are replaced
    st = a.get('reference_start')
    st = int(st) if isinstance(st, int) and 0 <= st < 90000 else 1000
    r = {'query_sequence': head + 'A' * (qlen - 8) + tail, 'cigartuples': ops, 'reference_start': st,
         'reference_end': st + sum(n for op, n in ops if op in (0, 2, 3, 7, 8)), 'mapping_quality': 60,
         'is_reverse': a['is_reverse'], 'is_read1': True, 'is_paired': False,
         'tags': {t: v for t, (p, v) in a.get('_vc_tags', {}).items() if p and v is not None}}
    seg = B.make_segment(header, r, 'ctgA', 'q')
    return seg


def site_replay(kind):
    def replay(inputs, clause):
        import pysam
        from pyvc.contract import import_real
        s = inputs['self']['attrs']
        header = pysam.AlignmentHeader.from_dict({'HD': {'VN': '1.6'}, 'SQ': [{'SN': 'ctgA', 'LN': 100000}]})
        R1w = s['reads'][0]
        seg = _real_r1(R1w, header)
        if seg is None:
            return {'status': 'no-input', 'note': 'witness record cannot be realised as a pysam record'}
        seg.set_tag('SM', 'cell1')
        seg.set_tag('RX', 'ACG')
        R2 = None
        if len(s['reads']) > 1 and s['reads'][1] is not None:
            a2 = s['reads'][1]['attrs']
            from pyvc import bamreplay as B
            R2 = B.make_segment(header, {'reference_start': 1100, 'reference_end': 1130, 'is_reverse': a2['is_reverse'],
                                         'is_unmapped': a2['is_unmapped'], 'is_read2': True, 'mapping_quality': 60,
                                         'tags': {'SM': 'cell1', 'RX': 'ACG'}}, 'ctgA', 'q')
        clipL = seg.cigartuples[0][1] if (not s['no_umi_cigar_processing'] and seg.cigartuples[0][0] == 4) else 0
        clipR = seg.cigartuples[-1][1] if (not s['no_umi_cigar_processing'] and seg.cigartuples[-1][0] == 4) else 0
        seq = seg.query_sequence
        rev = seg.is_reverse
        if kind == 'nla':
            cls = import_real(FN, 'NlaIIIFragment')
            f = cls([seg, R2], allow_cycle_shift=s['allow_cycle_shift'], no_umi_cigar_processing=s['no_umi_cigar_processing'],
                    invert_strand=s['invert_strand'])
            shift = s['allow_cycle_shift']
            if not rev:
                exact, sh = seq[:4] == 'CATG', shift and seq[:3] == 'ATG'
                site = seg.reference_start - clipL - (0 if exact else 1)
            else:
                exact, sh = seq[-4:] == 'CATG', shift and seq[-3:] == 'CAT'
                site = seg.reference_end + clipR - (4 if exact else 3)
            accept = exact or sh
        else:
            cls = import_real(FC, 'CHICFragment')
            f = cls([seg, R2], no_umi_cigar_processing=s['no_umi_cigar_processing'], invert_strand=s['invert_strand'])
            accept = R2 is None or R2.is_unmapped or (R2.is_reverse != rev)
            trimmed = seg.has_tag('MX') and seg.get_tag('MX').startswith('scCHIC')
            if not rev:
                site = seg.reference_start - clipL - (2 if trimmed else 1)
            else:
                site = seg.reference_end + clipR + (1 if trimmed else 0)
        got = {'found_valid_site': bool(f.found_valid_site), 'DS': seg.get_tag('DS') if seg.has_tag('DS') else None,
               'RS': seg.get_tag('RS') if seg.has_tag('RS') else None, 'qcfail': seg.is_qcfail}
        exp = {'found_valid_site': accept, 'DS': site if accept else None}
        obs = {'outcome': 'return', 'value': got, 'expected': exp,
               'record': {'seq': seq, 'cigar': seg.cigarstring, 'start': seg.reference_start, 'end': seg.reference_end,
                          'reverse': rev, 'tags': dict(seg.get_tags())}}
        failed = []
        if got['found_valid_site'] != accept:
            failed.append({'clause': 'accepted/valid iff', 'got': got['found_valid_site'], 'expected': accept})
        elif got['DS'] != exp['DS']:
            failed.append({'clause': 'site coordinate', 'got': got['DS'], 'expected': exp['DS']})
        elif accept and bool(got['RS']) != (rev != s['invert_strand']):
            failed.append({'clause': 'strand tag', 'got': got['RS']})
        if failed:
            return {'status': 'confirmed', 'observed': obs, 'failed': failed}
        return {'status': 'not-reproduced', 'observed': obs}
    return replay


nla_site.replay = site_replay('nla')
chic_site.replay = site_replay('chic')


# ------------------------------------------------------------------------------ Fragment.__init__: the homopolymer rejection is the same
# for a fragment and for its mirror image on the reverse-complemented reference (a run of A <-> T, C <-> G): both
# orientations of one cut are accepted or rejected together.  Block contract on the rejection test itself.
import ast as _ast      # noqa: E402
from pyvc import blocks as _blocks      # noqa: E402
from pyvc.engine import Obj as _Obj     # noqa: E402
FF = 'singlecellmultiomics/fragment/fragment.py'


def homopolymer_block(f):
    c = _blocks.find_nodes(f, lambda n: isinstance(n, _ast.If) and 'max_NUC_stretch' in _ast.unparse(n.test))
    return c[:1]


def hp_setup(eng):
    eng.ghost.clear()
    eng.ghost['rejected'] = []
    eng.spec_env['GHOST'] = eng.ghost
    eng.loader.call_hooks['singlecellmultiomics.fragment.fragment.Fragment.set_rejection_reason'] = \
        lambda e, f, a, k, n: e.ghost['rejected'].append(a[0])


def hp_self(eng, name):
    return _Obj('Fragment', {'max_NUC_stretch': 18, 'qcfail': False}, info=eng.loader.classref(FF, 'Fragment'))


def hp_read(eng, name):
    o = _Obj('ReadSeq', {'seq': named(STR, 'read_sequence')})
    o.vc_immutable = True
    return o


RUN = lambda b: '(("%s" * 18) in read.seq)' % b
homopolymer = Contract(
    PROP, FF + '::Fragment.__init__', name='Fragment.__init__[homopolymer rejection is strand symmetric]',
    block=homopolymer_block,
    params={'self': hp_self, 'read': hp_read},
    setup=hp_setup,
    ensures={
        'rejected_iff_a_run_of_any_of_the_four_bases': 'self.qcfail == (%s or %s or %s or %s)' % (RUN('A'), RUN('C'), RUN('G'), RUN('T')),
        'rejection_reason_recorded_with_the_flag': '(GHOST["rejected"] == ["HomoPolymer"]) == self.qcfail',
        # mirror image: a run of X in the read is a run of complement(X) in the mirrored read
        'a_run_and_its_complement_are_treated_alike':
            'implies(%s or %s, self.qcfail) and implies(%s or %s, self.qcfail)' % (RUN('A'), RUN('T'), RUN('C'), RUN('G')),
    },
    raises={},
    assumptions=['max_NUC_stretch = 18 (the scCHIC setting); the block ends the read loop with `break` when it rejects'],
)
UNITS.append(homopolymer)
