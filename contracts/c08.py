"""C08 - parallel tagging is equivalent to serial tagging (the repository-side obligations; see DESIGN section 7)."""
import copy

import z3

from pyvc.contract import Contract
from pyvc.engine import LoopSpec, Obj, Sym, Builtin, PyRaise, fresh, named, BOOL, INT, STR
from pyvc import stubs, externals, blocks

PROP = 'C08'
LEVEL = 'proof'
FG = 'singlecellmultiomics/universalBamTagger/tagging.py'
FU = 'singlecellmultiomics/utils/binning.py'


# ------------------------------------------------------------------------------ run_tagging_task: ownership of a molecule
def task_setup(eng):
    g = eng.ghost
    g.clear()
    g.update({'written': []})
    eng.spec_env['GHOST'] = g
    externals.EXTRA['datetime.datetime.now'] = lambda e, a, k, n: 'now'
    eng.loader.call_hooks['singlecellmultiomics.universalBamTagger.tagging.prefetch'] = lambda e, f, a, k, n: a[5]

    def molecule(e, nm):
        has_site = named(BOOL, nm + '.has_site')
        site = (named(STR, nm + '.site_contig'), named(INT, nm + '.site'))
        e.spec_env['MOL_HAS_SITE'] = has_site
        e.spec_env['MOL_SITE'] = site
        frag = Obj('FragStub', {})
        frag.vc_immutable = True
        stubs.STUBS['FragStub'] = {'methods': {'get_site_location': lambda e2, o: site if e2.branch(has_site.z) else None,
                                               'get_read_group': lambda e2, o, *a: 'rg'}, 'props': {}, 'setters': {}}
        m = Obj('MolStub', {})
        m.vc_immutable = True
        e.spec_env['MOL'] = m
        return m
    stubs.STUBS['MolStub'] = {'methods': {'__iter__': lambda e, o: [Obj('FragStub', {})], 'set_meta': lambda e, o, *a: None,
                                          'write_tags': lambda e, o: None,
                                          'write_pysam': lambda e, o, out, **k: e.ghost['written'].append(o)},
                              'props': {}, 'setters': {}}
    eng.spec_env['ITERATOR_CLASS'] = Builtin('molecule_iterator_class', lambda e, a, k, n: stubs.ObjSeq(molecule, 'molecules'))


def head_mark(eng, fr):
    eng.ghost['mark'] = len(eng.ghost['written'])


OWNED = ('(MOL_HAS_SITE and MOL_SITE[0] == contig and start <= MOL_SITE[1] and MOL_SITE[1] < end)')
NEW = 'GHOST["written"][GHOST["mark"]:]'
run_task = Contract(
    PROP, FG + '::run_tagging_task', name='run_tagging_task[region mode]',
    params={'alignments': ('const', 'alignments'), 'output': ('const', 'output'), 'contig': 'str', 'start': 'int', 'end': 'int',
            'fetch_start': 'int', 'fetch_end': 'int', 'molecule_iterator_class': lambda e, n: e.spec_env['ITERATOR_CLASS'],
            'molecule_iterator_args': ('const', None), 'read_groups': 'none', 'timeout_time': 'none',
            'enable_prefetch': ('const', True), 'consensus_mode': 'none', 'no_source_reads': ('const', False)},
    pre_state=lambda eng, fr: fr.env.update({'molecule_iterator_args': {}}),
    requires=['fetch_start <= start', 'start <= end', 'end <= fetch_end'],
    setup=task_setup,
    loops={1: LoopSpec(      # loop 0 is the argument check `for variable in (...)`
        inv={'count_matches_writes': 'total_molecules_written == len(GHOST["written"])'},
        types={'molecule': 'frame', 'fragment': 'frame', 'r': 'frame', 'cut_site_contig': 'frame', 'cut_site_pos': 'frame',
               'rgid': 'frame'},
        head_hook=head_mark,
        body_post={
            # each molecule is written by exactly the job whose bin contains its cut site (a molecule at or beyond
            # fetch_end ends the task: that path leaves the loop and writes nothing)
            'written_iff_its_site_lies_in_this_bin': 'iff(len(%s) == 1, %s)' % (NEW, OWNED),
            'never_written_twice': 'len(%s) <= 1' % NEW,
            'the_written_molecule_is_this_one': 'all(m is MOL for m in %s)' % NEW,
        })},
    ensures={'reported_count': 'result["total_molecules_written"] == len(GHOST["written"])'},
    raises={},
    assumptions=['the molecule iterator yields molecules in the order of their cut sites (A4, emission order of the mate-pair '
                 'iterator): after the first molecule with site >= fetch_end no owned molecule follows',
                 'a molecule\'s site is that of its first fragment that has one'],
)
UNITS = [run_task]


def run_task_replay(inputs, clause):
    """real run_tagging_task driven by a fake molecule iterator class: one molecule whose cut site is the counter-model's"""
    from pyvc.contract import import_real
    fn = import_real(FG, 'run_tagging_task')
    w = inputs.get('witness', {})
    mol = next((v for k, v in w.items() if isinstance(v, dict) and v.get('__obj__') == 'MolStub'), None)
    g = inputs.get('ghost', {})
    has_site, site = g.get('MOL_HAS_SITE', True), g.get('MOL_SITE', [inputs['contig'], inputs['start']])
    written = []

    class Frag:
        def get_site_location(self):
            return (site[0], int(site[1])) if has_site else None

        def get_read_group(self, *a):
            return 'rg'

    class Mol:
        def __iter__(self):
            return iter([Frag()])

        def set_meta(self, *a):
            pass

        def write_tags(self):
            pass

        def write_pysam(self, out, **k):
            written.append(self)

    def iterator_class(alignments, **k):
        return [Mol()]
    args = {k: inputs[k] for k in ('contig', 'start', 'end', 'fetch_start', 'fetch_end')}
    res = fn('alignments', 'output', molecule_iterator_class=iterator_class, molecule_iterator_args={}, enable_prefetch=False, **args)
    owned = bool(has_site and site[0] == inputs['contig'] and inputs['start'] <= int(site[1]) < inputs['end'])
    obs = {'outcome': 'return', 'value': {'written': len(written), 'reported': res['total_molecules_written'], 'owned': owned,
                                          'site': [site[0], site[1]] if has_site else None, **args}}
    if (len(written) == 1) != owned or res['total_molecules_written'] != len(written):
        return {'status': 'confirmed', 'observed': obs, 'failed': [{'clause': 'written_iff_its_site_lies_in_this_bin'}]}
    return {'status': 'not-reproduced', 'observed': obs}


run_task.replay = run_task_replay


# the same loop with a read-group dictionary: every record a job writes carries a read group the job declares
RGDEF = z3.Function('read_group_definition', z3.StringSort(), z3.StringSort())


def task_rg_setup(eng):
    task_setup(eng)
    eng.spec_env['RGDEF_OF'] = Builtin('RGDEF_OF', lambda e, a, k, n: Sym(RGDEF(a[0].z), STR))

    def molecule(e, nm):
        has_site = named(BOOL, nm + '.has_site')
        site = (named(STR, nm + '.site_contig'), named(INT, nm + '.site'))
        e.spec_env['MOL_HAS_SITE'], e.spec_env['MOL_SITE'] = has_site, site
        frs = [Obj('RgFrag', {'rg': named(STR, '%s.read_group_%d' % (nm, i))}) for i in range(2)]
        for f in frs:
            f.vc_immutable = True
        e.spec_env['FRAGS'] = frs
        stubs.STUBS['RgFrag'] = {'methods': {
            'get_site_location': lambda e2, o: site if e2.branch(has_site.z) else None,
            'get_read_group': lambda e2, o, with_attr_dict=False: (o.attrs['rg'], Sym(RGDEF(o.attrs['rg'].z), STR)) if with_attr_dict else o.attrs['rg']},
            'props': {}, 'setters': {}}
        m = Obj('MolStub2', {'frags': frs})
        m.vc_immutable = True
        e.spec_env['MOL'] = m
        return m
    stubs.STUBS['MolStub2'] = {'methods': {'__iter__': lambda e, o: list(o.attrs['frags']), 'set_meta': lambda e, o, *a: None,
                                           'write_tags': lambda e, o: None, '__getitem__': lambda e, o, i: o.attrs['frags'][i],
                                           'write_pysam': lambda e, o, out, **k: e.ghost['written'].append(o)},
                               'props': {}, 'setters': {}}
    eng.spec_env['ITERATOR_CLASS'] = Builtin('molecule_iterator_class', lambda e, a, k, n: stubs.ObjSeq(molecule, 'molecules'))


run_task_rg = copy.copy(run_task)
run_task_rg.name = 'run_tagging_task[region mode, read groups]'
run_task_rg.params = dict(run_task.params)
run_task_rg.params['read_groups'] = lambda e, n: {}
run_task_rg.setup = task_rg_setup
run_task_rg.replay = None
run_task_rg.loops = {1: LoopSpec(
    inv={'count_matches_writes': 'total_molecules_written == len(GHOST["written"])'},
    types={'molecule': 'frame', 'fragment': 'frame', 'r': 'frame', 'cut_site_contig': 'frame', 'cut_site_pos': 'frame',
           'rgid': 'frame', 'read_groups': ('symdict', [(STR,)], STR)},
    head_hook=head_mark,
    body_post={
        'read_group_of_every_fragment_of_a_written_molecule_is_declared':
            'implies(len(%s) == 1, all((f.rg in read_groups) for f in FRAGS))' % NEW,
        'declared_with_its_own_definition_unless_declared_before':
            'implies(len(%s) == 1, all(implies(not (f.rg in head(read_groups, 1)), read_groups[f.rg] == RGDEF_OF(f.rg)) for f in FRAGS))' % NEW,
        'declared_read_groups_are_never_removed': 'forall("g:str", implies(g in head(read_groups, 1), g in read_groups))',
    })}
run_task_rg.assumptions = list(run_task.assumptions) + ['fragment.get_read_group through a stub: (id, definition(id)); two fragments per molecule']
UNITS.append(run_task_rg)


def extra_units():
    """shared units: the tiling of C17 with the stronger margin clause this property needs (a fetch window extends by exactly
    the fragment size unless the region / a blacklisted interval is nearer), and the per-job accumulation of C05"""
    from contracts import c17, c05
    out = []
    bb = copy.copy(c17.blacklisted_binning)
    bb.prop = PROP
    bb.name = 'blacklisted_binning[margins]'
    margin = {
        'fetch_margin_is_the_fragment_size_or_the_gap_boundary':
            'yv[2] == max(entry(current, 1), yv[0] - fragment_size) and yv[3] == min(start, yv[1] + fragment_size)'}
    cases = []
    for cs in c17.blacklisted_binning.cases:
        cs = dict(cs)
        if '__yield_checks__' in cs:
            yc = dict(cs['__yield_checks__'])
            yc.update(margin)
            cs['__yield_checks__'] = yc
        cases.append(cs)
    bb.cases = cases
    # the same clause for the replay on the real generator (concrete blacklist): the gap a bin lies in is bounded by the
    # nearest blacklisted end at or before it and the nearest blacklisted start at or after it (or the region)
    bb.replay_ensures = dict(c17.blacklisted_binning.replay_ensures)
    bb.replay_ensures['fetch_margin_is_the_fragment_size_or_the_gap_boundary'] = (
        'fragment_size is None or all('
        'y[2] == max([y[0] - fragment_size, start_coord] + [b[1] for b in (blacklist or []) if b[1] <= y[0]]) and '
        'y[3] == min([y[1] + fragment_size, end_coord] + [b[0] for b in (blacklist or []) if b[0] >= y[1]]) for y in Y)')
    out.append(bb)
    for u in (c17.fill_range, c17.trim, c17.binning_contigs):
        v = copy.copy(u)
        v.prop = PROP
        out.append(v)
    rt = copy.copy(c05.run_tagging_tasks)
    rt.prop = PROP
    out.append(rt)
    # the parts the jobs wrote are all merged, however many there are (C20's merge_bams unit)
    from contracts import c20
    mb = copy.copy(c20.merge_bams)
    mb.prop = PROP
    out.append(mb)
    # contig-per-process mode: the job list of tag_multiome_multi_processing (every contig with reads in exactly one job)
    for u in c05.JOB_UNITS + [c05.contigs_with_reads]:
        v = copy.copy(u)
        v.prop = PROP
        out.append(v)
    return out


# ------------------------------------------------------------------------------ bp_chunked: every task lands in one chunk
def chunk_pre(eng, fr):
    jobs = fr.env['job_generator']
    p = fr.env['g_p']
    eng.assume(z3.And(p.z >= 0, p.z < jobs.n))
    eng.spec_env['X'] = jobs.get(p.z)[:2]
    eng.spec_env['JOBS'] = jobs


bp_chunked = Contract(
    PROP, FU + '::bp_chunked', name='bp_chunked',
    params={'job_generator': ('seq', (STR, INT, INT, INT, INT), 5), 'bp_per_job': 'int', 'g_p': 'int'},
    pre_state=chunk_pre,
    requires=['forall((i, j), implies(0 <= i and i < j and j < seqlen(job_generator), '
              'job_generator[i][0] != job_generator[j][0] or job_generator[i][1] != job_generator[j][1]))'],
    yields='checks-only',
    loops={0: LoopSpec(
        inv={'task_is_in_exactly_one_place': 'ycount() + bagcount(current_tasks) == (1 if g_p < k else 0)',
             'size_counter_nonnegative': 'bp_current >= 0'},
        types={'current_tasks': ('countbag', 'X')})},
    ensures={'every_task_is_emitted_in_exactly_one_chunk': 'ycount() == 1'},
    raises={},
    assumptions=['counting abstraction w.r.t. one arbitrary task (identified by contig and bin start; bins of a tiling are '
                 'distinct)'],
)
UNITS.append(bp_chunked)


# ------------------------------------------------------------------------------ generate_tasks: a job's bins become its task list unchanged
generate_tasks = Contract(
    PROP, FG + '::generate_tasks', name='generate_tasks',
    params={'input_bam_path': ('const', 'in.bam'), 'temp_folder': ('const', 'tmp'),
            'job_gen': lambda e, n: [[(named(STR, 'c0'), named(INT, 's0'), named(INT, 'e0'), named(INT, 'fs0'), named(INT, 'fe0')),
                                      (named(STR, 'c1'), named(INT, 's1'), named(INT, 'e1'), named(INT, 'fs1'), named(INT, 'fe1'))],
                                     [(named(STR, 'c2'), named(INT, 's2'), named(INT, 'e2'), named(INT, 'fs2'), named(INT, 'fe2'))]],
            'iteration_args': ('const', {'molecule_iterator_args': 'ARGS'}), 'additional_args': ('const', {'consensus_mode': None}),
            'max_time_per_segment': 'none'},
    ensures={
        'one_job_per_input_job_in_order': '(lambda result: len(result) == 2 and len(result[0][1]) == 2 and len(result[1][1]) == 1)(list(result))',
        'every_bin_keeps_its_owner_interval_and_its_fetch_window':
            '(lambda result: all(result[j][1][t]["contig"] == job_gen[j][t][0] and result[j][1][t]["start"] == job_gen[j][t][1] and '
            'result[j][1][t]["end"] == job_gen[j][t][2] and result[j][1][t]["fetch_start"] == job_gen[j][t][3] and '
            'result[j][1][t]["fetch_end"] == job_gen[j][t][4] for j in range(2) for t in range(len(job_gen[j]))))(list(result))',
        'job_header': '(lambda result: all(result[j][0] == ("in.bam", "tmp", None) for j in range(2)))(list(result))',
    },
    raises={},
    bounded='two jobs of 2 + 1 bins (symbolic coordinates)',
)
UNITS.append(generate_tasks)


# ------------------------------------------------------------------------------ which contigs the region tiling is asked for
# tag_multiome_multi_processing hands blacklisted_binning_contigs a whitelist; that function tests `contig in contig_whitelist`
# once per contig of the header, so what it receives has to answer every such test, again and again: exactly the contigs with
# reads that are not skipped.
FT = 'singlecellmultiomics/universalBamTagger/bamtagmultiome.py'


def _whitelist_block(f):
    import ast
    return blocks.find_nodes(f, lambda n: isinstance(n, ast.If) and "molecule_iterator_args.get('contig'" in ast.unparse(n.test)
                             and any(isinstance(x, ast.Name) and x.id == 'contig_whitelist' for x in ast.walk(n)))[:1]


def whitelist_setup(eng):
    eng.spec_env['WITH_READS'] = ['chrEmptyFirst', 'chr1', 'chr2', 'chr3']
    eng.loader.call_hooks['singlecellmultiomics.bamProcessing.bamFunctions.get_contigs_with_reads'] = \
        lambda e, f, a, k, n: list(e.spec_env['WITH_READS'])


whitelist = Contract(
    PROP, FT + '::tag_multiome_multi_processing', name='tag_multiome_multi_processing[contig whitelist of the region tiling]',
    block=_whitelist_block,
    params={'molecule_iterator_args': ('const', {}), 'input_bam_path': ('const', 'in.bam'), 'contig_blacklist': ('const', [])},
    cases=[{}, {'contig_blacklist': ('const', ['chr2'])}, {'molecule_iterator_args': ('const', {'contig': 'chr3'})}],
    setup=whitelist_setup,
    ensures={
        # asked in header order, twice each (the callee asks once per header contig; a second tiling asks again)
        'answers_every_membership_test_for_the_contigs_to_tile':
            'all(((c in contig_whitelist) == WANTED(c)) and ((c in contig_whitelist) == WANTED(c)) '
            'for c in ["chrEmptyFirst", "chr1", "chr2", "chr3", "chrNoReads"])',
    },
    raises={},
    bounded='four contigs with reads, one without; no skip list / one skipped contig / a single requested contig',
    assumptions=['get_contigs_with_reads through its own contract (C05): the contigs with reads, in header order'],
)


def _whitelist_pre(eng, fr):
    from pyvc.engine import Builtin
    args, bl = fr.env['molecule_iterator_args'], fr.env['contig_blacklist']
    want = [args['contig']] if args.get('contig') is not None else [c for c in eng.spec_env['WITH_READS'] if c not in bl]
    eng.spec_env['WANTED'] = Builtin('WANTED', lambda e, a, k, n: a[0] in want)


whitelist.pre_state = _whitelist_pre


def whitelist_replay(inputs, clause):
    """the real statements with the model's arguments; get_contigs_with_reads replaced by the list of the scenario"""
    from pyvc.blockreplay import run_block
    import importlib
    mod = importlib.import_module('singlecellmultiomics.universalBamTagger.bamtagmultiome')
    real = mod.get_contigs_with_reads
    mod.get_contigs_with_reads = lambda *a, **k: iter(['chrEmptyFirst', 'chr1', 'chr2', 'chr3'])
    try:
        args, bl = dict(inputs.get('molecule_iterator_args') or {}), list(inputs.get('contig_blacklist') or [])
        ys, final, exc = run_block(FT, 'tag_multiome_multi_processing', _whitelist_block,
                                   {'molecule_iterator_args': args, 'input_bam_path': 'in.bam', 'contig_blacklist': bl})
    finally:
        mod.get_contigs_with_reads = real
    if exc is not None:
        return {'status': 'confirmed', 'observed': {'outcome': 'raise', 'value': [type(exc).__name__, str(exc)]}, 'failed': [{'clause': clause}]}
    wl = final.get('contig_whitelist')
    want = [args['contig']] if args.get('contig') is not None else [c for c in ['chrEmptyFirst', 'chr1', 'chr2', 'chr3'] if c not in bl]
    asked = ['chrEmptyFirst', 'chr1', 'chr2', 'chr3', 'chrNoReads'] * 2
    got = [c in wl for c in asked]
    obs = {'outcome': 'return', 'value': {'type': type(wl).__name__, 'asked': asked, 'answers': got, 'expected': [c in want for c in asked]}}
    if got != [c in want for c in asked]:
        return {'status': 'confirmed', 'observed': obs, 'failed': [{'clause': clause}]}
    return {'status': 'not-reproduced', 'observed': obs}


whitelist.replay = whitelist_replay
UNITS.append(whitelist)


# ------------------------------------------------------------------------------ bp_chunked: a chunk, once handed out, stays as it was
# tag_multiome_multi_processing materialises the chunks (list(bp_chunked(...))) before it hands them to the workers: the
# counting contract above is about what is yielded at the moment of the yield; here the yielded lists are looked at after
# the generator has finished (bounded: five bins of one contig).
_FIVE = [('chr1', 0, 4, 0, 5), ('chr1', 4, 8, 3, 9), ('chr1', 8, 12, 7, 13), ('chr1', 12, 16, 11, 17), ('chr1', 16, 20, 15, 20)]


def _chunks_expected(bp):
    out, cur, n = [], [], 0
    for j in _FIVE:
        n += abs(j[2] - j[1])
        cur.append(j)
        if n >= bp:
            out.append(cur)
            cur, n = [], 0
    out.append(cur)
    return out


def chunk_list_unit(bp):
    return Contract(
        PROP, FU + '::bp_chunked', name='bp_chunked[chunks after the generator has finished, %d bp per job]' % bp,
        harness='''
chunks = list(bp_chunked(JOBS, BP))
return chunks
''',
        params={'JOBS': ('const', list(_FIVE)), 'BP': ('const', bp)},
        ensures={'every_chunk_still_holds_the_bins_it_was_yielded_with': 'result == EXPECTED'},
        pre_state=lambda eng, fr: eng.spec_env.update({'EXPECTED': _chunks_expected(bp)}),
        raises={},
        bounded='five bins of 4 bp on one contig, %d bp per job' % bp,
    )


UNITS += [chunk_list_unit(4), chunk_list_unit(8), chunk_list_unit(100)]


# ------------------------------------------------------------------------------ what the region tiling is asked for
# "fetch margins at least one fragment length": the tiler's contract (C17) guarantees windows extended by the fragment size it is
# GIVEN; tag_multiome_multi_processing has to give it the fragment size of the method, whatever the segment size is
def _tiling_call(f):
    import ast
    return blocks.find_nodes(f, lambda n: isinstance(n, ast.Assign) and isinstance(n.value, ast.Call)
                             and ast.unparse(n.value.func).endswith('blacklisted_binning_contigs'))[:1]


def tiling_setup(eng):
    eng.ghost.clear()
    eng.ghost['asked'] = None
    eng.spec_env['GHOST'] = eng.ghost
    eng.loader.call_hooks['singlecellmultiomics.bamProcessing.bamBinCounts.blacklisted_binning_contigs'] = \
        lambda e, f, a, k, n: (e.ghost.__setitem__('asked', dict(k)), [])[1]


tiling_call = Contract(
    PROP, FT + '::tag_multiome_multi_processing', name='tag_multiome_multi_processing[what the region tiling is asked for]',
    block=_tiling_call,
    params={'input_bam_path': ('const', 'in.bam'), 'bp_per_segment': 'int', 'fragment_size': 'int', 'blacklist_path': 'none',
            'contig_whitelist': ('const', ['chr1'])},
    requires=['bp_per_segment >= 1', 'fragment_size >= 0'],
    setup=tiling_setup,
    ensures={'the_fetch_margin_is_the_fragment_size_of_the_method_whatever_the_segment_size':
             'GHOST["asked"]["fragment_size"] == fragment_size and GHOST["asked"]["bin_size"] == bp_per_segment and '
             'GHOST["asked"]["contig_whitelist"] == ["chr1"] and GHOST["asked"]["contig_length_resource"] == "in.bam"'},
    raises={},
    assumptions=['blacklisted_binning_contigs through its own contract (C17): recorded with its arguments'],
)
UNITS.append(tiling_call)
