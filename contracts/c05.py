"""C05 - tagging conserves alignment records (repository side: job construction, task lists, write loops)."""
import z3

from pyvc.contract import Contract
from pyvc.engine import LoopSpec, SymSeq, GenResult, Obj, Sym, Builtin, named, fresh, INT, BOOL, STR
from pyvc import blocks, stubs, externals

PROP = 'C05'
LEVEL = 'proof'
FT = 'singlecellmultiomics/universalBamTagger/bamtagmultiome.py'


# ------------------------------------------------------------------------------ contig-per-process job construction
def jobs_setup(eng):
    def contigs(e, f, args, kwargs, node):
        return GenResult(e.spec_env['CONTIGS'])
    for q in ('singlecellmultiomics.bamProcessing.bamFunctions.get_contigs_with_reads',
              'singlecellmultiomics.universalBamTagger.bamtagmultiome.get_contigs_with_reads'):
        eng.loader.call_hooks[q] = contigs


def jobs_pre(key_from_list):
    def pre(eng, fr):
        cs = fr.env.pop('contigs')
        eng.spec_env['CONTIGS'] = cs
        fr.env.setdefault('contig_blacklist', [])        # no contig is skipped (default options)
        if key_from_list:
            p = fr.env['g_p']
            eng.assume(z3.And(p.z >= 0, p.z < cs.n))
            eng.spec_env['X'] = cs.get(p.z)[0]
        else:
            eng.spec_env['X'] = '*'
    return pre


DISTINCT = 'forall((i, j), implies(0 <= i and i < j and j < seqlen(CONTIGS), CONTIGS[i][0] != CONTIGS[j][0]))'
NONNEG = 'forall(j, implies(0 <= j and j < seqlen(CONTIGS), CONTIGS[j][1] >= 0))'


def jobs_contract(key_from_list):
    # X = an arbitrary contig with reads (case A) / the unmapped bin '*' when idxstats lists no '*' line (case B).
    # invariant: X has been put into the job list (or the pending small-contig group) exactly as often as it should
    seen = '(1 if (g_p < k) else 0)' if key_from_list else '0'
    star = '(1 if X == "*" else 0)' if key_from_list else '1'
    target = '(%s if X != "*" else 0) + %s' % (seen, star) if key_from_list else '1'
    return Contract(
        PROP, FT + '::tag_multiome_multi_processing',
        name='jobs.one_contig_per_process[%s]' % ('contig with reads' if key_from_list else 'unmapped bin'),
        block=lambda f: blocks.if_with_test(f, 'one_contig_per_process')[0].body if blocks.if_with_test(f, 'one_contig_per_process') else [],
        params={'input_bam_path': ('const', 'in.bam'), 'contigs': ('seq', (STR, INT), 2), 'g_p': 'int'},
        setup=jobs_setup, pre_state=jobs_pre(key_from_list),
        requires=[DISTINCT, NONNEG] + ([] if key_from_list else
                                      ['forall(j, implies(0 <= j and j < seqlen(CONTIGS), CONTIGS[j][0] != "*"))']),
        loops={0: LoopSpec(
            inv={'each_contig_once_so_far': 'bagcount(job_gen) + bagcount(current) == %s' % target,
                 'pending_group_is_flat': '0 <= bagcount(current) and bagcount(current) <= len(current)'},
            types={'job_gen': ('countbag', 'X'), 'current': ('countbag', 'X')})},
        ensures={
            # every contig with reads is processed by exactly one job, the unmapped bin '*' by exactly one job
            'every_contig_in_exactly_one_job': 'bagcount(job_gen) == 1',
        },
        raises={},
        assumptions=['get_contigs_with_reads yields each contig with reads once (distinct names; idxstats format, A4)',
                     'counting abstraction w.r.t. one arbitrary contig name X (sound for "exactly once" statements)'],
    )


UNITS = [jobs_contract(True), jobs_contract(False)]


def jobs_replay(inputs, clause):
    from pyvc.blockreplay import run_block
    contigs = [(c if c else 'ctg%d' % i, int(n)) for i, (c, n) in enumerate(inputs['contigs'])]
    names = [c for c, _ in contigs]
    if len(set(names)) != len(names):
        # keep distinctness (the model may leave names it does not care about equal to '')
        contigs = [('%s_%d' % (c, i) if names.count(c) > 1 and c != '*' else c, n) for i, (c, n) in enumerate(contigs)]
        names = [c for c, _ in contigs]
        if len(set(names)) != len(names):
            return {'status': 'no-input', 'note': 'candidate violates distinctness of contig names'}
    env = {'input_bam_path': 'in.bam', 'get_contigs_with_reads': lambda path, with_length=False: iter(contigs)}
    sel = lambda f: blocks.if_with_test(f, 'one_contig_per_process')[0].body
    ys, final, exc = run_block(FT, 'tag_multiome_multi_processing', sel, env)
    if exc is not None:
        return {'status': 'confirmed', 'observed': {'outcome': 'raise', 'value': [type(exc).__name__, str(exc)]},
                'failed': [{'clause': 'raises.only'}]}
    jobs = final.get('job_gen')
    flat = [t[0] for job in jobs for t in job]
    expected = sorted(set(names) | {'*'})
    obs = {'outcome': 'return', 'value': {'contigs': contigs, 'job_gen': [[t[0] for t in job] for job in jobs]}}
    bad = [c for c in expected if flat.count(c) != 1]
    if bad:
        return {'status': 'confirmed', 'observed': obs,
                'failed': [{'clause': 'every_contig_in_exactly_one_job', 'contig': c, 'times': flat.count(c)} for c in bad]}
    return {'status': 'not-reproduced', 'observed': obs}


for u in UNITS:
    u.replay = jobs_replay


# bounded siblings (concrete number of contigs, symbolic names and lengths): replayable witnesses for a failing
# inductive step of the unbounded contract above; labelled bounded, not counted as proved
def jobs_bounded(n):
    def pre(eng, fr):
        eng.spec_env['CONTIGS'] = fr.env.pop('contigs')

    def setup(eng):
        def contigs(e, f, args, kwargs, node):
            return list(e.spec_env['CONTIGS'])
        for q in ('singlecellmultiomics.bamProcessing.bamFunctions.get_contigs_with_reads',
                  'singlecellmultiomics.universalBamTagger.bamtagmultiome.get_contigs_with_reads'):
            eng.loader.call_hooks[q] = contigs
    COUNT = 'sum((1 if t[0] == %s else 0) for job in job_gen for t in job)'
    c = Contract(
        PROP, FT + '::tag_multiome_multi_processing', name='jobs.one_contig_per_process[%d contigs]' % n,
        block=lambda f: blocks.if_with_test(f, 'one_contig_per_process')[0].body if blocks.if_with_test(f, 'one_contig_per_process') else [],
        params={'input_bam_path': ('const', 'in.bam'), 'contigs': ('list', ('tuple', 'str', 'int'), n)},
        setup=setup, pre_state=pre,
        requires=['all(CONTIGS[i][0] != CONTIGS[j][0] for i in range(len(CONTIGS)) for j in range(i + 1, len(CONTIGS)))',
                  'all(c[1] >= 0 for c in CONTIGS)'],
        ensures={'every_contig_in_exactly_one_job': 'all(%s == 1 for c in CONTIGS)' % (COUNT % 'c[0]'),
                 'unmapped_bin_in_exactly_one_job': (COUNT % '"*"') + ' == 1'},
        raises={}, bounded='%d contigs with reads (symbolic names and lengths)' % n, replay=jobs_replay)
    return c


UNITS += [jobs_bounded(n) for n in (1, 2, 3, 4)]
JOB_UNITS = list(UNITS)


# ------------------------------------------------------------------------------ run_tagging_tasks: a job keeps its
# output file iff any of its tasks wrote a molecule (a discarded file loses every record written into it)
FG = 'singlecellmultiomics/universalBamTagger/tagging.py'


def rtt_setup(eng):
    from pyvc import externals, stubs
    from pyvc.engine import Obj, fresh, PyRaise, Sym
    def count(e, o, *a, **k):
        c = fresh(INT, 'records_overlapping_the_bin')      # any number, zero included: a bin may own sites no read overlaps
        e.assume(c.z >= 0)
        return c
    externals.EXTRA['pysam.AlignmentFile'] = lambda e, a, k, n: stubs.alignment_file(e, lambda *x: None, {'count': count})
    eng.ghost['ran'] = 0
    eng.spec_env['GHOST'] = eng.ghost
    externals.EXTRA['os.path.exists'] = lambda e, a, k, n: False
    externals.EXTRA['uuid.uuid4'] = lambda e, a, k, n: 'uuid'
    externals.EXTRA['os.remove'] = lambda e, a, k, n: None

    class Ctx:
        def vc_enter(self, e):
            o = Obj('OutputBam', {})
            o.vc_immutable = True
            return o

        def vc_exit(self, e, exc):
            return None
    eng.loader.call_hooks['singlecellmultiomics.bamProcessing.bamFunctions.sorted_bam_file'] = lambda e, f, a, k, n: Ctx()

    def task_stub(e, f, args, kwargs, node):
        w = fresh(INT, 'written')
        e.assume(w.z >= 0)
        t = fresh(BOOL, 'timeout')
        e.spec_env['LAST_WRITTEN'] = w
        e.spec_env['LAST_TIMEOUT'] = t
        e.ghost['ran'] = e.ghost['ran'] + 1
        if e.branch(t.z):
            raise PyRaise('TimeoutError')
        return {'total_molecules_written': w, 'time_start': None}
    eng.loader.call_hooks['singlecellmultiomics.universalBamTagger.tagging.run_tagging_task'] = task_stub


def rtt_args(eng, name):
    from pyvc import stubs
    from pyvc.engine import Obj
    def task(e, nm):
        d = {'contig': named(STR, nm + '.contig')}
        if e.branch(fresh(BOOL, 'region_task').z):      # a bin of the region tiling: owner interval and fetch window
            d.update({'start': named(INT, nm + '.start'), 'end': named(INT, nm + '.end'),
                      'fetch_start': named(INT, nm + '.fetch_start'), 'fetch_end': named(INT, nm + '.fetch_end')})
        return d
    tasks = stubs.ObjSeq(task, 'tasks')
    return (('in.bam', '/tmp/x', None), tasks)


run_tagging_tasks = Contract(
    PROP, FG + '::run_tagging_tasks', name='run_tagging_tasks',
    params={'args': rtt_args},
    setup=rtt_setup,
    loops={1: LoopSpec(      # loop 0 is the `while os.path.exists(target_file)` name-collision loop
        head_hook=lambda eng, fr: eng.spec_env.update({'LAST_TIMEOUT': True, 'LAST_WRITTEN': 0}),      # nothing ran yet in this iteration
        inv={'count_is_nonnegative': 'total_molecules >= 0',
             # whatever a bin looks like from outside (no read overlapping it ...), its task is run: only the task knows
             # which molecules it owns
             'every_task_so_far_was_run': 'GHOST["ran"] == k'},
        types={'timeout_tasks': 'frame', 'read_groups': 'frame', 'statistics': 'frame'},
        body_post={'total_accumulates_every_task': 'total_molecules == head(total_molecules, 1) + '
                                                   '(0 if LAST_TIMEOUT else LAST_WRITTEN)'})},
    ensures={
        'output_file_kept_iff_any_molecule_written': '(result[0] is not None) == (total_molecules > 0)',
        'reported_total': 'result[1]["total_molecules"] == total_molecules',
    },
    raises={},
    assumptions=['run_tagging_task returns the number of molecules it wrote (assumed contract at the call site) or raises '
                 'TimeoutError; uuid4 names do not collide; sorted_bam_file / AlignmentFile context managers: A4',
                 'timeout_tasks / read_groups bookkeeping lists are not part of this contract (frame)'],
)
UNITS.append(run_tagging_tasks)


def rtt_replay(inputs, clause):
    """Real run_tagging_tasks with its collaborators replaced by recording fakes; the failing iteration of the model
    (head total T, this task wrote w) is embedded in short task schedules."""
    import contextlib
    import os
    import tempfile
    from pyvc.contract import import_real
    import importlib
    mod = importlib.import_module('singlecellmultiomics.universalBamTagger.tagging')
    g = inputs.get('ghost', {})
    w = int(g.get('LAST_WRITTEN', 0) or 0)
    schedules = [[max(1, w), 0], [0, max(1, w)], [w, 0, 0], [1, 0], [2, 3]]
    saved = {k: getattr(mod, k) for k in ('run_tagging_task', 'AlignmentFile', 'sorted_bam_file', 'remove')}
    failed, tried = [], []
    try:
        for sched in schedules:
            counts = iter(sched)
            removed = []

            @contextlib.contextmanager
            def fake_sorted(path, **kw):
                open(path, 'w').close()
                yield object()

            class FakeAF:
                def __init__(self, *a, **k):
                    pass

                def __enter__(self):
                    return self

                def __exit__(self, *a):
                    return False
            mod.run_tagging_task = lambda *a, **k: {'total_molecules_written': next(counts)}
            mod.AlignmentFile = FakeAF
            mod.sorted_bam_file = fake_sorted
            mod.remove = lambda p: removed.append(p)
            with tempfile.TemporaryDirectory() as d:
                out, meta = mod.run_tagging_tasks((('in.bam', d, None), [{'i': i} for i in range(len(sched))]))
            tried.append({'written_per_task': sched, 'file_returned': out is not None, 'meta_total': meta['total_molecules']})
            if (out is not None) != (sum(sched) > 0) or meta['total_molecules'] != sum(sched):
                failed.append({'clause': 'output_file_kept_iff_any_molecule_written / reported_total', 'schedule': sched,
                               'file_returned': out is not None, 'meta_total': meta['total_molecules']})
    finally:
        for k, v in saved.items():
            setattr(mod, k, v)
    obs = {'outcome': 'return', 'value': tried}
    if failed:
        return {'status': 'confirmed', 'observed': obs, 'failed': failed}
    return {'status': 'not-reproduced', 'observed': obs}


run_tagging_tasks.replay = rtt_replay


# ------------------------------------------------------------------------------ single-process tagging: read groups
# "every record carries a read group that is declared in the header": the read group of every fragment of every molecule
# that is written must be in the read_groups dict handed to sorted_bam_file (which writes the header at exit; its own
# typestate is C20's unit).  One arbitrary molecule of two fragments with arbitrary (possibly different) read groups.
RGDEF = z3.Function('read_group_definition', z3.StringSort(), z3.StringSort())


def rg_setup(eng):
    from contracts import c20
    c20.common_setup(eng, ('closed', 'sorted', 'indexed'))
    eng.monitor = None
    eng.ghost['written'] = []
    eng.ghost['no_faults'] = True
    eng.spec_env['RGDEF_OF'] = Builtin('RGDEF_OF', lambda e, a, k, n: Sym(RGDEF(a[0].z), STR))

    def get_rg(e, o, with_attr_dict=False):
        g = o.attrs['rg']
        return (g, Sym(RGDEF(g.z), STR)) if with_attr_dict else g

    def mol(e, nm):
        frs = [Obj('FragStub', {'rg': named(STR, 'read_group_of_fragment_%d' % i)}) for i in range(2)]
        for f in frs:
            f.vc_immutable = True
        e.spec_env['FRAGS'] = frs
        o = Obj('MolStub', {'frags': frs})
        o.vc_immutable = True
        return o
    stubs.STUBS['FragStub'] = {'methods': {'get_read_group': get_rg}, 'props': {}, 'setters': {}}
    stubs.STUBS['MolStub'] = {'methods': {
        'set_meta': lambda e, o, *a: None, 'get_a_reference_id': lambda e, o: 'ref', 'write_tags': lambda e, o: None,
        'write_pysam': lambda e, o, out: e.ghost['written'].append(o),
        '__iter__': lambda e, o: list(o.attrs['frags']), '__getitem__': lambda e, o, i: o.attrs['frags'][i],
        '__len__': lambda e, o: 2}, 'props': {}, 'setters': {}}
    externals.EXTRA['itertools.chain'] = lambda e, a, k, n: stubs.ObjSeq(mol, 'molecules')


def rg_mol_iter(eng, name):
    return Builtin('molecule_iterator', lambda e, a, k, n: stubs.ObjSeq(lambda e2, nm: None, 'it'))


read_groups_unit = Contract(
    PROP, FT + '::tag_multiome_single_thread', name='tag_multiome_single_thread[read groups]',
    params={'input_bam_path': ('const', 'in.bam'), 'out_bam_path': ('const', 'out.bam'), 'molecule_iterator': rg_mol_iter,
            'molecule_iterator_args': ('const', None), 'consensus_model': 'none', 'consensus_model_args': ('const', None),
            'ignore_bam_issues': ('const', False), 'head': 'none', 'no_source_reads': ('const', False)},
    pre_state=lambda eng, fr: fr.env.update({'molecule_iterator_args': {'contig': None, 'start': None, 'end': None},
                                             'consensus_model_args': {}}),
    setup=rg_setup,
    loops={'enumerate(molecule_iterator_exec)': LoopSpec(
        inv={},
        types={'read_groups': ('symdict', [(STR,)], STR), 'rgid': 'frame', 'fragment': 'frame'},
        body_post={
            'read_group_of_every_fragment_of_the_molecule_is_declared': 'all((f.rg in read_groups) for f in FRAGS)',
            'declared_with_its_own_definition_unless_declared_before':
                'all(implies(not (f.rg in head(read_groups, 0)), read_groups[f.rg] == RGDEF_OF(f.rg)) for f in FRAGS)',
            'declared_read_groups_are_never_removed':
                'forall("g:str", implies(g in head(read_groups, 0), g in read_groups))',
        })},
    raises={},
    assumptions=['fragment.get_read_group() / get_read_group(True) through a stub: (id, definition(id)); molecules of two '
                 'fragments with arbitrary read groups (the registration loop treats each fragment independently)',
                 'sorted_bam_file writes the header from the dict object it was given (C20 unit covers its exit steps)',
                 'no failures injected here (failure paths: C20)'],
)
UNITS.append(read_groups_unit)


def extra_units():
    """"the output is coordinate sorted and indexed": sort_and_index returns only after a successful sort and index (C20's
    unit, re-verified under this property)"""
    from contracts import c20, c08
    from pyvc.units import share
    # ... and the multiprocess job loop declares the read group of every fragment it writes (C08's unit)
    # ... and the parts the workers wrote are all merged, whatever they hold (C20's merge_bams unit)
    # ... and a fragment is stored in exactly one molecule (its records are written once): C06's assignment units
    from contracts import c06
    assign = [share(u, PROP) for u in c06.UNITS if getattr(u, 'name', '').startswith('MoleculeIterator.assign_fragment')]
    # ... and every read group collected while writing is declared in the output header (C20's header units)
    rg = [share(c20.add_rg, PROP), share(c20.add_rg_existing, PROP)]
    return [share(c20.sort_and_index, PROP), share(c08.run_task_rg, PROP), share(c20.merge_bams, PROP)] + assign + rg


# ------------------------------------------------------------------------------ get_contigs_with_reads: which contigs get a job
# "any number of unmapped reads": a contig is listed iff the index statistics show records placed on it - mapped ones or
# unmapped mates placed next to their partner (bounded: two index lines, symbolic names and counts)
FBF = 'singlecellmultiomics/bamProcessing/bamFunctions.py'


def idx_setup(eng):
    from pyvc import segstr
    eng.ghost.clear()
    C, L, M, U, lines = [], [], [], [], []
    for i in range(2):
        c = segstr.register_atom(eng, named(STR, 'contig_%d' % i), ' \t\n\r\x0b\x0c')
        ln, m, u = named(INT, 'length_%d' % i), named(INT, 'mapped_%d' % i), named(INT, 'unmapped_%d' % i)
        eng.assume(z3.And(z3.Length(c.z) >= 1, ln.z >= 0, m.z >= 0, u.z >= 0))
        C.append(c); L.append(ln); M.append(m); U.append(u)      # noqa: E702
        lines += [c, '\t'] + segstr.parts_of(eng.to_str(ln)) + ['\t'] + segstr.parts_of(eng.to_str(m)) + ['\t'] + segstr.parts_of(eng.to_str(u)) + ['\n']
    eng.spec_env.update({'C': C, 'L': L, 'M': M, 'U': U})
    text = segstr.build(lines)
    externals.EXTRA['pysam.idxstats'] = lambda e, a, k, n: text


contigs_with_reads = Contract(
    PROP, FBF + '::get_contigs_with_reads', name='get_contigs_with_reads[2 index lines]',
    params={'bam_path': ('const', 'in.bam'), 'with_length': ('const', True)},
    setup=idx_setup,
    ensures={
        'every_contig_with_mapped_or_placed_unmapped_records_is_listed':
            'all(implies(M[i] > 0 or U[i] > 0, any([r[0] == C[i] and r[1] == L[i] for r in result])) for i in range(2))',
        'nothing_else_is_listed':
            'len(result) == (1 if (M[0] > 0 or U[0] > 0) else 0) + (1 if (M[1] > 0 or U[1] > 0) else 0)',
    },
    raises={},
    bounded='two lines of samtools idxstats output (symbolic contig names, lengths and counts) and the trailing empty line',
    assumptions=['pysam.idxstats returns "contig<TAB>length<TAB>mapped<TAB>unmapped" lines (A4)'],
)
UNITS.append(contigs_with_reads)


# ------------------------------------------------------------------------------ -method qflag: every record is its own fragment
# ReadIterator hands single records to the molecule iterator; Fragment.__init__ refuses a fragment whose first slot holds an
# un-failed read 2 ("Supply first R1 then R2").  For every primary record to come out of the tagger, the record must sit
# in the slot of its own mate number.
FIT = 'singlecellmultiomics/molecule/iterator.py'
FFR = 'singlecellmultiomics/fragment/fragment.py'


def ri_setup(eng):
    eng.ghost.clear()
    rec = stubs.make_read(eng, 'record', tags={}, closed=True, mapped=True, free_unmapped=True)
    eng.spec_env['REC'] = rec
    eng.spec_env['MORE'] = named(BOOL, 'iterator_has_a_record')

    def nxt(e, a, k, n):
        if e.branch(e.spec_env['MORE'].z):
            return rec
        from pyvc.engine import PyRaise
        raise PyRaise('StopIteration')
    eng.spec_env['NEXT'] = Builtin('next', nxt)


def ri_self(eng, name):
    it = Obj('RecordSource', {})
    it.vc_immutable = True
    return Obj('ReadIterator', {'iterator': it}, info=eng.loader.classref(FIT, 'ReadIterator'))


read_iterator = Contract(
    PROP, FIT + '::ReadIterator.__next__', name='ReadIterator.__next__[record in the slot of its mate number]',
    params={'self': ri_self},
    setup=ri_setup,
    pre_state=lambda eng, fr: fr.env.update({'next': eng.spec_env['NEXT']}),
    ensures={
        'a_read2_record_goes_to_the_second_slot': 'implies(REC.is_read2, result[0] is None and result[1] is REC)',
        'any_other_record_goes_to_the_first_slot': 'implies(not REC.is_read2, result[0] is REC and result[1] is None)',
    },
    raises={'StopIteration': 'not MORE'},
    assumptions=['the underlying pysam iterator yields every primary record once (A4)'],
)


def first_slot_block(f):
    c = blocks.find_nodes(f, lambda n: isinstance(n, __import__('ast').If) and __import__('ast').unparse(n.test) == 'i == 0')
    return c[:1]


def fs_read(eng, name):
    return stubs.make_read(eng, name, tags={}, closed=True, mapped=True, free_unmapped=True)


first_slot = Contract(
    PROP, FFR + '::Fragment.__init__', name='Fragment.__init__[what the first slot accepts]',
    block=first_slot_block,
    params={'self': ('obj', 'Fragment', {}, FFR), 'read': fs_read, 'i': 'int'},
    requires=['i == 0 or i == 1'],
    ensures={'mate_numbers_follow_the_slots': '(read.is_read1 == (i == 0)) and (read.is_read2 == (i == 1))'},
    # the constructor refuses exactly: an un-failed read 2 in the first slot
    raises={'ValueError': 'i == 0 and old(read).is_read2 and not old(read).is_qcfail'},
)
UNITS += [read_iterator, first_slot]


def qflag_replay(inputs, clause):
    """the real command line: bamtagmultiome -method qflag on the repository's paired-end test BAM; the tagged BAM must hold
    every primary record once"""
    import collections
    import importlib
    import io
    import os
    import shutil
    import sys
    import tempfile
    from contextlib import redirect_stdout, redirect_stderr
    import pysam
    from pyvc.loader import REPO
    if REPO not in sys.path:
        sys.path.insert(0, REPO)
    mod = importlib.import_module('singlecellmultiomics.universalBamTagger.bamtagmultiome')
    src = os.path.join(REPO, 'data', 'mini_nla_test.bam')
    if not os.path.exists(src):
        return {'status': 'no-input', 'note': 'test BAM data/mini_nla_test.bam not present'}
    base = os.path.join(os.path.dirname(os.path.dirname(os.path.abspath(__file__))), '.scratch')
    os.makedirs(base, exist_ok=True)
    d = tempfile.mkdtemp(prefix='c05q_', dir=base)
    try:
        out = os.path.join(d, 'out.bam')
        err = None
        try:
            with redirect_stdout(io.StringIO()), redirect_stderr(io.StringIO()):
                mod.run_multiome_tagging_cmd([src, '-method', 'qflag', '-o', out])
        except BaseException as e:      # noqa
            err = '%s: %s' % (type(e).__name__, e)
        key = lambda r: (r.query_name.split(';')[-1][-20:], r.is_read2, r.reference_start, r.cigarstring)
        want = collections.Counter((r.is_read2, r.reference_start, r.cigarstring) for r in pysam.AlignmentFile(src) if not (r.flag & 0x900))
        got = collections.Counter((r.is_read2, r.reference_start, r.cigarstring) for r in pysam.AlignmentFile(out)) if os.path.exists(out) else None
        status_path = out.replace('.bam', '.status.txt')
        obs = {'outcome': 'raise' if err else 'return', 'value': {'error': err, 'input_records': sum(want.values()),
                                                                  'output_records': sum(got.values()) if got is not None else None,
                                                                  'status': open(status_path).read().strip() if os.path.exists(status_path) else None}}
        if err or got != want:
            return {'status': 'confirmed', 'observed': obs, 'failed': [{'clause': clause, 'why': 'tagging with -method qflag does not conserve the records'}]}
        return {'status': 'not-reproduced', 'observed': obs}
    finally:
        shutil.rmtree(d, ignore_errors=True)


read_iterator.replay = qflag_replay


_extra_c05 = extra_units


def extra_units():      # noqa: F811
    """... and a molecule leaves the buffer exactly once, whichever pooling method (C07's ejection blocks)"""
    from contracts import c07
    from pyvc.units import share
    return _extra_c05() + [share(u, PROP) for u in (c07.pop0, c07.pop1)]


# ------------------------------------------------------------------------------ get_read_group_from_read: the read group written on a
# record (its id) is the one declared for it (the ID of the dictionary that goes into the header)
def rg_read(eng, name):
    return stubs.make_read(eng, name, tags={'Fc': STR, 'La': STR, 'LY': STR, 'SM': STR}, closed=True)


RG_ID = ('(read.get_tag("Fc") if read.has_tag("Fc") else "NONE") + "." + (read.get_tag("La") if read.has_tag("La") else "NONE") + "." + '
         '(read.get_tag("SM") if format == 0 else read.get_tag("LY"))')
read_group_of_read = Contract(
    PROP, FBF + '::get_read_group_from_read', name='get_read_group_from_read',
    params={'read': rg_read, 'format': ('const', 0), 'with_attr_dict': ('const', True)},
    cases=[{}, {'format': ('const', 1)}, {'with_attr_dict': ('const', False)}],
    requires=['read.has_tag("SM") if format == 0 else read.has_tag("LY")'],
    ensures={
        'id_is_flowcell_lane_sample': '(result[0] if with_attr_dict else result) == ' + RG_ID,
        'the_declared_group_carries_the_same_id':
            'implies(with_attr_dict, result[1]["ID"] == result[0] and result[1]["PU"] == result[0] and '
            'result[1]["SM"] == (read.get_tag("SM") if format == 0 else read.get_tag("LY")))',
    },
    raises={},
    assumptions=['pysam tag accessors through the record stub; the sample tag of the chosen format is present (set by the tagger)'],
)
UNITS.append(read_group_of_read)


# ------------------------------------------------------------------------------ the gate of MoleculeIterator.__iter__: what happens to a pair
# before assignment.  With default options nothing is skipped; an invalid fragment is emitted as a molecule of its own when
# rejects are kept (yield_invalid) and counted as deleted - never assigned - when they are not: "--no_rejects removes exactly
# the invalid fragments".
def _gate_block(f):
    import ast
    body = None
    for n in ast.walk(f):
        if isinstance(n, ast.For) and 'matePairIterator' in ast.unparse(n.iter):
            body = n.body
            break
    if body is None:
        return []
    out, started = [], False
    for st in body:
        src = ast.unparse(st)
        if not started and isinstance(st, ast.If) and 'skip_contigs' in ast.unparse(st.test):
            started = True
        if started:
            if isinstance(st, ast.Assign) and src.startswith('added = '):
                break
            out.append(st)
    return out


def gate_setup(eng):
    eng.ghost.clear()
    eng.ghost['made'] = []
    eng.spec_env['GHOST'] = eng.ghost
    valid = named(BOOL, 'fragment_is_valid')
    eng.spec_env['VALID'] = valid

    def frag_class(e, a, k, n):
        o = Obj('GateFragment', {'reads': a[0]})
        e.ghost['fragment'] = o
        return o

    def mol_class(e, a, k, n):
        o = Obj('GateMolecule', {'fragment': a[0], 'finalised': False})
        e.ghost['made'].append(o)
        return o
    stubs.STUBS['GateFragment'] = {'methods': {'is_valid': lambda e, o: valid}, 'props': {}, 'setters': {}}
    stubs.STUBS['GateMolecule'] = {'methods': {'__finalise__': lambda e, o: o.attrs.__setitem__('finalised', True)}, 'props': {}, 'setters': {}}
    eng.spec_env['FRAGCLS'] = Builtin('fragment_class', frag_class)
    eng.spec_env['MOLCLS'] = Builtin('molecule_class', mol_class)


def gate_self(eng, name):
    d = named(INT, 'deleted_before')
    eng.spec_env['DELETED0'] = d
    return Obj('MoleculeIterator', {'skip_contigs': set(), 'min_mapping_qual': None, 'perform_qflag': False,
                                    'fragment_class': eng.spec_env['FRAGCLS'], 'fragment_class_args': {},
                                    'molecule_class': eng.spec_env['MOLCLS'], 'molecule_class_args': {},
                                    'yield_invalid': named(BOOL, 'yield_invalid'),
                                    'every_fragment_as_molecule': named(BOOL, 'every_fragment_as_molecule'),
                                    'deleted_fragments': d},
               info=eng.loader.classref(FIT, 'MoleculeIterator'))


def gate_reads(eng, name):
    r1 = stubs.make_read(eng, 'R1', tags={}, closed=True)
    r2 = stubs.make_read(eng, 'R2', tags={}, closed=True)
    return [r1, r2]


gate = Contract(
    PROP, FIT + '::MoleculeIterator.__iter__', name='MoleculeIterator.__iter__[gate before assignment, default options]',
    block=_gate_block,
    params={'self': gate_self, 'reads': gate_reads, 'R1': lambda e, n: None, 'R2': lambda e, n: None},
    setup=gate_setup,
    yields=None,
    ensures={
        'the_fragment_is_built_from_the_pair': 'GHOST["fragment"].reads[0] is reads[0] and GHOST["fragment"].reads[1] is reads[1]',
        'an_invalid_fragment_is_emitted_alone_iff_rejects_are_kept':
            'implies(not VALID, len(Y) == (1 if self.yield_invalid else 0) and '
            'all(m.fragment is GHOST["fragment"] and m.finalised for m in Y) and '
            'self.deleted_fragments == DELETED0 + (0 if self.yield_invalid else 1))',
        'a_valid_fragment_is_neither_dropped_nor_counted_deleted_here':
            'implies(VALID, self.deleted_fragments == DELETED0 and len(Y) == (1 if self.every_fragment_as_molecule else 0) and '
            'all(m.fragment is GHOST["fragment"] and m.finalised for m in Y))',
    },
    raises={},
    assumptions=['default options: no skipped contigs, no mapping-quality threshold, no qflag digestion; fragment / molecule '
                 'classes through recording stubs (is_valid an arbitrary verdict)'],
)


def _gate_pre(eng, fr):
    fr.env['R1'], fr.env['R2'] = fr.env['reads'][0], fr.env['reads'][1]


gate.pre_state = _gate_pre
UNITS.append(gate)


# ------------------------------------------------------------------------------ --multiprocess means one contig per process
# the conservation units above cover the contig-per-process job list (every contig with reads in exactly one job, the unmapped bin
# first); the binned region mode skips molecules without a site.  run_multiome_tagging has to force the contig-per-process
# mode whenever --multiprocess is given, for every method.
def _mp_switch(f):
    import ast
    return blocks.find_nodes(f, lambda n: isinstance(n, ast.If) and ast.unparse(n.test).startswith('args.multiprocess')
                             and any(isinstance(x, ast.Assign) and ast.unparse(x.targets[0]) == 'one_contig_per_process' for x in n.body)
                             and 'assignment_radius' not in ast.unparse(n))[-1:]      # the unconditional one (an earlier one sits under -assignment_radius)


mp_switch = Contract(
    PROP, FT + '::run_multiome_tagging', name='run_multiome_tagging[--multiprocess forces one contig per process, every method]',
    block=_mp_switch,
    params={'args': lambda e, n: Obj('Namespace', {'multiprocess': named(BOOL, 'multiprocess'), 'method': named(STR, 'method'),
                                                   'assignment_radius': None})},
    pre_state=lambda eng, fr: fr.env.update({'one_contig_per_process': named(BOOL, 'one_contig_per_process_before')}),
    ensures={'contig_per_process_whenever_multiprocess': 'implies(args.multiprocess, one_contig_per_process == True)'},
    raises={},
    assumptions=['the flag is handed to tag_multiome_multi_processing unchanged (its job-list units above)'],
)
UNITS.append(mp_switch)
