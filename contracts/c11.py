"""C11 - count tables count exactly the reads passing the filters, at documented weights."""
import z3

from pyvc.contract import Contract
from pyvc.engine import Obj, Sym, fresh, named, BOOL, INT, STR
from pyvc import stubs, externals

PROP = 'C11'
LEVEL = 'proof'
F = 'singlecellmultiomics/bamProcessing/bamToCountTable.py'
Q = 'singlecellmultiomics.bamProcessing.bamToCountTable.'
TAGS = {'mp': STR, 'NM': INT, 'XA': STR, 'RR': STR, 'NH': INT, 'SM': STR, 'DS': INT}


def the_read(mapped):
    def mk(eng, name):
        r = stubs.make_read(eng, name, tags=TAGS, mapped=mapped, closed=True)
        if mapped:
            # the lengths pysam derives from the CIGAR: matched m >= 1, inserted, deleted and skipped bases; the letters I / D / N
            # occur in the CIGAR string exactly when the corresponding total is positive (P, = and X are not modelled)
            m, ins, dele, skip = (named(INT, '%s.cigar_%s' % (name, k)) for k in ('matched', 'inserted', 'deleted', 'skipped'))
            cig = r.attrs['cigarstring'].z
            eng.assume(z3.And(m.z >= 1, ins.z >= 0, dele.z >= 0, skip.z >= 0,
                              r.attrs['reference_end'].z - r.attrs['reference_start'].z == m.z + dele.z + skip.z,
                              (ins.z > 0) == z3.Contains(cig, z3.StringVal('I')), (dele.z > 0) == z3.Contains(cig, z3.StringVal('D')),
                              (skip.z > 0) == z3.Contains(cig, z3.StringVal('N'))))
            r.attrs.update({'cigar_matched': m, 'cigar_inserted': ins, 'cigar_deleted': dele, 'cigar_skipped': skip,
                            'reference_length': Sym(m.z + dele.z + skip.z, INT), 'query_alignment_length': Sym(m.z + ins.z, INT)})
        return r
    return mk


def args_ns(extra=None):
    def mk(eng, name):
        a = {'r1only': named(BOOL, 'r1only'), 'r2only': named(BOOL, 'r2only'), 'filterMP': named(BOOL, 'filterMP'),
             'minMQ': named(INT, 'minMQ'), 'proper_pairs_only': named(BOOL, 'proper_pairs_only'),
             'no_indels': named(BOOL, 'no_indels'), 'max_base_edits': named(INT, 'max_base_edits'),
             'no_softclips': named(BOOL, 'no_softclips'), 'filterXA': named(BOOL, 'filterXA'), 'dedup': named(BOOL, 'dedup')}
        a.update(extra(eng) if extra else {})
        o = Obj('Namespace', a)
        o.vc_immutable = True
        return o
    return mk


def filter_setup(eng):
    # the XA scan is an opaque predicate of the read here (its own bounded check is below)
    def xa(e, f, args, kwargs, node):
        v = named(BOOL, 'has_alternative_hit_to_non_alt')
        e.spec_env['XA_HIT'] = v
        return v
    eng.spec_env['XA_HIT'] = named(BOOL, 'has_alternative_hit_to_non_alt')
    eng.loader.call_hooks[Q + 'read_has_alternative_hits_to_non_alts'] = xa


BL = {'chrB': [('bl_s', 'bl_e')]}


def blacklist(eng, name):
    s, e = named(INT, 'bl_s'), named(INT, 'bl_e')
    eng.assume(s.z <= e.z)
    eng.spec_env['BLS'] = [(s, e)]
    return {'chrB': [(s, e)]}


def blacklist2(eng, name):
    """two intervals in the order of the BED file - any order, overlapping or not"""
    iv = []
    for i in (1, 2):
        s, e = named(INT, 'bl%d_s' % i), named(INT, 'bl%d_e' % i)
        eng.assume(s.z <= e.z)
        iv.append((s, e))
    eng.spec_env['BLS'] = iv
    return {'chrB': list(iv)}


# the filter, written from the property statement (every selected filter must pass)
PASSES = ('not (args.r1only and read.is_read2) and not (args.r2only and read.is_read1) '
          'and (not args.filterMP or (read.has_tag("mp") and read.get_tag("mp") == "unique")) '
          'and not read.is_qcfail and read.mapping_quality >= args.minMQ '
          'and (not args.proper_pairs_only or read.is_proper_pair) '
          'and (not args.no_indels or not ("I" in read.cigarstring or "D" in read.cigarstring)) '
          'and (args.max_base_edits is None or not read.has_tag("NM") or read.get_tag("NM") <= args.max_base_edits) '
          'and (not args.no_softclips or not ("S" in read.cigarstring)) '
          'and (not args.filterXA or not XA_HIT) '
          'and not (args.dedup and (read.has_tag("RR") or read.is_duplicate))')
BLACKLISTED = ('(blacklist_dic is not None and read.reference_name == "chrB" and '
               'any([((read.reference_start >= b[0] and read.reference_start < b[1]) or '
               '(read.reference_end >= b[0] and read.reference_end < b[1])) for b in BLS]))')

should_count = Contract(
    PROP, F + '::read_should_be_counted', name='read_should_be_counted',
    params={'read': the_read(True), 'args': args_ns(), 'blacklist_dic': 'none'},
    cases=[{}, {'blacklist_dic': blacklist}, {'blacklist_dic': blacklist2},
           {'args': args_ns(lambda e: {'max_base_edits': None})},
           {'read': the_read(False)}, {'read': the_read(False), 'blacklist_dic': blacklist}],
    setup=filter_setup,
    ensures={
        'counted_iff_every_selected_filter_passes':
            'result == (not read.is_unmapped and (%s) and not %s)' % (PASSES, BLACKLISTED),
    },
    raises={},        # no exception for any read, mapped or not
    assumptions=['blacklist semantics as documented in the code: a read is dropped when its start or its end lies in a '
                 'blacklisted interval [start, end) of its contig (one interval, and two intervals in any order)',
                 'reads carry no tags other than mp NM XA RR NH SM DS (closed world); pysam record stub',
                 'read_has_alternative_hits_to_non_alts treated as a predicate of the read'],
)
# for an unmapped read the clause reduces to result == False (the conjunction is guarded by `not read.is_unmapped`)
UNITS = [should_count]


def filter_replay(inputs, clause):
    """real read_should_be_counted on a real pysam record realising the model's flags/tags"""
    import types
    import pysam
    from pyvc import bamreplay as B
    from pyvc.contract import import_real
    fn = import_real(F, 'read_should_be_counted')
    w = B.witness_read(inputs['read'])
    header = pysam.AlignmentHeader.from_dict({'HD': {'VN': '1.6'}, 'SQ': [{'SN': 'chrB', 'LN': 10 ** 9}, {'SN': 'chrA', 'LN': 10 ** 9}]})
    contig = 'chrB' if w.get('reference_name') == 'chrB' else 'chrA'
    mapped = not w.get('is_unmapped')
    if mapped:
        cig = w.get('cigarstring') or ''
        ops = []
        span = max(1, int(w['reference_end']) - int(w['reference_start']))
        # realise the letters the filters look at (I, D, S) around a match block of the model's reference span
        ra = inputs['read'].get('attrs', {})
        if ra.get('cigar_matched') is None:
            return {'status': 'no-input', 'note': 'model without CIGAR totals'}
        # the model's own totals: soft clip, matched, inserted, deleted, skipped bases (pysam derives the lengths from these)
        mm, ii, dd, nn = (int(ra.get(k) or 0) for k in ('cigar_matched', 'cigar_inserted', 'cigar_deleted', 'cigar_skipped'))
        if mm + ii > 200000:
            return {'status': 'no-input', 'note': 'read of %d bases not realised' % (mm + ii)}
        ops = ([(4, 2)] if 'S' in cig else []) + [(0, mm)] + ([(1, ii)] if ii else []) + ([(2, dd)] if dd else []) + \
            ([(3, nn)] if nn else [])
        w['cigartuples'] = ops
    # an empty string cannot be stored as a tag value: realise it by an equivalent non-empty one
    w['tags'] = {k: (int(v) if k in ('NM', 'NH', 'DS') else (str(v) or (';' if k == 'XA' else 'x'))) for k, v in w['tags'].items()}
    seg = B.make_segment(header, w, contig, 'q')
    a = inputs['args']['attrs']
    args = types.SimpleNamespace(**a)
    bl = None
    BLv = []
    if inputs.get('blacklist_dic'):
        BLv = [tuple(x) for x in inputs['blacklist_dic']['chrB']]
        bl = {'chrB': list(BLv)}
    rec = {'flag': seg.flag, 'cigar': seg.cigarstring, 'tags': dict(seg.get_tags()), 'reference_name': seg.reference_name,
           'reference_start': seg.reference_start, 'reference_end': seg.reference_end, 'mapping_quality': seg.mapping_quality}
    try:
        got = fn(seg, args, bl)
    except Exception as e:       # noqa
        return {'status': 'confirmed', 'observed': {'outcome': 'raise', 'value': [type(e).__name__, str(e)], 'record': rec, 'args': a},
                'failed': [{'clause': 'raises.only', 'exception': type(e).__name__}]}
    # the clause of the property statement, evaluated natively on the real record
    env = {'read': seg, 'args': args, 'blacklist_dic': bl, 'BLS': BLv,
           'XA_HIT': import_real(F, 'read_has_alternative_hits_to_non_alts')(seg)}
    expected = bool(not seg.is_unmapped and eval(PASSES, {}, env) and not eval(BLACKLISTED, {}, env))
    obs = {'outcome': 'return', 'value': got, 'expected': expected, 'record': rec, 'args': a}
    if bool(got) != expected:
        return {'status': 'confirmed', 'observed': obs, 'failed': [{'clause': 'counted_iff_every_selected_filter_passes'}]}
    return {'status': 'not-reproduced', 'observed': obs}


should_count.replay = filter_replay


# ------------------------------------------------------------------------------ assignReads: weight and key of one read
def count_table(eng, name):
    return externals.DefaultDict(externals.col_counter_factory)


def assign_args(binned):
    def extra(eng):
        d = {'doNotDivideFragments': named(BOOL, 'doNotDivideFragments'), 'divideMultimapping': named(BOOL, 'divideMultimapping'),
             'byValue': None, 'splitFeatures': False, 'featureDelimiter': ',', 'bedfile': None, 'bin': None, 'binTag': 'DS',
             'sliding': None, 'keepOverBounds': named(BOOL, 'keepOverBounds')}
        if binned:
            b = named(INT, 'bin')
            eng.assume(b.z >= 1)
            L = named(INT, 'ref_length')
            eng.assume(L.z >= 1)
            d.update({'bin': b, 'sliding': b, 'ref_lengths': {'chrA': L}})
            eng.spec_env['REFLEN'] = L
        return d
    return args_ns(extra)


def assign_setup(eng):
    filter_setup(eng)

    def should(e, f, args, kwargs, node):
        v = named(BOOL, 'passes_filters')
        e.spec_env['PASSES'] = v
        return v
    eng.spec_env['PASSES'] = named(BOOL, 'passes_filters')
    eng.loader.call_hooks[Q + 'read_should_be_counted'] = should


def assign_read(eng, name):
    r = stubs.make_read(eng, name, tags=TAGS, mapped=True, closed=True, fields={'reference_name': lambda e, n: 'chrA'})
    eng.assume(r.attrs['_vc_tags']['NH'][1].z >= 1)
    eng.assume(r.attrs['_vc_tags']['DS'][1].z >= 0)
    return r


# weight, from the property statement
BASE_W = ('(1 if (args.r1only or args.r2only or args.doNotDivideFragments) else '
          '(0.5 if (read.is_paired and not read.mate_is_unmapped) else 1))')
DIV = ('(nsplit(read.get_tag("XA"), ";") if (args.divideMultimapping and read.has_tag("XA")) else '
       '(read.get_tag("NH") if (args.divideMultimapping and read.has_tag("NH")) else 1))')
SAMPLE = '(read.get_tag("SM"),)'

assign = Contract(
    PROP, F + '::assignReads', name='assignReads[joined feature reference_name]',
    params={'read': assign_read, 'countTable': count_table, 'args': assign_args(False), 'joinFeatures': ('const', True),
            'featureTags': ('const', ['reference_name']), 'sampleTags': ('const', ['SM']), 'more_args': ('const', []),
            'blacklist_dic': 'none'},
    setup=assign_setup,
    requires=['read.has_tag("SM")'],
    ensures={
        'nothing_counted_when_filtered': 'implies(not PASSES, len(countTable) == 0 and result == 0)',
        'one_cell_of_the_table_changes': 'implies(PASSES, len(countTable) == 1 and result == 1 and '
                                         'all(len(countTable[s]) == 1 for s in countTable))',
        'counted_under_own_sample_and_feature':
            'implies(PASSES, all(s == %s and all(k == "chrA" for k in countTable[s]) for s in countTable))' % SAMPLE,
        'documented_weight':
            'implies(PASSES, all(all(countTable[s][k] * %s == %s for k in countTable[s]) for s in countTable))' % (DIV, BASE_W),
    },
    raises={},
    assumptions=['read_should_be_counted is used through its contract (opaque verdict PASSES at the call site)',
                 'configuration: -joinedFeatureTags reference_name, -sampleTags SM, no bin/bed/byValue/splitFeatures; '
                 'len(XA.split(";")) is an uninterpreted count nsplit(XA, ";") >= 1; NH >= 1',
                 'the table starts empty (the increment is then visible as the only cell)'],
)
UNITS.append(assign)


def assign_replay(inputs, clause):
    import collections
    import types
    import pysam
    from fractions import Fraction
    from pyvc import bamreplay as B
    from pyvc.contract import import_real
    mod_assign = import_real(F, 'assignReads')
    should = import_real(F, 'read_should_be_counted')
    w = B.witness_read(inputs['read'])
    w['tags'] = {k: (int(v) if k in ('NM', 'NH', 'DS') else (str(v) or 'x')) for k, v in w['tags'].items()}
    w['is_unmapped'] = False
    header = pysam.AlignmentHeader.from_dict({'HD': {'VN': '1.6'}, 'SQ': [{'SN': 'chrA', 'LN': 10 ** 9}]})
    seg = B.make_segment(header, w, 'chrA', 'q')
    a = dict(inputs['args']['attrs'])
    # the filter verdict is an input of this contract: make the real filter accept the record
    a.update({'filterMP': False, 'minMQ': 0, 'proper_pairs_only': False, 'no_indels': False, 'max_base_edits': None,
              'no_softclips': False, 'filterXA': False, 'dedup': False})
    if a.get('r1only') and seg.is_read2:
        a['r1only'] = False
    if a.get('r2only') and seg.is_read1:
        a['r2only'] = False
    seg.is_qcfail = False
    args = types.SimpleNamespace(**a)
    if not should(seg, args, None):
        return {'status': 'no-input', 'note': 'real filter rejects the realised record'}
    table = collections.defaultdict(collections.Counter)
    mod_assign(seg, table, args, True, ['reference_name'], ['SM'], [], None)
    base = Fraction(1) if (a['r1only'] or a['r2only'] or a['doNotDivideFragments']) else \
        (Fraction(1, 2) if (seg.is_paired and not seg.mate_is_unmapped) else Fraction(1))
    div = 1
    if a['divideMultimapping']:
        if seg.has_tag('XA'):
            div = len(seg.get_tag('XA').split(';'))
        elif seg.has_tag('NH'):
            div = int(seg.get_tag('NH'))
    expect = {(seg.get_tag('SM'),): {'chrA': float(base / div)}}
    got = {k: dict(v) for k, v in table.items()}
    obs = {'outcome': 'return', 'value': {str(k): v for k, v in got.items()}, 'expected': {str(k): v for k, v in expect.items()},
           'record': {'flag': seg.flag, 'tags': dict(seg.get_tags())}, 'args': a}
    same = set(got) == set(expect) and all(abs(got[k].get('chrA', -1) - expect[k]['chrA']) < 1e-9 and len(got[k]) == 1 for k in expect)
    if not same:
        return {'status': 'confirmed', 'observed': obs, 'failed': [{'clause': 'documented_weight / own sample and feature'}]}
    return {'status': 'not-reproduced', 'observed': obs}


assign.replay = assign_replay


# ------------------------------------------------------------------------------ assignReads with -bin (C10: each counted read
# lands in exactly the bin containing it); coordinate_to_bins is used through its C10 contract
from contracts import c10 as _c10

bins_contract = _c10.bins(F, 'bamToCountTable')
bins_contract.result = ('seq', ('int', 'int'), 2)
bins_contract.callees = []
BIN_K = 'fdiv(read.get_tag("DS"), args.bin)'
IN_BOUNDS = '(args.keepOverBounds or (%s * args.bin >= 0 and (%s + 1) * args.bin <= REFLEN))' % (BIN_K, BIN_K)

assign_binned = Contract(
    PROP, F + '::assignReads', name='assignReads[-bin, no sliding]',
    params={'read': assign_read, 'countTable': count_table, 'args': assign_args(True), 'joinFeatures': ('const', True),
            'featureTags': ('const', ['reference_name', 'DS']), 'sampleTags': ('const', ['SM']), 'more_args': ('const', []),
            'blacklist_dic': 'none'},
    setup=assign_setup,
    callees=[bins_contract],
    requires=['read.has_tag("SM")', 'read.has_tag("DS")', 'read.get_tag("DS") < 2**53'],
    ensures={
        'nothing_counted_when_filtered': 'implies(not PASSES, len(countTable) == 0)',
        'counted_in_exactly_the_bin_containing_the_coordinate':
            'implies(PASSES and %s, len(countTable) == 1 and all(s == %s and len(countTable[s]) == 1 and '
            'all(k == ("chrA", %s * args.bin, (%s + 1) * args.bin) and countTable[s][k] * %s == %s for k in countTable[s]) '
            'for s in countTable))' % (IN_BOUNDS, SAMPLE, BIN_K, BIN_K, DIV, BASE_W),
        'bins_outside_the_contig_are_skipped': 'implies(PASSES and not %s, all(len(countTable[s]) == 0 for s in countTable))' % IN_BOUNDS,
    },
    raises={},
    assumptions=['coordinate_to_bins through its contract C10/bins@bamToCountTable; sliding == bin (create_count_table sets '
                 'sliding to bin when it is not given); DS tag is a non-negative integer'],
)
UNITS.append(assign_binned)


# ------------------------------------------------------------------------------ assignReads with -bin and -sliding
# "with sliding increment s it contributes to exactly the windows [i*s, i*s+b) that contain the coordinate": the loop over
# coordinate_to_bins(...) is verified inductively w.r.t. one arbitrary cell X = (sample, (contig, start, end)) of the table
# (counting abstraction: the value of that cell is tracked through every iteration; every other cell is framed by X being
# arbitrary).  coordinate_to_bins is used through its C10 contract.
from pyvc.symdict import SymDict    # noqa: E402
from pyvc.engine import LoopSpec, REAL   # noqa: E402


def sliding_args(eng):
    d = assign_args(True)(eng, 'args')
    sl = named(INT, 'sliding')
    eng.assume(z3.And(sl.z >= 1, sl.z <= d.attrs['bin'].z))
    d.attrs['sliding'] = sl
    return d


def sliding_table(eng, name):
    t = SymDict.empty([(STR,), (STR, INT, INT)], REAL, name='countTable', default=0)
    t.autoviv = True
    return t


def sliding_setup(window_cell):
    def setup(eng):
        assign_setup(eng)
        xs = named(STR, 'X.sample')
        if window_cell:
            # X is the cell of the J-th window returned by coordinate_to_bins, for the read's own sample and contig
            eng.spec_env['J'] = named(INT, 'J')
            eng.spec_env['XI'] = True
        else:
            eng.spec_env['XI'] = False
        eng.spec_env['XS'] = xs
        eng.spec_env['W'] = 0
        eng.spec_env['XK'] = (named(STR, 'X.contig'), named(INT, 'X.start'), named(INT, 'X.end'))
    return setup


OKB = '(args.keepOverBounds or ({a} >= 0 and {e} <= REFLEN))'
X_AMONG = ('exists(j, 0 <= j and j < {k} and BINS[j][0] == XK[1] and BINS[j][1] == XK[2])')
CELL = 'dget(countTable, (XS,), XK, 0)'
DS = 'read.get_tag("DS")'
bins_contract2 = _c10.bins(F, 'bamToCountTable')
bins_contract2.result = ('seq', ('int', 'int'), 2)
bins_contract2.callees = []


def sliding_head(window_cell):
    def hook(eng, fr):
        eng.spec_env['W'] = fr.env['countToAdd']
        if window_cell:
            bins, j, xk = fr.env['BINS'], eng.spec_env['J'], eng.spec_env['XK']
            b = bins.get(j.z)
            eng.assume(z3.And(j.z >= 0, j.z < bins.n, xk[1].z == b[0].z, xk[2].z == b[1].z))
    return hook


def sliding_unit(window_cell):
    req = ['read.has_tag("SM")', 'read.has_tag("DS")', DS + ' < 2**53']
    if window_cell:
        req += ['XS == read.get_tag("SM") and XK[0] == "chrA"']
        # with the completeness clause of the bins contract: every window containing the coordinate (inside the contig) gets W
        ens = {'every_returned_window_inside_the_contig_gets_the_weight_exactly_once':
               'implies(PASSES and %s, %s == W)' % (OKB.format(a='XK[1]', e='XK[2]'), CELL)}
    else:
        ens = {'nothing_counted_when_filtered': 'implies(not PASSES, %s == 0)' % CELL,
               'only_windows_containing_the_coordinate_are_counted_and_only_once':
               'implies(%s != 0, XS == read.get_tag("SM") and XK[0] == "chrA" and XK[2] == XK[1] + args.bin and '
               'XK[1] %% args.sliding == 0 and XK[1] <= %s and %s < XK[2] and %s and %s == W)' % (
                   CELL, DS, DS, OKB.format(a='XK[1]', e='XK[2]'), CELL)}
    return Contract(
        PROP, F + '::assignReads', name='assignReads[-bin -sliding, %s]' % ('cell of a window' if window_cell else 'arbitrary cell'),
        params={'read': assign_read, 'countTable': sliding_table, 'args': lambda e, n: sliding_args(e), 'joinFeatures': ('const', True),
                'featureTags': ('const', ['reference_name', 'DS']), 'sampleTags': ('const', ['SM']), 'more_args': ('const', []),
                'blacklist_dic': 'none'},
        setup=sliding_setup(window_cell),
        callees=[bins_contract2],
        requires=req,
        loops={'coordinate_to_bins(': LoopSpec(
            it='BINS', head_hook=sliding_head(window_cell), must_exhaust=True,
            inv={'cell_X_holds_the_weight_iff_its_window_was_visited_and_is_in_bounds':
                 '%s == (countToAdd if (XS == read.get_tag("SM") and XK[0] == "chrA" and %s and %s) else 0)' % (
                     CELL, X_AMONG.format(k='k'), OKB.format(a='XK[1]', e='XK[2]'))},
            types={'countTable': 'frame-object', 'sample': 'frame', 'start': 'int', 'end': 'int'},
            exit={'cell_X_final': '%s == (countToAdd if (XS == read.get_tag("SM") and XK[0] == "chrA" and %s and %s) else 0)' % (
                CELL, X_AMONG.format(k='seqlen(BINS)'), OKB.format(a='XK[1]', e='XK[2]')),
                  # W (ghost) is the increment used by the loop; it is the documented weight
                  'weight': 'countToAdd == W and W * %s == %s' % (DIV, BASE_W)})},
        ensures=ens,
        raises={},
        assumptions=['coordinate_to_bins through its contract C10/bins@bamToCountTable (windows containing the point, strictly '
                     'increasing, complete); DS tag is a non-negative integer; 1 <= sliding <= bin',
                     'counting abstraction w.r.t. one arbitrary table cell X (sample, contig, start, end)'],
    )


def sliding_replay(inputs, clause):
    """the real assignReads on a real pysam record with -bin / -sliding options of the counter-model; the expected table is
    computed from the property statement: weight in exactly the windows [i*s, i*s+b) containing DS (inside the contig
    unless keepOverBounds)"""
    import collections
    import types
    import pysam
    from fractions import Fraction
    from pyvc import bamreplay as B
    from pyvc.contract import import_real
    mod_assign = import_real(F, 'assignReads')
    should = import_real(F, 'read_should_be_counted')
    w = B.witness_read(inputs['read'])
    w['tags'] = {k: (int(v) if k in ('NM', 'NH', 'DS') else (str(v) or 'x')) for k, v in w['tags'].items()}
    w['is_unmapped'] = False
    a = dict(inputs['args']['attrs'])
    b, sl = int(a['bin']), int(a['sliding'])
    L = int(a['ref_lengths']['chrA'])
    ds = int(w['tags'].get('DS', 0))
    header = pysam.AlignmentHeader.from_dict({'HD': {'VN': '1.6'}, 'SQ': [{'SN': 'chrA', 'LN': max(L, 1)}]})
    seg = B.make_segment(header, w, 'chrA', 'q')
    a.update({'filterMP': False, 'minMQ': 0, 'proper_pairs_only': False, 'no_indels': False, 'max_base_edits': None,
              'no_softclips': False, 'filterXA': False, 'dedup': False})
    if a.get('r1only') and seg.is_read2:
        a['r1only'] = False
    if a.get('r2only') and seg.is_read1:
        a['r2only'] = False
    seg.is_qcfail = False
    args = types.SimpleNamespace(**a)
    if not should(seg, args, None):
        return {'status': 'no-input', 'note': 'real filter rejects the realised record'}
    table = collections.defaultdict(collections.Counter)
    mod_assign(seg, table, args, True, ['reference_name', 'DS'], ['SM'], [], None)
    base = Fraction(1) if (a['r1only'] or a['r2only'] or a['doNotDivideFragments']) else \
        (Fraction(1, 2) if (seg.is_paired and not seg.mate_is_unmapped) else Fraction(1))
    div = 1
    if a['divideMultimapping']:
        if seg.has_tag('XA'):
            div = len(seg.get_tag('XA').split(';'))
        elif seg.has_tag('NH'):
            div = int(seg.get_tag('NH'))
    wgt = float(base / div)
    expect = {}
    for i in range(ds // sl - b // sl - 2, ds // sl + 2):
        lo, hi = i * sl, i * sl + b
        if lo <= ds < hi and (a['keepOverBounds'] or (lo >= 0 and hi <= L)):
            expect[('chrA', lo, hi)] = wgt
    got = {k: dict(v) for k, v in table.items()}
    mine = {k: v for k, v in got.get((seg.get_tag('SM'),), {}).items() if v != 0}
    obs = {'outcome': 'return', 'value': {str(k): {str(kk): vv for kk, vv in v.items()} for k, v in got.items()},
           'expected': {str(k): v for k, v in expect.items()}, 'DS': ds, 'bin': b, 'sliding': sl, 'ref_length': L,
           'keepOverBounds': bool(a['keepOverBounds'])}
    same = set(mine) == set(expect) and all(abs(mine[k] - expect[k]) < 1e-9 for k in expect) and \
        all(not any(v.values()) for k, v in got.items() if k != (seg.get_tag('SM'),))
    if not same:
        return {'status': 'confirmed', 'observed': obs, 'failed': [{'clause': 'weight in exactly the windows containing the coordinate'}]}
    return {'status': 'not-reproduced', 'observed': obs}


assign_sliding = [sliding_unit(False), sliding_unit(True)]
for _u in assign_sliding:
    _u.replay = sliding_replay
UNITS += assign_sliding


# ------------------------------------------------------------------------------ create_count_table: the blacklist dictionary
# "blacklist filter": every interval of the BED file must be in the dictionary the filter consults (bounded: 3 rows).
import ast as _ast      # noqa: E402
from pyvc import blocks as _blocks, segstr as _segstr     # noqa: E402
from pyvc.engine import Builtin as _Builtin      # noqa: E402


def bl_setup(eng):
    eng.ghost.clear()
    rows = []
    for i in range(3):
        c = _segstr.register_atom(eng, named(STR, 'bed_contig_%d' % i), ' \t\n\r\x0b\x0c')
        s_, e_ = named(INT, 'bed_start_%d' % i), named(INT, 'bed_end_%d' % i)
        eng.assume(z3.And(z3.Length(c.z) >= 1, s_.z >= 0, e_.z >= s_.z))
        rows.append((c, s_, e_))
    eng.spec_env['ROWS'] = rows
    lines = [_segstr.build([c, '\t'] + _segstr.parts_of(eng.to_str(s_)) + ['\t'] + _segstr.parts_of(eng.to_str(e_)) + ['\n']) for c, s_, e_ in rows]
    fh = Obj('TextFile', {'lines': lines})
    fh.vc_immutable = True
    stubs.STUBS['TextFile'] = {'methods': {'__enter__': lambda e, o: o, '__exit__': lambda e, o, *a: None,
                                           '__iter__': lambda e, o: list(o.attrs['lines'])}, 'props': {}, 'setters': {}}
    eng.spec_env['OPEN'] = _Builtin('open', lambda e, a, k, n: fh)


def bl_args(eng, name):
    o = Obj('Namespace', {'blacklist': 'blacklist.bed'})
    o.vc_immutable = True
    return o


def bl_block(f):
    return _blocks.if_with_test(f, 'args.blacklist is not None')


blacklist_parse = Contract(
    PROP, F + '::create_count_table', name='create_count_table[blacklist dictionary, 3 BED rows]',
    block=bl_block,
    params={'args': bl_args},
    setup=bl_setup,
    pre_state=lambda eng, fr: fr.env.update({'open': eng.spec_env['OPEN']}),
    ensures={
        'every_bed_interval_is_in_the_dictionary_of_its_contig':
            'all(any(c == ROWS[i][0] and any(t[0] == ROWS[i][1] and t[1] == ROWS[i][2] for t in blacklist_dic[c]) '
            'for c in blacklist_dic) for i in range(3))',
        'nothing_else_is_blacklisted': 'sum([len(blacklist_dic[c]) for c in blacklist_dic]) == 3',
    },
    raises={},
    bounded='a BED file of 3 rows (symbolic contig names - equal or different - and coordinates)',
    assumptions=['BED rows: contig, start, end separated by tabs; text file iteration yields the lines (A4)'],
)
UNITS.append(blacklist_parse)


# ------------------------------------------------------------------------------ create_count_table: contig lengths per BAM file
# bins "inside the contig" are judged with the contig lengths of the file the read comes from (bounded: two files, one read each)
REFLEN = z3.Function('reference_length_in_file', z3.StringSort(), z3.StringSort(), z3.IntSort())


def files_setup(eng):
    eng.ghost.clear()
    eng.ghost['assigned_with'] = []
    eng.spec_env['GHOST'] = eng.ghost
    eng.spec_env['REFLEN_OF'] = _Builtin('REFLEN_OF', lambda e, a, k, n: Sym(REFLEN(z3.StringVal(a[0]), z3.StringVal(a[1])), INT))

    def bam(e, a, k, n):
        o = Obj('BamFile', {'name': a[0], 'mapped': 1, 'unmapped': 0, 'nocoordinate': 0})
        o.vc_immutable = True
        return o
    stubs.STUBS['BamFile'] = {
        'methods': {'__enter__': lambda e, o: o, '__exit__': lambda e, o, *a: None,
                    'get_reference_length': lambda e, o, r: Sym(REFLEN(z3.StringVal(o.attrs['name']), z3.StringVal(r)), INT),
                    '__iter__': lambda e, o: [Obj('ReadOf', {'file': o.attrs['name']})],
                    'fetch': lambda e, o, *a, **k: [Obj('ReadOf', {'file': o.attrs['name']})]},
        'props': {'references': lambda e, o: ['chrA', 'chrB']}, 'setters': {}}
    externals.EXTRA['pysam.AlignmentFile'] = bam

    def assign(e, f, a, k, n):
        read, table, args = a[0], a[1], a[2]
        e.ghost['assigned_with'].append((read.attrs['file'], dict(args.attrs['ref_lengths'])))
        # both files hold a read of the same cell and feature: its count must add up over the files
        row = e.getitem(table, ('cell',))
        row["chrA"] = e.binop(_ast.Add(), e.getitem(row, "chrA"), 1)
        return 1
    eng.loader.call_hooks[Q + 'assignReads'] = assign


def files_args(eng, name):
    b = named(INT, 'bin')
    eng.assume(b.z >= 1)
    return Obj('Namespace', {'alignmentfiles': ['first.bam', 'second.bam'], 'bin': b, 'bedfile': None, 'contig': None, 'head': None})


def files_block(f):
    return _blocks.for_with_iter(f, 'args.alignmentfiles', nth=1)


per_file_lengths = Contract(
    PROP, F + '::create_count_table', name='create_count_table[contig lengths of the file being read, 2 BAM files]',
    block=files_block,
    params={'args': files_args},
    setup=files_setup,
    pre_state=lambda eng, fr: fr.env.update({'countTable': externals.DefaultDict(externals.col_counter_factory), 'joinFeatures': True,
                                             'featureTags': ['DS'], 'sampleTags': ['SM'], 'blacklist_dic': None, 'assigned': 0}),
    ensures={
        'counts_of_the_same_cell_add_up_over_the_files': 'countTable[("cell",)]["chrA"] == 2',
        'every_read_is_binned_with_the_contig_lengths_of_its_own_file':
            'len(GHOST["assigned_with"]) == 2 and all(rec[1]["chrA"] == REFLEN_OF(rec[0], "chrA") and '
            'rec[1]["chrB"] == REFLEN_OF(rec[0], "chrB") for rec in GHOST["assigned_with"])',
        'files_in_order': '[rec[0] for rec in GHOST["assigned_with"]] == ["first.bam", "second.bam"]',
    },
    raises={},
    bounded='two alignment files with one read each, two contigs (symbolic lengths per file)',
    assumptions=['pysam.AlignmentFile through a stub (references, get_reference_length, iteration); assignReads recorded with '
                 'the ref_lengths in effect at the call'],
)
UNITS.append(per_file_lengths)


# ------------------------------------------------------------------------------ create_count_table with -bedfile and -contig: every region
# of the selected contig is counted, wherever its row stands in the BED file (bounded: 3 rows)
def bed_setup(eng):
    eng.ghost.clear()
    eng.ghost['fetches'] = []
    eng.spec_env['GHOST'] = eng.ghost
    rows, lines = [], []
    for i in range(3):
        c = _segstr.register_atom(eng, named(STR, 'bed_contig_%d' % i), ' \t\n\r\x0b\x0c')
        s_, e_ = named(INT, 'bed_start_%d' % i), named(INT, 'bed_end_%d' % i)
        nm = _segstr.register_atom(eng, named(STR, 'bed_name_%d' % i), ' \t\n\r\x0b\x0c')
        eng.assume(z3.And(z3.Length(c.z) >= 1, z3.Length(nm.z) >= 1, s_.z >= 0, e_.z >= s_.z))
        rows.append((c, s_, e_, nm))
        lines.append(_segstr.build([c, '\t'] + _segstr.parts_of(eng.to_str(s_)) + ['\t'] + _segstr.parts_of(eng.to_str(e_)) + ['\t', nm, '\n']))
    eng.spec_env['ROWS'] = rows
    fh = Obj('TextFile', {'lines': lines})
    fh.vc_immutable = True
    stubs.STUBS['TextFile'] = {'methods': {'__enter__': lambda e, o: o, '__exit__': lambda e, o, *a: None,
                                           '__iter__': lambda e, o: list(o.attrs['lines'])}, 'props': {}, 'setters': {}}
    eng.spec_env['OPEN'] = _Builtin('open', lambda e, a, k, n: fh)
    bam = Obj('BamFile2', {'mapped': 1, 'unmapped': 0, 'nocoordinate': 0})
    bam.vc_immutable = True
    stubs.STUBS['BamFile2'] = {'methods': {'fetch': lambda e, o, *a, **k: (e.ghost['fetches'].append(tuple(a)), [])[1]},
                               'props': {}, 'setters': {}}
    eng.spec_env['BAM'] = bam
    # float("<int>") of a BED coordinate: the integer itself
    eng.spec_env['FLOAT'] = _Builtin('float', lambda e, a, k, n: e.call(e.builtins()['int'], a, k))


def bed_block(f):
    c = _blocks.find_nodes(f, lambda n: isinstance(n, _ast.With) and 'args.bedfile' in _ast.unparse(n.items[0].context_expr))
    return c[:1]


bed_regions = Contract(
    PROP, F + '::create_count_table', name='create_count_table[-bedfile with -contig, 3 BED rows]',
    block=bed_block,
    params={'args': lambda e, n: Obj('Namespace', {'bedfile': 'regions.bed', 'contig': 'chr1', 'head': None})},
    setup=bed_setup,
    pre_state=lambda eng, fr: fr.env.update({'open': eng.spec_env['OPEN'], 'float': eng.spec_env['FLOAT'], 'f': eng.spec_env['BAM'],
                                             'countTable': {}, 'joinFeatures': True, 'featureTags': ['DS'], 'sampleTags': ['SM'],
                                             'blacklist_dic': None, 'assigned': 0, 'bamFile': 'in.bam', 'i': 0}),
    ensures={
        'every_region_of_the_selected_contig_is_fetched':
            'all(implies(ROWS[i][0] == "chr1", any([q[0] == "chr1" and q[1] == ROWS[i][1] and q[2] == ROWS[i][2] for q in GHOST["fetches"]])) '
            'for i in range(3))',
        'no_other_region_is_fetched':
            'len(GHOST["fetches"]) == sum([(1 if ROWS[i][0] == "chr1" else 0) for i in range(3)])',
    },
    raises={},
    bounded='a BED file of 3 rows (symbolic contig names, coordinates and region names), -contig chr1, regions without reads',
    assumptions=['BED rows: contig, start, end, name separated by tabs; float() of a coordinate is the integer written there'],
)
UNITS.append(bed_regions)


# ------------------------------------------------------------------------------ the XA predicate of the filter
# read_should_be_counted uses read_has_alternative_hits_to_non_alts through an assumed contract ("a predicate of the read");
# here the predicate itself: true iff some alternative hit listed in the XA tag lies on a contig that is not an _alt contig
def xa_read(n_hits):
    def mk(eng, name):
        cs = [_segstr.register_atom(eng, named(STR, 'xa_contig_%d' % i), ',;') for i in range(n_hits)]
        eng.spec_env['XA_CONTIGS'] = cs
        parts = []
        for i, c in enumerate(cs):
            parts += [c, ',+%d,5M,%d;' % (100 * (i + 1), i)]
        if n_hits == 0:
            has = named(BOOL, 'has_XA_tag')
            val = ''
        else:
            has, val = True, _segstr.build(parts)
        return stubs.make_read(eng, name, tags={}, mapped=True, closed=True) if False else \
            Obj('XARead', {'has': has, 'xa': val})
    return mk


stubs.STUBS['XARead'] = {'methods': {'has_tag': lambda e, o, t: (o.attrs['has'] if t == 'XA' else False),
                                     'get_tag': lambda e, o, t: o.attrs['xa']}, 'props': {}, 'setters': {}}


def xa_unit(n_hits):
    want = ' or '.join('not XA_CONTIGS[%d].endswith("_alt")' % i for i in range(n_hits)) or 'False'
    return Contract(
        PROP, F + '::read_has_alternative_hits_to_non_alts', name='read_has_alternative_hits_to_non_alts[%d hits listed]' % n_hits,
        params={'read': xa_read(n_hits)},
        ensures={'true_iff_some_listed_hit_is_on_a_contig_that_is_not_an_alt_contig': 'result == (%s)' % want},
        raises={},
        bounded='XA tag listing %d alternative hits (symbolic contig names), bwa format "contig,pos,cigar,nm;"' % n_hits,
    )


UNITS += [xa_unit(0), xa_unit(1), xa_unit(2)]


# ------------------------------------------------------------------------------ assignReads: single feature tags, and BED regions
def assign_args_with(extra_attrs):
    base = assign_args(False)

    def mk(eng, name):
        o = base(eng, name)
        o.attrs.update(extra_attrs)
        return o
    return mk


assign_single = Contract(
    PROP, F + '::assignReads', name='assignReads[single feature tags reference_name and DS]',
    params={'read': assign_read, 'countTable': count_table, 'args': assign_args(False), 'joinFeatures': ('const', False),
            'featureTags': ('const', ['reference_name', 'DS']), 'sampleTags': ('const', ['SM']), 'more_args': ('const', []),
            'blacklist_dic': 'none'},
    setup=assign_setup,
    requires=['read.has_tag("SM")', 'read.has_tag("DS")'],
    ensures={
        'nothing_counted_when_filtered': 'implies(not PASSES, len(countTable) == 0 and result == 0)',
        # every feature tag is its own row: the contig and the (textual) value of DS, each with the documented weight
        'one_cell_per_feature_tag_under_the_own_sample':
            'implies(PASSES, len(countTable) == 1 and all(s == %s and len(countTable[s]) == 2 and '
            'countTable[s]["chrA"] * %s == %s and countTable[s][str(read.get_tag("DS"))] * %s == %s for s in countTable))'
            % (SAMPLE, DIV, BASE_W, DIV, BASE_W),
    },
    raises={},
    assumptions=['configuration: -featureTags reference_name,DS (not joined), -sampleTags SM, no bin/bed/byValue/splitFeatures; '
                 'the table starts empty'],
)

assign_bed = Contract(
    PROP, F + '::assignReads', name='assignReads[BED region, joined feature reference_name]',
    params={'read': assign_read, 'countTable': count_table, 'args': assign_args_with({'bedfile': 'regions.bed'}),
            'joinFeatures': ('const', True), 'featureTags': ('const', ['reference_name']), 'sampleTags': ('const', ['SM']),
            'more_args': lambda e, n: [named(INT, 'region_start'), named(INT, 'region_end'), named(STR, 'region_name')],
            'blacklist_dic': 'none'},
    setup=assign_setup,
    requires=['read.has_tag("SM")'],
    ensures={
        'nothing_counted_when_filtered': 'implies(not PASSES, len(countTable) == 0 and result == 0)',
        'counted_once_under_the_region_it_was_fetched_for':
            'implies(PASSES, len(countTable) == 1 and all(s == %s and len(countTable[s]) == 1 and '
            'all(k == ("chrA", more_args[0], more_args[1], more_args[2]) and countTable[s][k] * %s == %s for k in countTable[s]) '
            'for s in countTable))' % (SAMPLE, DIV, BASE_W),
    },
    raises={},
    assumptions=['configuration: -bedfile, -joinedFeatureTags reference_name, -sampleTags SM; the region (start, end, name) is '
                 'handed over by create_count_table (its BED loop has its own unit); the table starts empty'],
)
UNITS += [assign_single, assign_bed]


assign_byvalue = Contract(
    PROP, F + '::assignReads', name='assignReads[-byValue NM, joined feature reference_name]',
    params={'read': assign_read, 'countTable': count_table, 'args': assign_args_with({'byValue': 'NM'}),
            'joinFeatures': ('const', True), 'featureTags': ('const', ['reference_name', 'NM']), 'sampleTags': ('const', ['SM']),
            'more_args': ('const', []), 'blacklist_dic': 'none'},
    setup=assign_setup,
    requires=['read.has_tag("SM")', 'read.has_tag("NM")', 'read.get_tag("NM") >= 0'],
    ensures={
        'nothing_counted_when_filtered': 'implies(not PASSES, len(countTable) == 0 and result == 0)',
        'the_numeric_value_of_the_tag_is_added_under_the_other_features':
            'implies(PASSES, len(countTable) == 1 and all(s == %s and len(countTable[s]) == 1 and '
            'countTable[s]["chrA"] == read.get_tag("NM") for s in countTable))' % SAMPLE,
    },
    raises={},
    assumptions=['configuration: -byValue NM -joinedFeatureTags reference_name,NM; float(str(n)) == n for an integer tag (A3)'],
)
UNITS.append(assign_byvalue)


assign_byvalue_missing = Contract(
    PROP, F + '::assignReads', name='assignReads[-byValue NM, the read has no NM tag]',
    params={'read': assign_read, 'countTable': count_table, 'args': assign_args_with({'byValue': 'NM'}),
            'joinFeatures': ('const', True), 'featureTags': ('const', ['reference_name', 'NM']), 'sampleTags': ('const', ['SM']),
            'more_args': ('const', []), 'blacklist_dic': 'none'},
    setup=assign_setup,
    requires=['read.has_tag("SM")', 'not read.has_tag("NM")'],
    ensures={
        # "by-value counting adds the tag's numeric value": a read without the tag adds nothing
        'a_read_without_the_tag_adds_nothing':
            'all(all(countTable[s][k] == 0 for k in countTable[s]) for s in countTable)',
    },
    raises={},
    assumptions=['configuration: -byValue NM -joinedFeatureTags reference_name,NM'],
)
UNITS.append(assign_byvalue_missing)
