"""C03 - barcode correction assigns the unique nearest whitelisted barcode or nothing."""
import ast
import itertools

import z3

from pyvc.contract import Contract
from pyvc.engine import Obj, Sym, SymSeq, Builtin, fresh, named, BOOL, INT, STR
from pyvc import blocks, stubs

PROP = 'C03'
LEVEL = 'proof'
FP = 'singlecellmultiomics/barcodeFileParser/barcodeFileParser.py'
INDEX = z3.Function('whitelist_index', z3.StringSort(), z3.StringSort())


# ------------------------------------------------------------------------------ expand: resolving one candidate list
def resolve_body(f):
    loops = [n for n in ast.walk(f) if isinstance(n, ast.For) and ast.unparse(n.iter) == 'hammingSpace']
    return loops[0].body if loops else []


def resolve_setup(eng):
    g = eng.ghost
    g.clear()
    g['added'] = []
    eng.spec_env['GHOST'] = g
    cand = SymSeq.fresh((INT, STR), 2, 'candidates')
    eng.assume(cand.n >= 1)
    eng.spec_env['CAND'] = cand

    class Space:
        def vc_getitem(self, e, k, node=None):
            return cand

    class Alias:
        def vc_getitem(self, e, k, node=None):
            return Sym(INDEX(k.z if isinstance(k, Sym) else z3.StringVal(k)), STR)

    class Barcodes:
        def vc_getitem(self, e, k, node=None):
            return Alias()
    eng.spec_env['SPACE'] = Space()
    eng.spec_env['BARCODES'] = Barcodes()
    eng.spec_env['IDX'] = Builtin('IDX', lambda e, a, k, n: Sym(INDEX(a[0].z), STR))

    def add(e, f, args, kwargs, node):
        e.ghost['added'].append(dict(kwargs, alias=args[0] if args else kwargs.get('barcodeFileAlias')))
    eng.loader.call_hooks['singlecellmultiomics.barcodeFileParser.barcodeFileParser.BarcodeParser.addBarcode'] = add

    # expose the sorted list to the specification
    orig = cand.vc_sorted

    def sorted_spy(e, kwargs):
        r = orig(e, kwargs)
        e.spec_env['SORTED'] = r
        return r
    cand.vc_sorted = sorted_spy


def parser_self(eng, name):
    return Obj('BarcodeParser', {'barcodes': eng.spec_env['BARCODES']}, info=eng.loader.classref(FP, 'BarcodeParser'))


resolve = Contract(
    PROP, FP + '::BarcodeParser.expand', name='expand.resolve[one observed barcode, any number of candidates]',
    block=resolve_body,
    params={'self': parser_self, 'hammingBarcode': 'str', 'hammingSpace': lambda e, n: e.spec_env['SPACE'], 'alias': ('const', 'wl')},
    setup=resolve_setup,
    ensures={
        # an observed barcode is assigned iff one candidate is strictly closer than every other one
        'assigned_iff_strictly_nearest':
            'iff(len(GHOST["added"]) == 1, forall(j, implies(1 <= j and j < seqlen(SORTED), SORTED[0][0] < SORTED[j][0])))',
        'at_most_one_assignment': 'len(GHOST["added"]) <= 1',
        # ... to that barcode, with its cell index and its distance
        'assignment_is_the_nearest_barcode':
            'all(a["barcode"] == hammingBarcode and a["originBarcode"] == SORTED[0][1] and a["hammingDistance"] == SORTED[0][0] '
            'and a["index"] == IDX(SORTED[0][1]) and a["alias"] == "wl" for a in GHOST["added"])',
    },
    raises={},
    assumptions=['sorted(): assumed contract (A4) - a permutation of the candidate list in ascending lexicographic order; '
                 'SORTED is that permutation', 'the candidate list of an observed barcode holds (distance, whitelisted barcode) '
                 'for the whitelisted barcodes within k (collect loop: bounded scenarios below)'],
)


# ------------------------------------------------------------------------------ lookup order
INB = z3.Function('in_whitelist', z3.StringSort(), z3.BoolSort())
INE = z3.Function('in_extended', z3.StringSort(), z3.BoolSort())
EXT_I = z3.Function('ext_index', z3.StringSort(), z3.StringSort())
EXT_O = z3.Function('ext_origin', z3.StringSort(), z3.StringSort())
EXT_D = z3.Function('ext_distance', z3.StringSort(), z3.IntSort())


def lookup_self(pending):
    def mk(eng, name):
        class Table:
            def __init__(self, member, value):
                self.member, self.value = member, value

            def vc_contains(self, e, k):
                return self.member(k.z)

            def vc_getitem(self, e, k, node=None):
                return self.value(k)

            def vc_getattr(self, e, attr, node=None):
                if attr == 'get':
                    from pyvc.engine import BoundMethod
                    return BoundMethod('get', lambda e2, a, kw: self.value(a[0]) if e2.branch(self.member(a[0].z)) else (a[1] if len(a) > 1 else None))
                from pyvc.engine import Unsupported
                raise Unsupported('Table.%s' % attr)

        class ByAlias:
            """defaultdict(dict): the entry of the alias exists after any earlier read of it (arbitrary history, a fresh
            boolean), and certainly after a read in this call"""
            def __init__(self, t, label):
                self.t = t
                self.exists = fresh(BOOL, 'alias_entry_exists_in_' + label)

            def vc_getitem(self, e, k, node=None):
                self.exists = True
                return self.t

            def vc_contains(self, e, k):
                return self.exists if isinstance(self.exists, bool) else self.exists.z
        wl = Table(INB, lambda k: Sym(INDEX(k.z), STR))
        ext = Table(INE, lambda k: (Sym(EXT_I(k.z), STR), Sym(EXT_O(k.z), STR), Sym(EXT_D(k.z), INT)))
        eng.ghost.clear()
        eng.ghost['loaded'] = []
        eng.spec_env['GHOST'] = eng.ghost
        for nm, fn in (('INB', INB), ('INE', INE)):
            eng.spec_env[nm] = Builtin(nm, lambda e, a, k, n, fn=fn: Sym(fn(a[0].z), BOOL))
        eng.spec_env['IDX'] = Builtin('IDX', lambda e, a, k, n: Sym(INDEX(a[0].z), STR))
        eng.spec_env['EXT'] = Builtin('EXT', lambda e, a, k, n: (Sym(EXT_I(a[0].z), STR), Sym(EXT_O(a[0].z), STR), Sym(EXT_D(a[0].z), INT)))
        o = Obj('BarcodeParser', {'barcodes': ByAlias(wl, 'barcodes'), 'extendedBarcodes': ByAlias(ext, 'extendedBarcodes'),
                                  'pending_files': ({'wl': 'wl.bc'} if pending else {})},
                info=eng.loader.classref(FP, 'BarcodeParser'))

        def load(e, f, args, kwargs, node):
            e.ghost['loaded'].append(args[0])
            del o.attrs['pending_files'][args[0]]
        eng.loader.call_hooks['singlecellmultiomics.barcodeFileParser.barcodeFileParser.BarcodeParser.parse_pending_barcode_file_of_alias'] = load
        return o
    return mk


lookup = Contract(
    PROP, FP + '::BarcodeParser.getIndexCorrectedBarcodeAndHammingDistance', name='lookup',
    params={'self': lookup_self(False), 'barcode': 'str', 'alias': ('const', 'wl'), 'try_lazy_load_pending': ('const', True)},
    cases=[{}, {'self': lookup_self(True)}],
    setup=lambda eng: None,
    ensures={
        'whitelist_members_map_to_themselves_at_distance_0': 'implies(INB(barcode), result == (IDX(barcode), barcode, 0))',
        'otherwise_the_expanded_entry': 'implies(not INB(barcode) and INE(barcode), result == EXT(barcode))',
        'otherwise_nothing': 'implies(not INB(barcode) and not INE(barcode), result == (None, None, None))',
        'a_lazily_loaded_alias_is_loaded_once_before_answering_nothing':
            'implies(PENDING and not INB(barcode) and not INE(barcode), GHOST["loaded"] == ["wl"])',
        # (whether a pending alias is loaded before or after a hit is not the property's business: only that nothing is
        # loaded when nothing is pending, and at most once)
        'nothing_loaded_when_nothing_is_pending': 'implies(not PENDING, GHOST["loaded"] == [])',
        'loaded_at_most_once': 'len(GHOST["loaded"]) <= 1',
    },
    raises={},
)
lookup.pre_state = lambda eng, fr: eng.spec_env.update({'PENDING': len(fr.env['self'].attrs['pending_files']) > 0})

UNITS = [resolve, lookup]


def resolve_replay(inputs, clause):
    """the real loop body of expand() on the model's candidate list"""
    from pyvc.blockreplay import run_block
    cands = [tuple(c) for c in inputs.get('ghost', {}).get('CAND', [])]
    if not cands:
        return {'status': 'no-input', 'note': 'no candidate list in the model'}
    # distinct origins (a whitelist lists a barcode once); keep the distances
    cands = [(d, 'BC%d' % i) for i, (d, o) in enumerate(cands)]
    added = []

    class P:
        barcodes = {'wl': {o: 'idx_' + o for d, o in cands}}

        def addBarcode(self, alias, **kw):
            added.append(kw)
    ys, final, exc = run_block(FP, 'BarcodeParser.expand', resolve_body,
                               {'self': P(), 'hammingBarcode': 'OBSERVED', 'hammingSpace': {'OBSERVED': list(cands)}, 'alias': 'wl'})
    # continue inside the block: run_block executes the statements in a function body, `continue` is a SyntaxError there
    srt = sorted(cands)
    strictly = all(srt[0][0] < c[0] for c in srt[1:])
    obs = {'outcome': 'raise' if exc else 'return', 'value': added if not exc else [type(exc).__name__, str(exc)], 'candidates': cands}
    if exc is not None:
        return {'status': 'no-input', 'observed': obs, 'note': 'block not runnable natively: %s' % exc}
    if (len(added) == 1) != strictly:
        return {'status': 'confirmed', 'observed': obs,
                'failed': [{'clause': 'assigned_iff_strictly_nearest', 'assigned': len(added) == 1, 'strictly_nearest_exists': strictly}]}
    if added and (added[0]['originBarcode'] != srt[0][1] or added[0]['hammingDistance'] != srt[0][0]):
        return {'status': 'confirmed', 'observed': obs, 'failed': [{'clause': 'assignment_is_the_nearest_barcode'}]}
    return {'status': 'not-reproduced', 'observed': obs}


resolve.replay = resolve_replay


# ------------------------------------------------------------------------------ hamming_circle: exhaustive for short barcodes
def sphere(maxL):
    def setup(eng):
        eng.spec_env['ALL'] = {L: [''.join(t) for t in itertools.product('ACGTN', repeat=L)] for L in range(1, maxL + 1)}
    return Contract(
        PROP, FP + '::hamming_circle', name='hamming_circle[all strings over ACGTN, length <= %d, n <= 2]' % maxL,
        harness='''
out = []
for L in range(1, %d + 1):
    for tup in itertools.product('ACGTN', repeat=L):
        s = ''.join(tup)
        for n in range(0, min(L, 2) + 1):
            out.append((s, n, sorted(hamming_circle(s, n, 'ACTGN'))))
return out
''' % maxL,
        params={}, setup=setup,
        ensures={
            # exactly the strings at Hamming distance n, each once
            'yields_exactly_the_sphere_each_string_once':
                'all(got == sorted([t for t in ALL[len(s)] if sum([(1 if a != b else 0) for a, b in zip(s, t)]) == n]) for s, n, got in result)',
        },
        raises={},
        bounded='barcode length <= %d, exhaustive over the alphabet ACGTN (executed concretely by the engine)' % maxL,
    )


u2 = sphere(2)
u3 = sphere(3)
u3.tiers = ('thorough',)
UNITS += [u2, u3]


# ------------------------------------------------------------------------------ whole correction for small whitelists:
# real addBarcode + expand + lookup, symbolic observed barcode
def correction(whitelist, k, L):
    src = ['p = BarcodeParser.__new__(BarcodeParser) if False else PARSER()']
    for i, b in enumerate(whitelist):
        src.append('p.addBarcode("wl", barcode=%r, index=%d)' % (b, i + 1))
    src += ['p.expand(%d, alias="wl")' % k, 'return p.getIndexCorrectedBarcodeAndHammingDistance(x, "wl")']

    def setup(eng):
        import collections
        from pyvc import externals

        def parser(e, a, k_, n):
            return Obj('BarcodeParser', {'barcodes': externals.DefaultDict(e.builtins()['dict']),
                                         'extendedBarcodes': externals.DefaultDict(e.builtins()['dict']), 'pending_files': {},
                                         'hammingDistanceExpansion': k}, info=e.loader.classref(FP, 'BarcodeParser'))
        eng.spec_env['PARSER'] = Builtin('PARSER', parser)
        eng.spec_env['WL'] = list(whitelist)
        eng.spec_env['K'] = k

    def xparam(eng, name):
        # observed barcode: L symbolic characters over ACGTN
        chars = []
        for i in range(L):
            c = named(STR, 'x%d' % i)
            eng.assume(z3.Or(*[c.z == z3.StringVal(ch) for ch in 'ACGTN']))
            chars.append(c)
        eng.spec_env['XCH'] = chars
        from pyvc import segstr
        return segstr.build(chars)
    HD = '(lambda b: sum([(1 if XCH[i] != b[i] else 0) for i in range(len(b))]))'
    return Contract(
        PROP, FP + '::BarcodeParser', name='correction[whitelist %s, k=%d]' % ('/'.join(whitelist), k),
        harness='\n'.join(src), params={'x': xparam}, setup=setup,
        ensures={
            'assigned_iff_unique_nearest_within_k':
                'all(iff(result[1] == b, %s(b) <= K and all(%s(o) > %s(b) for o in WL if o != b)) for b in WL)' % (HD, HD, HD),
            'index_and_distance_of_that_barcode':
                'all(implies(result[1] == b, result[0] == WL.index(b) + 1 and result[2] == %s(b)) for b in WL)' % HD,
            'nothing_otherwise': 'implies(not any(result[1] == b for b in WL), result == (None, None, None))',
        },
        raises={},
        bounded='whitelist %s (length %d), k=%d, every observed string over ACGTN of that length (symbolic)' % (list(whitelist), L, k),
        max_paths=200000,
    )


UNITS += [correction(('AAA', 'AAT', 'CAG'), 1, 3), correction(('AAA', 'AAT', 'CAG'), 2, 3),
          correction(('AAN', 'AAT'), 1, 3), correction(('ACGT',), 0, 4)]


# ------------------------------------------------------------------------------ lazily loaded aliases
# representation invariant of the parser: an alias that is not pending has been parsed AND expanded with the parser's
# Hamming distance.  Every function that takes an alias out of pending_files must do both, in that order.
QP = 'singlecellmultiomics.barcodeFileParser.barcodeFileParser.BarcodeParser.'


def lazy_self(pending, hook_loader):
    def mk(eng, name):
        eng.ghost.clear()
        eng.ghost['events'] = []
        eng.spec_env['GHOST'] = eng.ghost
        k = named(INT, 'hammingDistanceExpansion')
        eng.assume(k.z >= 0)
        o = Obj('BarcodeParser', {'barcodes': {'wl': ({'AAAA': 1} if not pending else {})}, 'extendedBarcodes': {'wl': {}},
                                  'pending_files': ({'wl': 'dir/wl.bc', 'other': 'dir/other.bc'} if pending else {'other': 'dir/other.bc'}),
                                  'hammingDistanceExpansion': k},
                info=eng.loader.classref(FP, 'BarcodeParser'))
        eng.loader.call_hooks[QP + 'parse_barcode_file'] = lambda e, f, a, kw, n: e.ghost['events'].append(('parse', a[0]))
        eng.loader.call_hooks[QP + 'expand'] = lambda e, f, a, kw, n: e.ghost['events'].append(
            ('expand', a[0] if a else kw.get('k'), kw.get('alias', a[1] if len(a) > 1 else None)))
        if not hook_loader:
            eng.loader.call_hooks.pop(QP + 'parse_pending_barcode_file_of_alias', None)
        return o
    return mk


LOADED_AND_EXPANDED = ('GHOST["events"] == [("parse", "dir/wl.bc"), ("expand", self.hammingDistanceExpansion, "wl")] and '
                       '("wl" not in self.pending_files) and ("other" in self.pending_files)')

load_pending = Contract(
    PROP, FP + '::BarcodeParser.parse_pending_barcode_file_of_alias', name='lazy.parse_pending_barcode_file_of_alias',
    params={'self': lazy_self(True, False), 'alias': ('const', 'wl')},
    cases=[{}, {'alias': ('const', 'missing')}],
    setup=lambda eng: None,
    ensures={'alias_parsed_then_expanded_with_the_parser_distance_then_no_longer_pending': LOADED_AND_EXPANDED},
    raises={'ValueError': 'alias == "missing"'},
)

getitem = Contract(
    PROP, FP + '::BarcodeParser.__getitem__', name='lazy.__getitem__',
    params={'self': lazy_self(True, False), 'alias': ('const', 'wl')},
    cases=[{}, {'self': lazy_self(False, False)}],
    setup=lambda eng: None,
    ensures={
        'a_pending_alias_is_parsed_and_expanded_before_it_stops_being_pending':
            'implies(PENDING, %s)' % LOADED_AND_EXPANDED,
        'a_loaded_alias_is_not_loaded_again': 'implies(not PENDING, GHOST["events"] == [])',
    },
    raises={},
)
getitem.pre_state = lambda eng, fr: eng.spec_env.update({'PENDING': 'wl' in fr.env['self'].attrs['pending_files']})

lookup_lazy = Contract(
    PROP, FP + '::BarcodeParser.getIndexCorrectedBarcodeAndHammingDistance', name='lazy.lookup',
    params={'self': lazy_self(True, False), 'barcode': 'str', 'alias': ('const', 'wl'), 'try_lazy_load_pending': ('const', True)},
    setup=lambda eng: None,
    ensures={'first_lookup_of_a_pending_alias_parses_and_expands_it': LOADED_AND_EXPANDED},
    raises={},
    assumptions=['parse_barcode_file / expand through hooks recording the call (their own contracts: resolve, sphere units); '
                 'the pending alias has no entries before it is loaded'],
)
UNITS += [load_pending, getitem, lookup_lazy]


def lazy_replay(entry):
    def replay(inputs, clause):
        """real BarcodeParser on a scratch barcode directory, alias wl lazily loaded, distance 1: after `entry` touched the
        alias a 1-mismatch barcode must resolve (it does in eager mode)"""
        import os
        import shutil
        import tempfile
        from pyvc.contract import import_real
        BP = import_real(FP, 'BarcodeParser')
        d = tempfile.mkdtemp(prefix='c03_')
        try:
            with open(os.path.join(d, 'wl.bc'), 'w') as f:
                f.write('AAAA\nCCGG\n')
            with open(os.path.join(d, 'other.bc'), 'w') as f:
                f.write('TTTT\n')
            eager = BP(d, hammingDistanceExpansion=1)
            want = eager.getIndexCorrectedBarcodeAndHammingDistance('AAAT', 'wl')
            runs = {}
            # the contract's pre-state: alias wl pending, its (defaultdict) table entries possibly created already by an
            # earlier getTargetCount('wl') - both histories are replayed
            for history in ('fresh parser', 'after getTargetCount'):
                lazy = BP(d, hammingDistanceExpansion=1, lazyLoad='*')
                if history == 'after getTargetCount':
                    lazy.getTargetCount('wl')
                if entry == 'getitem':
                    lazy['wl']
                elif entry == 'load':
                    lazy.parse_pending_barcode_file_of_alias('wl')
                got = lazy.getIndexCorrectedBarcodeAndHammingDistance('AAAT', 'wl')
                runs[history] = {'value': list(got), 'pending_after': sorted(lazy.pending_files),
                                 'ok': tuple(got) == tuple(want) and 'wl' not in lazy.pending_files and 'other' in lazy.pending_files}
            obs = {'outcome': 'return', 'value': runs, 'eager': list(want)}
            if not all(r['ok'] for r in runs.values()):
                return {'status': 'confirmed', 'observed': obs, 'failed': [{'clause': clause}]}
            return {'status': 'not-reproduced', 'observed': obs}
        finally:
            shutil.rmtree(d, ignore_errors=True)
    return replay


load_pending.replay = lazy_replay('load')
getitem.replay = lazy_replay('getitem')
lookup_lazy.replay = lazy_replay('lookup')


# ------------------------------------------------------------------------------ BarcodeParser.__init__: the tables belong to the instance
def ctor_setup(eng):
    from pyvc import externals
    externals.EXTRA['glob.glob'] = lambda e, a, k, n: []            # an empty barcode directory
    externals.EXTRA['os.path.realpath'] = lambda e, a, k, n: '/pkg/barcodeFileParser.py'
    externals.EXTRA['os.path.dirname'] = lambda e, a, k, n: '/pkg'
    externals.EXTRA['os.path.join'] = lambda e, a, k, n: '/'.join(str(x) for x in a)


parser_state = Contract(
    PROP, FP + '::BarcodeParser', name='BarcodeParser.__init__[instances share no tables]',
    harness='''
a = BarcodeParser(hammingDistanceExpansion=1)
b = BarcodeParser(hammingDistanceExpansion=0)
a.addBarcode('wl', 'AAAA', 1)
a.addBarcode('wl', 'AAAT', 1, hammingDistance=1, originBarcode='AAAA')
return (a, b)
''',
    params={}, setup=ctor_setup,
    ensures={
        'a_new_parser_knows_no_barcode': 'len(result[1].barcodes) == 0 and len(result[1].extendedBarcodes) == 0 and len(result[1].pending_files) == 0',
        'tables_are_per_instance': '(result[0].barcodes is not result[1].barcodes) and (result[0].extendedBarcodes is not result[1].extendedBarcodes)',
        'distance_as_given': 'result[0].hammingDistanceExpansion == 1 and result[1].hammingDistanceExpansion == 0',
    },
    raises={},
    assumptions=['an empty barcode directory (glob returns nothing): the constructor only allocates its tables'],
)
UNITS.append(parser_state)


# ------------------------------------------------------------------------------ parse_barcode_file: what the whitelist tables are filled with
# "barcode-first and index-first files": the index reported for a barcode is the one on its line of the file (bounded: 2 rows).
from pyvc import segstr as _segstr      # noqa: E402


def file_setup(kind):
    def setup(eng):
        import os
        from pyvc import externals
        ctor_setup(eng)
        externals.EXTRA['os.path.basename'] = lambda e, a, k, n: os.path.basename(a[0])
        externals.EXTRA['os.path.splitext'] = lambda e, a, k, n: os.path.splitext(a[0])
        bcs = []
        for i in range(2):
            b = _segstr.register_atom(eng, named(STR, 'barcode_%d' % i), ' \t\n\r\x0b\x0c0123456789')
            eng.assume(z3.Length(b.z) == 3)
            for j in range(3):
                eng.assume(z3.Or([z3.SubString(b.z, j, 1) == z3.StringVal(c) for c in 'ACGTN']))
            bcs.append(b)
        d = named(INT, 'index_0')
        eng.assume(z3.And(d.z >= 0, d.z <= 9))
        eng.spec_env['B'] = bcs
        eng.spec_env['D'] = d
        dpart = _segstr.parts_of(eng.to_str(d))
        if kind == 'one_column':
            lines = [[bcs[0], '\n'], [' ', bcs[1], ' \n']]
        elif kind == 'barcode_first':
            lines = [[bcs[0], '\t'] + dpart + ['\n'], [bcs[1], ' 12\n']]
        elif kind == 'index_first':
            lines = [dpart + ['\t', bcs[0], '\n'], ['12 ', bcs[1], '\n']]
        elif kind == 'named_index_first':
            lines = [['cell_a\t', bcs[0], '\n'], ['cell_b\t', bcs[1], '\n']]
        else:
            lines = [[bcs[0], '\t1\n'], [bcs[1], '\t2\textra\n']]
        fh = Obj('TextFile', {'lines': [_segstr.build(l) for l in lines]})
        fh.vc_immutable = True
        stubs.STUBS['TextFile'] = {'methods': {'__enter__': lambda e, o: o, '__exit__': lambda e, o, *a: None,
                                               '__iter__': lambda e, o: list(o.attrs['lines'])}, 'props': {}, 'setters': {}}
        eng.spec_env['open'] = Builtin('open', lambda e, a, k, n: fh)
    return setup


def file_replay(kind):
    def replay(inputs, clause):
        """the counter-model's two rows written to a real file in a scratch barcode directory, parsed by the real BarcodeParser;
        expected table computed from the rows"""
        import os
        import shutil
        import tempfile
        from pyvc.contract import import_real
        BP = import_real(FP, 'BarcodeParser')
        g = inputs.get('ghost') or {}
        b0, b1 = [str(x) for x in (g.get('B') or ['ACG', 'TTN'])]
        d0 = int(g.get('D') or 0)
        text, want, err = {
            'one_column': ('%s\n %s \n' % (b0, b1), [(b0, 1), (b1, 2)], None),
            'barcode_first': ('%s\t%d\n%s 12\n' % (b0, d0, b1), [(b0, d0), (b1, 12)], None),
            'index_first': ('%d\t%s\n12 %s\n' % (d0, b0, b1), [(b0, d0), (b1, 12)], None),
            'named_index_first': ('cell_a\t%s\ncell_b\t%s\n' % (b0, b1), [(b0, 'cell_a'), (b1, 'cell_b')], None),
            'three_column': ('%s\t1\n%s\t2\textra\n' % (b0, b1), None, ValueError),
        }[kind]
        d = tempfile.mkdtemp(prefix='c03_')
        try:
            with open(os.path.join(d, 'wl.bc'), 'w') as f:
                f.write(text)
            try:
                table = {k: dict(v) for k, v in BP(d, hammingDistanceExpansion=0).barcodes.items()}
                obs = {'outcome': 'return', 'value': {k: {kk: vv for kk, vv in v.items()} for k, v in table.items()}, 'file': text}
                ok = err is None and table == {'wl': dict(want)} and all(type(table['wl'][k]) is type(v) for k, v in dict(want).items())
            except Exception as e:      # noqa: BLE001
                obs = {'outcome': 'raise', 'exception': type(e).__name__, 'message': str(e)[:200], 'file': text}
                ok = err is not None and isinstance(e, err)
            if not ok:
                return {'status': 'confirmed', 'observed': obs, 'failed': [{'clause': clause}]}
            return {'status': 'not-reproduced', 'observed': obs}
        finally:
            shutil.rmtree(d, ignore_errors=True)
    return replay


def file_unit(kind, ensures, raises=None):
    u = _file_unit(kind, ensures, raises)
    u.replay = file_replay(kind)
    return u


def _file_unit(kind, ensures, raises=None):
    return Contract(
        PROP, FP + '::BarcodeParser.parse_barcode_file', name='parse_barcode_file[%s file, 2 rows]' % kind,
        harness='''
p = BarcodeParser(hammingDistanceExpansion=0)
p.parse_barcode_file('/pkg/barcodes/wl.bc')
return p.barcodes
''',
        params={}, setup=file_setup(kind), ensures=ensures, raises=raises or {},
        bounded='a whitelist file of 2 rows: barcodes of 3 symbolic letters over ACGTN (equal or different), first index a symbolic '
                'digit, second index 12 (or names)',
        assumptions=['text file iteration yields the lines (A4); an empty barcode directory at construction'],
    )


def _maps(first, second):
    return ('any(k == B[1] for k in result["wl"]) and all(implies(k == B[1], v == %s) for k, v in result["wl"].items()) and '
            'any(k == B[0] for k in result["wl"]) and all(implies(k == B[0] and B[0] != B[1], v == %s) for k, v in result["wl"].items())'
            % (second, first))


_ONE = 'len(result["wl"]) == (1 if B[0] == B[1] else 2) and len(result) == 1'
UNITS += [
    file_unit('one_column', {'index_is_the_line_number': _maps('1', '2'), 'one_entry_per_barcode': _ONE}),
    file_unit('barcode_first', {'index_is_the_second_column_as_integer': _maps('D', '12'), 'one_entry_per_barcode': _ONE}),
    file_unit('index_first', {'index_is_the_first_column_as_integer': _maps('D', '12'), 'one_entry_per_barcode': _ONE}),
    file_unit('named_index_first', {'index_is_the_name_in_the_first_column': _maps('"cell_a"', '"cell_b"'), 'one_entry_per_barcode': _ONE}),
    file_unit('three_column', {'refused': 'False'}, raises={'ValueError': 'True'}),
]


# ------------------------------------------------------------------------------ two files through one parser: each file on its own terms
# a parser reads every whitelist of the barcode directory; what one file looks like (barcode first / index first) must not
# carry over to the next (bounded: a barcode-first file followed by an index-first one, and the other order)
def two_files_setup(order):
    def setup(eng):
        import os
        from pyvc import externals
        ctor_setup(eng)
        externals.EXTRA['os.path.basename'] = lambda e, a, k, n: os.path.basename(a[0])
        externals.EXTRA['os.path.splitext'] = lambda e, a, k, n: os.path.splitext(a[0])
        bcs = []
        for i in range(2):
            b = _segstr.register_atom(eng, named(STR, 'barcode_%d' % i), ' \t\n\r\x0b\x0c0123456789')
            eng.assume(z3.Length(b.z) == 3)
            for j in range(3):
                eng.assume(z3.Or([z3.SubString(b.z, j, 1) == z3.StringVal(c) for c in 'ACGTN']))
            bcs.append(b)
        eng.spec_env['B'] = bcs
        files = {'/pkg/barcodes/bcfirst.bc': [_segstr.build([bcs[0], '\t5\n'])], '/pkg/barcodes/idxfirst.bc': [_segstr.build(['7\t', bcs[1], '\n'])]}
        stubs.STUBS['TextFile'] = {'methods': {'__enter__': lambda e, o: o, '__exit__': lambda e, o, *a: None,
                                               '__iter__': lambda e, o: list(o.attrs['lines'])}, 'props': {}, 'setters': {}}

        def opener(e, a, k, n):
            fh = Obj('TextFile', {'lines': files[a[0]]})
            fh.vc_immutable = True
            return fh
        eng.spec_env['open'] = Builtin('open', opener)
    return setup


def two_files_unit(order):
    first, second = ('bcfirst', 'idxfirst') if order == 0 else ('idxfirst', 'bcfirst')
    u = Contract(
        PROP, FP + '::BarcodeParser.parse_barcode_file', name='parse_barcode_file[%s file, then %s file, one parser]' % (first, second),
        harness='''
p = BarcodeParser(hammingDistanceExpansion=0)
p.parse_barcode_file('/pkg/barcodes/%s.bc')
p.parse_barcode_file('/pkg/barcodes/%s.bc')
return p.barcodes
''' % (first, second),
        params={}, setup=two_files_setup(order),
        ensures={'each_file_is_read_on_its_own_terms':
                 'len(result) == 2 and len(result["bcfirst"]) == 1 and len(result["idxfirst"]) == 1 and '
                 'all(k == B[0] and v == 5 for k, v in result["bcfirst"].items()) and '
                 'all(k == B[1] and v == 7 for k, v in result["idxfirst"].items())'},
        raises={},
        bounded='two one-row whitelist files (barcodes of 3 symbolic letters over ACGTN) read by the same parser',
        assumptions=['text file iteration yields the lines (A4); an empty barcode directory at construction'],
    )

    def replay(inputs, clause):
        import os
        import shutil
        import tempfile
        from pyvc.contract import import_real
        BP = import_real(FP, 'BarcodeParser')
        g = inputs.get('ghost') or {}
        b0, b1 = [str(x) for x in (g.get('B') or ['ACG', 'TTN'])]
        d, e_ = tempfile.mkdtemp(prefix='c03a_'), tempfile.mkdtemp(prefix='c03b_')
        try:
            paths = {'bcfirst': os.path.join(d, 'bcfirst.bc'), 'idxfirst': os.path.join(d, 'idxfirst.bc')}
            open(paths['bcfirst'], 'w').write('%s\\t5\\n' % b0)
            open(paths['idxfirst'], 'w').write('7\\t%s\\n' % b1)
            p = BP(e_, hammingDistanceExpansion=0)      # an empty barcode directory
            p.parse_barcode_file(paths[first])
            p.parse_barcode_file(paths[second])
            got = {k: dict(v) for k, v in p.barcodes.items()}
            want = {'bcfirst': {b0: 5}, 'idxfirst': {b1: 7}}
            obs = {'outcome': 'return', 'value': got, 'expected': want}
            if got != want:
                return {'status': 'confirmed', 'observed': obs, 'failed': [{'clause': clause}]}
            return {'status': 'not-reproduced', 'observed': obs}
        finally:
            shutil.rmtree(d, ignore_errors=True)
            shutil.rmtree(e_, ignore_errors=True)
    u.replay = replay
    return u


UNITS += [two_files_unit(0), two_files_unit(1)]
