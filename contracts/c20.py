"""C20 - the status marker reports success only for a complete, sorted, indexed output."""
import ast

import z3

from pyvc.contract import Contract
from pyvc.engine import LoopSpec, Obj, Builtin, PyRaise, fresh, BOOL, INT, STR
from pyvc import blocks, externals, stubs

PROP = 'C20'
LEVEL = 'proof'
FT = 'singlecellmultiomics/universalBamTagger/bamtagmultiome.py'
FB = 'singlecellmultiomics/bamProcessing/bamFunctions.py'
OK = 'Reached end. All ok!'


def fault(eng, label, content=True):
    """every external step may fail: nondeterministic exception at this call (content=False: a clean-up step whose failure
    leaves the output as complete as it was)"""
    if eng.ghost.get('no_faults'):       # units of other properties that reuse these stubs without failure injection
        return
    b = fresh(BOOL, 'fails_' + label)
    if eng.branch(b.z):
        eng.ghost.setdefault('faults', []).append(label)
        if content:
            eng.ghost.setdefault('content_faults', []).append(label)
        # an error of the step, or the process being interrupted there (SIGINT arrives as KeyboardInterrupt - no Exception)
        if eng.branch(fresh(BOOL, 'interrupted_at_' + label).z):
            raise PyRaise('KeyboardInterrupt', 'interrupted at ' + label)
        raise PyRaise('AnyError', 'injected failure at ' + label)      # an Exception of unknown class (see engine.handler_matches)


def monitor(eng, node, fr):
    """typestate monitor, evaluated after every statement and on every exceptional edge:
    status file says success  ==>  output closed, sorted and indexed (and merged, in the multiprocess pipeline)"""
    g = eng.ghost
    if g.get('status') == OK:
        done = all(g.get(k) for k in g.get('needs', ()))
        eng.check('monitor.success_status_implies_finalized_output', bool(done), kind='monitor',
                  info={'line': getattr(node, 'lineno', None), 'missing': [k for k in g.get('needs', ()) if not g.get(k)]})
        # ... and a complete one: no step of this run failed or was interrupted before the success status was written
        eng.check('monitor.success_status_only_after_a_run_without_failed_or_interrupted_steps', not g.get('content_faults'), kind='monitor',
                  info={'line': getattr(node, 'lineno', None), 'failed_steps': list(g.get('content_faults', []))})
    else:
        eng.check('monitor.success_status_implies_finalized_output', True, kind='monitor')
        eng.check('monitor.success_status_only_after_a_run_without_failed_or_interrupted_steps', True, kind='monitor')


def common_setup(eng, needs):
    eng.monitor = monitor
    eng.ghost = {'status': 'unfinished', 'needs': needs}
    E = externals.EXTRA

    def write_status(e, f, args, kwargs, node):
        fault(e, 'write_status')
        e.ghost['status'] = args[1]
    for q in ('singlecellmultiomics.universalBamTagger.bamtagmultiome.write_status',):
        eng.loader.call_hooks[q] = write_status

    def out_bam(e, a, k, n):
        fault(e, 'open_bam')
        o = Obj('BamHandle', {})
        o.vc_immutable = True
        return o

    def close(e, o):
        fault(e, 'close')
        e.ghost['closed'] = True

    class Header:
        def vc_getattr(self, eng_, attr, node=None):
            from pyvc.engine import BoundMethod
            return BoundMethod(attr, lambda e, a, k: {} if attr == 'as_dict' else Header())
    stubs.STUBS['BamHandle'] = {'methods': {'close': close, '__enter__': lambda e, o: o, '__exit__': lambda e, o, *a: None},
                                'props': {'header': lambda e, o: Header()}, 'setters': {}}
    E['pysam.AlignmentFile'] = out_bam
    E['os.path.dirname'] = lambda e, a, k, n: ''
    E['os.path.exists'] = lambda e, a, k, n: True
    E['os.makedirs'] = lambda e, a, k, n: None
    E['os.rename'] = lambda e, a, k, n: fault(e, 'rename')
    E['time.sleep'] = lambda e, a, k, n: None
    E['datetime.datetime.now'] = lambda e, a, k, n: _Now()

    def pysam_index(e, a, k, n):
        fault(e, 'index')
        e.ghost['indexed'] = True
    E['pysam.index'] = pysam_index

    def rg(e, f, args, kwargs, node):
        fault(e, 'add_readgroups_to_header')
    eng.loader.call_hooks['singlecellmultiomics.bamProcessing.bamFunctions.add_readgroups_to_header'] = rg

    def sort_and_index(e, f, args, kwargs, node):
        fault(e, 'sort')
        e.ghost['sorted'] = True
        fault(e, 'index')
        e.ghost['indexed'] = True
    eng.loader.call_hooks['singlecellmultiomics.bamProcessing.bamFunctions.sort_and_index'] = sort_and_index
    eng.loader.call_hooks['singlecellmultiomics.bamProcessing.bamFunctions.write_program_tag'] = lambda e, f, a, k, n: None


class _Now:
    def vc_getattr(self, eng, attr, node=None):
        from pyvc.engine import BoundMethod
        return BoundMethod(attr, lambda e, a, k: 'now')


# ------------------------------------------------------------------------------ single-process pipeline
def single_setup(eng):
    common_setup(eng, ('closed', 'sorted', 'indexed'))

    def mol(e, nm):
        o = Obj('MolStub', {})
        o.vc_immutable = True
        return o

    def m(label, ret=None):
        def f(e, o, *a, **k):
            fault(e, label)
            return ret() if callable(ret) else ret
        return f
    frag = Obj('FragStub', {})
    frag.vc_immutable = True
    stubs.STUBS['FragStub'] = {'methods': {'get_read_group': m('get_read_group', lambda: ('rg', 'rgdef'))}, 'props': {}, 'setters': {}}
    stubs.STUBS['MolStub'] = {'methods': {'set_meta': m('set_meta'), 'get_a_reference_id': m('get_a_reference_id', 'ref'),
                                          'write_tags': m('write_tags'), 'write_pysam': m('write_pysam'),
                                          '__iter__': lambda e, o: [frag]}, 'props': {}, 'setters': {}}
    externals.EXTRA['itertools.chain'] = lambda e, a, k, n: stubs.ObjSeq(mol, 'molecules')


def mol_iter(eng, name):
    return Builtin('molecule_iterator', lambda e, a, k, n: (fault(e, 'molecule_iterator'), stubs.ObjSeq(lambda e2, nm: None, 'it'))[1])


single = Contract(
    PROP, FT + '::tag_multiome_single_thread', name='tag_multiome_single_thread',
    params={'input_bam_path': ('const', 'in.bam'), 'out_bam_path': ('const', 'out.bam'), 'molecule_iterator': mol_iter,
            'molecule_iterator_args': ('const', None), 'consensus_model': 'none', 'consensus_model_args': ('const', None),
            'ignore_bam_issues': ('const', False), 'head': 'none', 'no_source_reads': 'bool'},
    pre_state=lambda eng, fr: fr.env.update({'molecule_iterator_args': {'contig': None, 'start': None, 'end': None},
                                             'consensus_model_args': {}}),
    setup=single_setup,
    loops={0: LoopSpec(inv={}, types={'read_groups': 'frame', 'rgid': 'frame', 'fragment': 'frame'})},
    raises={'Exception': 'True', 'KeyboardInterrupt': 'True'},
    assumptions=['every external step (opening, molecule iteration, tag writing, record writing, closing, read-group header '
                 'rewrite, sort, index, the status write itself) may raise at any call: exceptions stand for failures and '
                 'kills at step boundaries; a kill inside one external call is not modelled',
                 'status file holds "unfinished" when the pipeline function is entered (written by run_multiome_tagging)',
                 'write_status atomically replaces the status text (trusted)'],
)

UNITS = [single]


# ---- replay: the real command-line pipeline on the repository's test BAM with one injected failure after the point
# where the monitor is violated; observes the status file and the output
def single_replay(inputs, clause):
    import os
    import shutil
    import tempfile
    import importlib
    import pysam
    from pyvc.loader import REPO
    import sys
    if REPO not in sys.path:
        sys.path.insert(0, REPO)
    mod = importlib.import_module('singlecellmultiomics.universalBamTagger.bamtagmultiome')
    src = os.path.join(REPO, 'data', 'mini_nla_test.bam')
    if not os.path.exists(src):
        return {'status': 'no-input', 'note': 'test BAM data/mini_nla_test.bam not present'}
    d = tempfile.mkdtemp(prefix='c20_', dir=os.path.join(os.path.dirname(os.path.dirname(os.path.abspath(__file__))), '.scratch')
                         if os.path.isdir(os.path.join(os.path.dirname(os.path.dirname(os.path.abspath(__file__))), '.scratch')) else None)
    results = []
    failed = []
    try:
        for step in ('sort', 'index'):
            out = os.path.join(d, 'out_%s.bam' % step)
            real = getattr(pysam, step)

            def boom(*a, **k):
                raise RuntimeError('injected %s failure' % step)
            setattr(pysam, step, boom)
            err = None
            devnull = open(os.devnull, 'w')
            so, se = sys.stdout, sys.stderr
            sys.stdout = sys.stderr = devnull
            try:
                mod.run_multiome_tagging_cmd([src, '-method', 'nla', '-o', out])
            except BaseException as e:      # noqa
                err = type(e).__name__
            finally:
                sys.stdout, sys.stderr = so, se
                devnull.close()
                setattr(pysam, step, real)
            status_path = out.replace('.bam', '.status.txt')
            status = open(status_path).read().strip() if os.path.exists(status_path) else None
            complete = os.path.exists(out) and os.path.exists(out + '.bai')
            results.append({'injected_failure': step, 'pipeline_raised': err, 'status_file': status,
                            'output_bam_exists': os.path.exists(out), 'index_exists': os.path.exists(out + '.bai')})
            if status == OK and not complete:
                failed.append({'clause': 'monitor.success_status_implies_finalized_output', 'injected_failure': step,
                               'status_file': status, 'output_complete': complete})
        # an error / an interruption (SIGINT) while the 20th molecule is tagged: the run is not complete, whatever is on disk
        mol_mod = importlib.import_module('singlecellmultiomics.molecule.molecule')
        with pysam.AlignmentFile(src) as f:
            n_in = sum(1 for _ in f.fetch(until_eof=True))
        for exc in (RuntimeError, KeyboardInterrupt):
            out = os.path.join(d, 'out_%s.bam' % exc.__name__)
            real_wt = mol_mod.Molecule.write_tags
            state = {'n': 0}

            def wt(self_, *a, **k):
                state['n'] += 1
                if state['n'] == 20:
                    raise exc('injected while tagging molecule 20')
                return real_wt(self_, *a, **k)
            mol_mod.Molecule.write_tags = wt
            err = None
            devnull = open(os.devnull, 'w')
            so, se = sys.stdout, sys.stderr
            sys.stdout = sys.stderr = devnull
            try:
                mod.run_multiome_tagging_cmd([src, '-method', 'nla', '-o', out])
            except BaseException as e:      # noqa
                err = type(e).__name__
            finally:
                sys.stdout, sys.stderr = so, se
                devnull.close()
                mol_mod.Molecule.write_tags = real_wt
            status_path = out.replace('.bam', '.status.txt')
            status = open(status_path).read().strip() if os.path.exists(status_path) else None
            n_out = None
            if os.path.exists(out):
                try:
                    with pysam.AlignmentFile(out) as f:
                        n_out = sum(1 for _ in f.fetch(until_eof=True))
                except Exception:      # noqa: BLE001
                    n_out = -1
            results.append({'injected': '%s while tagging molecule 20' % exc.__name__, 'pipeline_raised': err, 'status_file': status,
                            'records_in': n_in, 'records_out': n_out})
            if status == OK and n_out != n_in:
                failed.append({'clause': 'monitor.success_status_only_after_a_run_without_failed_or_interrupted_steps',
                               'injected': exc.__name__, 'status_file': status, 'records_in': n_in, 'records_out': n_out})
    finally:
        shutil.rmtree(d, ignore_errors=True)
    obs = {'outcome': 'return', 'value': results}
    if failed:
        return {'status': 'confirmed', 'observed': obs, 'failed': failed}
    return {'status': 'not-reproduced', 'observed': obs}


single.replay = single_replay


# ------------------------------------------------------------------------------ multiprocess pipeline: the tail of
# tag_multiome_multi_processing (merge -> cleanup -> status) is the only place that writes a status in that function
def multi_tail(f):
    calls = [n for n in ast.walk(f) if isinstance(n, ast.Call) and ast.unparse(n.func) == 'write_status']
    if len(calls) != 1:
        return []       # re-anchor: the contract assumes the success status is written exactly once, in the tail
    return blocks.stmts_between(
        f, lambda st: isinstance(st, ast.If) and ast.unparse(st.test) == 'use_pool' and 'workers.close()' in ast.unparse(st),
        lambda st: isinstance(st, ast.Expr) and isinstance(st.value, ast.Call) and ast.unparse(st.value.func) == 'write_status')


def multi_setup(eng):
    common_setup(eng, ('merged', 'indexed'))

    def merge_bams(e, f, args, kwargs, node):
        fault(e, 'merge')
        e.ghost['merged'] = True
        fault(e, 'index')
        e.ghost['indexed'] = True
    eng.loader.call_hooks['singlecellmultiomics.bamProcessing.bamFunctions.merge_bams'] = merge_bams
    externals.EXTRA['shutil.rmtree'] = lambda e, a, k, n: fault(e, 'rmtree', content=False)
    externals.EXTRA['time.sleep'] = lambda e, a, k, n: None
    pool = Obj('Pool', {})
    pool.vc_immutable = True
    stubs.STUBS['Pool'] = {'methods': {'close': lambda e, o: fault(e, 'pool_close')}, 'props': {}, 'setters': {}}
    eng.spec_env['POOL'] = pool


multi = Contract(
    PROP, FT + '::tag_multiome_multi_processing', name='tag_multiome_multi_processing.tail',
    block=multi_tail,
    params={'use_pool': 'bool', 'workers': lambda eng, name: eng.spec_env.get('POOL'), 'tagged_bam_generator': ('const', ('a.bam',)),
            'out_bam_path': ('const', 'out.bam'), 'n_threads': 'none', 'temp_folder': ('const', '/tmp/x')},
    setup=multi_setup,
    raises={'Exception': 'True', 'KeyboardInterrupt': 'True'},
    assumptions=['merge_bams merges and indexes (assumed contract, each step may fail); everything before the tail can only '
                 'raise (no status write precedes it - checked syntactically by the block selector)'],
)
UNITS.append(multi)


# ------------------------------------------------------------------------------ workers must not swallow failures:
# run_tagging_tasks returns normally only if none of its tasks failed (a swallowed exception would let the parent
# merge a partial result and report success)
FG = 'singlecellmultiomics/universalBamTagger/tagging.py'


def worker_setup(eng):
    common_setup(eng, ())
    eng.monitor = None
    externals.EXTRA['os.path.exists'] = lambda e, a, k, n: False
    externals.EXTRA['uuid.uuid4'] = lambda e, a, k, n: 'uuid'
    externals.EXTRA['os.remove'] = lambda e, a, k, n: None
    eng.ghost['task_failed'] = False

    def task_stub(e, f, args, kwargs, node):
        b = fresh(BOOL, 'task_fails')
        if e.branch(b.z):
            e.ghost['task_failed'] = True
            raise PyRaise('AnyError', 'failure inside a tagging task')      # of any class (ValueError, OSError, ...)
        return {'total_molecules_written': 1, 'time_start': None}
    eng.loader.call_hooks['singlecellmultiomics.universalBamTagger.tagging.run_tagging_task'] = task_stub
    eng.spec_env['GHOST'] = eng.ghost


worker = Contract(
    PROP, FG + '::run_tagging_tasks', name='run_tagging_tasks.failure_propagates',
    params={'args': ('const', (('in.bam', '/tmp/x', None), [{'contig': '*'}, {'contig': 'a'}, {'contig': 'b'}]))},
    setup=worker_setup,
    ensures={'normal_return_means_no_task_failed': 'GHOST["task_failed"] == False'},
    raises={'Exception': 'True', 'KeyboardInterrupt': 'True'},
    bounded=None,
    assumptions=['three tasks per job - the unmapped bin * and two contigs (the loop is unrolled: the claim is about exception propagation through the real '
                 'sorted_bam_file context manager and the real try/except of run_tagging_tasks, not about task counts)'],
)
UNITS.append(worker)


def worker_replay(inputs, clause):
    """real run_tagging_tasks + real sorted_bam_file on the repository's test BAM; the second task fails"""
    import importlib
    import os
    import shutil
    import sys
    import tempfile
    from pyvc.loader import REPO
    if REPO not in sys.path:
        sys.path.insert(0, REPO)
    mod = importlib.import_module('singlecellmultiomics.universalBamTagger.tagging')
    src = os.path.join(REPO, 'data', 'mini_nla_test.bam')
    saved = mod.run_tagging_task
    so, se = sys.stdout, sys.stderr
    dn = open(os.devnull, 'w')
    sys.stdout = sys.stderr = dn
    rows, bad = [], False
    try:
        # a failure of several classes, in the task of the unmapped bin and in the task of a contig
        for exc, failing in ((RuntimeError, 2), (ValueError, 1), (ValueError, 2), (OSError, 1), (KeyError, 3)):
            calls = []

            def fake(*a, **k):
                calls.append(1)
                if len(calls) == failing:
                    raise exc('injected failure inside tagging task %d' % failing)
                return {'total_molecules_written': 1}
            mod.run_tagging_task = fake
            d = tempfile.mkdtemp(prefix='c20w_')
            try:
                out = mod.run_tagging_tasks(((src, d, None), [{'contig': '*'}, {'contig': 'a'}, {'contig': 'b'}]))
                rows.append({'failure': exc.__name__, 'in_task': failing, 'outcome': 'returned normally', 'value': [out[0] is not None, out[1]]})
                bad = True
            except Exception as e:     # noqa
                rows.append({'failure': exc.__name__, 'in_task': failing, 'outcome': 'raised ' + type(e).__name__})
            finally:
                shutil.rmtree(d, ignore_errors=True)
    finally:
        sys.stdout, sys.stderr = so, se
        dn.close()
        mod.run_tagging_task = saved
    outcome = {'outcome': 'return', 'value': rows}
    if bad:
        return {'status': 'confirmed', 'observed': outcome,
                'failed': [{'clause': 'normal_return_means_no_task_failed', 'why': 'the worker returned normally although a task raised'}]}
    return {'status': 'not-reproduced', 'observed': outcome}


worker.replay = worker_replay


# ------------------------------------------------------------------------------ sort_and_index: returns only after a sort
# attempt succeeded and the index was written; the unsorted file is removed only after that.  The pipeline units above
# use this function through exactly this contract (sorted and indexed set, or an exception).
def sai_setup(eng):
    eng.monitor = None
    eng.ghost = {'sorted': False, 'indexed': False, 'removed_before_done': False, 'sort_calls': 0}
    eng.spec_env['GHOST'] = eng.ghost
    E = externals.EXTRA

    def sort(e, a, k, n):
        e.ghost['sort_calls'] += 1
        e.ghost['sorted'] = False          # a failed attempt leaves no usable output (partial file)
        fault(e, 'sort')
        e.ghost['sorted'] = True

    def index(e, a, k, n):
        fault(e, 'index')
        e.ghost['indexed'] = bool(e.ghost['sorted'])

    def remove(e, a, k, n):
        if not (e.ghost['sorted'] and e.ghost['indexed']):
            e.ghost['removed_before_done'] = True
        fault(e, 'remove')
    E['pysam.sort'], E['pysam.index'], E['os.remove'] = sort, index, remove
    E['os.path.abspath'] = lambda e, a, k, n: '/out'
    E['os.path.dirname'] = lambda e, a, k, n: '/out'
    E['uuid.uuid4'] = lambda e, a, k, n: 'uuid'


sort_and_index = Contract(
    PROP, FB + '::sort_and_index', name='sort_and_index',
    params={'unsorted_path': ('const', '/out/x.unsorted.bam'), 'sorted_path': ('const', '/out/x.bam'), 'remove_unsorted': 'bool',
            'local_temp_sort': 'bool', 'fast_compression': 'bool', 'prefix': ('const', 'TMP')},
    setup=sai_setup,
    ensures={
        'returns_only_with_a_sorted_and_indexed_output': 'GHOST["sorted"] and GHOST["indexed"]',
        'unsorted_input_is_removed_only_after_success': 'not GHOST["removed_before_done"]',
        'no_more_sort_attempts_than_temp_locations': 'GHOST["sort_calls"] <= 3',
    },
    raises={'Exception': 'True', 'KeyboardInterrupt': 'True'},
    assumptions=['pysam.sort / pysam.index / os.remove may raise at every call; a failed sort leaves no usable output file '
                 '(a partial or stale file at the output path is not a sorted output)'],
)
UNITS.append(sort_and_index)


def sai_replay(inputs, clause):
    """real sort_and_index with pysam.sort failing at every temp location and a stale indexable file at the output path"""
    import os
    import shutil
    import tempfile
    import pysam
    from pyvc.contract import import_real
    from pyvc.loader import REPO
    fn = import_real(FB, 'sort_and_index')
    src = os.path.join(REPO, 'data', 'mini_nla_test.bam')
    if not os.path.exists(src):
        return {'status': 'no-input', 'note': 'test BAM data/mini_nla_test.bam not present'}
    base = os.path.join(os.path.dirname(os.path.dirname(os.path.abspath(__file__))), '.scratch')
    os.makedirs(base, exist_ok=True)
    d = tempfile.mkdtemp(prefix='c20s_', dir=base)
    real_sort = pysam.sort
    calls = []
    try:
        unsorted, out = os.path.join(d, 'x.unsorted.bam'), os.path.join(d, 'x.bam')
        shutil.copy(src, unsorted)
        shutil.copy(src, out)           # a stale (old) file at the output path

        def boom(*a, **k):
            calls.append(a)
            raise RuntimeError('injected sort failure (disk full)')
        pysam.sort = boom
        try:
            fn(unsorted, out, remove_unsorted=True, local_temp_sort=bool(inputs.get('local_temp_sort', True)))
            returned = True
        except Exception as e:      # noqa
            returned = False
    finally:
        pysam.sort = real_sort
        obs = {'outcome': 'return', 'value': {'returned_normally': locals().get('returned'), 'sort_attempts': len(calls),
                                              'unsorted_still_there': os.path.exists(os.path.join(d, 'x.unsorted.bam'))}}
        shutil.rmtree(d, ignore_errors=True)
    if obs['value']['returned_normally']:
        return {'status': 'confirmed', 'observed': obs,
                'failed': [{'clause': 'returns_only_with_a_sorted_and_indexed_output', 'why': 'every sort attempt failed, the function returned'}]}
    # second scenario: the sort works, the index step fails - a normal return needs an index next to the output (bai or csi)
    d = tempfile.mkdtemp(prefix='c20s_', dir=base)
    real_index = pysam.index
    try:
        unsorted, out = os.path.join(d, 'x.unsorted.bam'), os.path.join(d, 'x.bam')
        shutil.copy(src, unsorted)

        def boom_index(*a, **k):
            raise RuntimeError('injected index failure')
        pysam.index = boom_index
        try:
            fn(unsorted, out, remove_unsorted=True, local_temp_sort=bool(inputs.get('local_temp_sort', True)))
            returned2 = True
        except Exception:      # noqa: BLE001
            returned2 = False
        indexed = os.path.exists(out + '.bai') or os.path.exists(out + '.csi')
    finally:
        pysam.index = real_index
        shutil.rmtree(d, ignore_errors=True)
    obs['value']['index_failure'] = {'returned_normally': returned2, 'index_exists': indexed}
    if returned2 and not indexed:
        return {'status': 'confirmed', 'observed': obs,
                'failed': [{'clause': 'returns_only_with_a_sorted_and_indexed_output', 'why': 'the index step failed, the function returned without an index'}]}
    return {'status': 'not-reproduced', 'observed': obs}


sort_and_index.replay = sai_replay


def extra_units():
    """"whenever the status file reports success the output ... contains every record": a worker job keeps its temporary BAM
    iff any of its tasks wrote a molecule, and reports the sum of all its tasks (C05's unit, re-verified under this property)"""
    from contracts import c05
    from pyvc.units import share
    # "... and contains every record": a fault-free multiprocess run loses no contig (job list of C05)
    return [share(c05.run_tagging_tasks, PROP)] + [share(u, PROP) for u in c05.JOB_UNITS] + [share(c05.contigs_with_reads, PROP)]


# ------------------------------------------------------------------------------ run_multiome_tagging: a stale success marker
# A previous run may have left "Reached end. All ok!" next to a complete output.  The new run removes that output: the
# marker must say 'unfinished' before the old output (or its index) disappears, whatever fails in between.
def prologue_block(f):
    return blocks.stmts_between(
        f, lambda st: isinstance(st, ast.If) and "args.o.endswith('.bam')" in ast.unparse(st.test),
        lambda st: isinstance(st, ast.For) and 'remove_existing_path' in ast.unparse(st.target))


def prologue_monitor(eng, node, fr):
    g = eng.ghost
    ok = g['status'] != OK or (g['output_exists'] and g['index_exists'])
    eng.check('monitor.success_status_implies_the_output_and_its_index_exist', bool(ok), kind='monitor',
              info={'line': getattr(node, 'lineno', None), 'status': g['status'], 'output_exists': g['output_exists']})


def prologue_setup(eng):
    eng.ghost = {'status': OK, 'output_exists': True, 'index_exists': True}      # what a successful earlier run left behind
    eng.monitor = prologue_monitor
    E = externals.EXTRA

    def write_status(e, f, args, kwargs, node):
        fault(e, 'write_status')
        e.ghost['status'] = args[1]
    eng.loader.call_hooks['singlecellmultiomics.universalBamTagger.bamtagmultiome.write_status'] = write_status
    for q, label in (('singlecellmultiomics.universalBamTagger.bamtagmultiome.sam_to_bam', 'sam_to_bam'),
                     ('singlecellmultiomics.bamProcessing.bamFunctions.sam_to_bam', 'sam_to_bam'),
                     ('singlecellmultiomics.universalBamTagger.bamtagmultiome.verify_and_fix_bam', 'verify_and_fix_bam'),
                     ('singlecellmultiomics.bamProcessing.bamFunctions.verify_and_fix_bam', 'verify_and_fix_bam')):
        eng.loader.call_hooks[q] = (lambda lab: (lambda e, f, a, k, n: (fault(e, lab), (None, None))[1]))(label)
    E['os.path.exists'] = lambda e, a, k, n: e.ghost['output_exists'] if a[0] == 'out.bam' else e.ghost['index_exists']

    def remove(e, a, k, n):
        fault(e, 'remove')
        e.ghost['output_exists' if a[0] == 'out.bam' else 'index_exists'] = False
    E['os.remove'] = remove


def prologue_args(eng, name):
    return Obj('Namespace', {'o': 'out.bam', 'bamin': 'in.bam', 'ignore_bam_issues': fresh(BOOL, 'ignore_bam_issues'),
                             'every_fragment_as_molecule': False, 'skip_contig': None})


prologue = Contract(
    PROP, FT + '::run_multiome_tagging', name='run_multiome_tagging[old output removed only after the marker says unfinished]',
    block=prologue_block,
    params={'args': prologue_args},
    setup=prologue_setup,
    raises={'Exception': 'True', 'KeyboardInterrupt': 'True'},
    assumptions=['an earlier successful run left the success marker and a complete output; verify_and_fix_bam, the status '
                 'write and os.remove may fail at every call; the input is a BAM file'],
)
UNITS.append(prologue)


# ------------------------------------------------------------------------------ merge_bams: returns normally only with a merged AND indexed
# output (the multiprocess tail writes the success marker right after it); the parts are removed only after that
def mb_setup(eng):
    eng.monitor = None
    eng.ghost = {'merged': False, 'indexed': False, 'removed_before_done': False, 'merged_inputs': []}
    eng.spec_env['GHOST'] = eng.ghost
    E = externals.EXTRA

    def merge(e, a, k, n):
        fault(e, 'merge')
        e.ghost['merged'] = True
        e.ghost['merged_inputs'] = e.ghost.get('merged_inputs', []) + [x for x in a[1:] if not str(x).startswith('-')]

    def index(e, a, k, n):
        fault(e, 'index')
        e.ghost['indexed'] = bool(e.ghost['merged'])

    def move(e, a, k, n):
        fault(e, 'move')
        if str(a[0]).endswith('.bai'):
            e.ghost['indexed'] = bool(e.ghost['merged'])
        else:
            e.ghost['merged'] = True
            e.ghost['merged_inputs'] = [a[0]]

    def remove(e, a, k, n):
        if not (e.ghost['merged'] and e.ghost['indexed']):
            e.ghost['removed_before_done'] = True
        fault(e, 'remove')
    E['pysam.merge'], E['pysam.index'], E['os.remove'] = merge, index, remove
    E['shutil.move'] = move
    E['shutil.which'] = lambda e, a, k, n: None             # no samtools binary: pysam.merge

    # a part may hold any number of records - none, only records without coordinate (count() == 0), ...
    def bam(e, a, k, n):
        o = Obj('PartBam', {'path': a[0]})
        o.vc_immutable = True
        return o

    def count(e, o, *a, **k):
        c = fresh(INT, 'records_with_coordinate')
        e.assume(c.z >= 0)
        return c
    stubs.STUBS['PartBam'] = {'methods': {'__enter__': lambda e, o: o, '__exit__': lambda e, o, *a: None, 'count': count,
                                          'close': lambda e, o: None},
                              'props': {'mapped': lambda e, o: count(e, o), 'unmapped': lambda e, o: count(e, o)}, 'setters': {}}
    E['pysam.AlignmentFile'] = bam
    E['os.path.exists'] = lambda e, a, k, n: True
    for q in ('singlecellmultiomics.bamProcessing.bamFunctions.move', 'singlecellmultiomics.bamProcessing.bamFunctions.which'):
        pass


merge_bams = Contract(
    PROP, FB + '::merge_bams', name='merge_bams',
    params={'bams': ('const', ['part1.bam', 'part2.bam']), 'output_path': ('const', 'out.bam'), 'threads': ('const', 4)},
    cases=[{}, {'bams': ('const', ['part1.bam'])}, {'bams': ('const', ['part1.bam', 'part2.bam', 'part3.bam'])},
           {'bams': ('const', ['part%d.bam' % i for i in range(300)])}],      # more parts than any batch size one would pick
    setup=mb_setup,
    ensures={
        'returns_only_with_a_merged_and_indexed_output': 'GHOST["merged"] and GHOST["indexed"]',
        # conservation: whatever a part holds (possibly only records without coordinate), it is one of the merged inputs
        'every_part_is_merged': 'sorted([x for x in GHOST["merged_inputs"] if x != "out.bam"]) == sorted(list(BAMS0))',
        'parts_are_removed_only_after_that': 'not GHOST["removed_before_done"]',
    },
    raises={'Exception': 'True', 'KeyboardInterrupt': 'True'},
    assumptions=['pysam.merge / pysam.index / shutil.move / os.remove may fail at every call; no samtools binary on the PATH (the '
                 'pysam.merge branch); the parts are indexed'],
)
def merge_bams_replay(inputs, clause):
    """real indexed part files - one with placed records, one holding only records without coordinate, one empty - through the
    real merge_bams: the merged file must hold every record of every part"""
    import os
    import shutil
    import tempfile
    import pysam
    from pyvc.contract import import_real
    fn = import_real(FB, 'merge_bams')
    n_parts = len(inputs.get('bams') or ['a', 'b'])
    d = tempfile.mkdtemp(prefix='c20m_')
    try:
        header = pysam.AlignmentHeader.from_dict({'HD': {'VN': '1.6', 'SO': 'coordinate'}, 'SQ': [{'SN': 'chr1', 'LN': 1000}]})
        contents = [['placed1', 'placed2'], ['*nocoord1', '*nocoord2'], []][:max(n_parts, 1)]
        contents += [['extra%d' % i] for i in range(3, n_parts)]      # as many parts as the counter-model has
        paths, names = [], []
        for i, recs in enumerate(contents):
            p = os.path.join(d, 'part%d.bam' % i)
            with pysam.AlignmentFile(p, 'wb', header=header) as o:
                for j, nm in enumerate(recs):
                    a = pysam.AlignedSegment(header)
                    a.query_name, a.query_sequence = nm, 'ACGT'
                    a.query_qualities = pysam.qualitystring_to_array('IIII')
                    if nm.startswith('*'):
                        a.flag = 4
                    else:
                        a.reference_id, a.reference_start, a.cigartuples, a.mapping_quality, a.flag = 0, 10 + j, [(0, 4)], 60, 0
                    o.write(a)
                    names.append(nm)
            pysam.index(p)
            paths.append(p)
        out = os.path.join(d, 'merged.bam')
        # the failing steps of the counter-model (an index or merge step that raises), realised on the real pysam module
        faults = [x for x in (((inputs.get('ghost') or {}).get('GHOST') or {}).get('faults') or []) if x in ('index', 'merge')]
        real = {'index': pysam.index, 'merge': pysam.merge}

        def boom(*a, **k):
            raise OSError('injected failure')
        for x in faults:
            setattr(pysam, x, boom)
        try:
            try:
                fn(paths, out, 1)
                returned = True
                err = None
            except Exception as e:      # noqa: BLE001
                returned, err = False, '%s: %s' % (type(e).__name__, str(e)[:200])
        finally:
            for x in faults:
                setattr(pysam, x, real[x])
        got = None
        if os.path.exists(out):
            try:
                with pysam.AlignmentFile(out) as f:
                    got = sorted(r.query_name for r in f.fetch(until_eof=True))
            except Exception:      # noqa: BLE001
                got = 'unreadable'
        complete = got == sorted(names) and os.path.exists(out + '.bai')
        obs = {'outcome': 'return' if returned else 'raise', 'value': {'returned_normally': returned, 'error': err, 'records': got,
                                                                       'index_exists': os.path.exists(out + '.bai'),
                                                                       'injected_failures': faults},
               'expected': sorted(names), 'parts': contents}
        # it may return normally only with a complete merged and indexed output; without injected failure it must do so
        if (returned and not complete) or (not faults and not returned):
            return {'status': 'confirmed', 'observed': obs, 'failed': [{'clause': clause}]}
        return {'status': 'not-reproduced', 'observed': obs}
    finally:
        shutil.rmtree(d, ignore_errors=True)


merge_bams.replay = merge_bams_replay
merge_bams.pre_state = lambda eng, fr: eng.spec_env.update({'BAMS0': list(fr.env['bams'])})
UNITS.append(merge_bams)


# ------------------------------------------------------------------------------ replace_bam_header (pysam mode): the re-headered copy
# The read-group header rewrite copies every record of the unsorted output into a new file and moves it over the original
# before the sort.  It returns normally only after a complete copy was moved into place; whenever a copy that is not complete
# is moved into place it must not return normally (the pipeline would sort, index and report a truncated file).
def rehead_setup(eng):
    eng.monitor = None
    eng.ghost = {'written': 0, 'moved_with': None, 'out_closed': False}
    eng.spec_env['GHOST'] = eng.ghost
    E = externals.EXTRA
    N = 3

    def opener(e, a, k, n):
        fault(e, 'open')
        if len(a) > 1 and 'w' in str(a[1]):
            o = Obj('CopyWriter', {})
        else:
            o = Obj('CopyReader', {})
        o.vc_immutable = True
        return o

    def write(e, o, rec):
        fault(e, 'write')
        e.ghost['written'] += 1

    def close_w(e, o, *a):
        e.ghost['out_closed'] = True
    stubs.STUBS['CopyWriter'] = {'methods': {'write': write, '__enter__': lambda e, o: o, '__exit__': close_w, 'close': close_w},
                                 'props': {}, 'setters': {}}
    stubs.STUBS['CopyReader'] = {'methods': {'__enter__': lambda e, o: o, '__exit__': lambda e, o, *a: None,
                                             '__iter__': lambda e, o: ['rec%d' % i for i in range(N)]}, 'props': {}, 'setters': {}}

    def rename(e, a, k, n):
        fault(e, 'rename')
        e.ghost['moved_with'] = e.ghost['written']
    E['pysam.AlignmentFile'] = opener
    E['os.rename'] = rename
    E['os.path.exists'] = lambda e, a, k, n: True
    E['shutil.which'] = lambda e, a, k, n: None
    eng.spec_env['N'] = N


replace_header = Contract(
    PROP, FB + '::replace_bam_header', name='replace_bam_header[pysam mode: 3 records, every step may fail]',
    params={'origin_bam_path': ('const', 'out.bam.unsorted.bam'), 'header': ('const', {'HD': {}}), 'target_bam_path': 'none',
            'header_write_mode': ('const', 'pysam')},
    cases=[{}, {'header_write_mode': ('const', 'auto')}],
    setup=rehead_setup,
    ensures={
        'returns_only_after_a_complete_copy_was_moved_into_place': 'GHOST["moved_with"] == N and not GHOST.get("content_faults")',
    },
    raises={'Exception': 'True', 'KeyboardInterrupt': 'True'},
    bounded='3 records; open / write / rename may each fail or be interrupted',
    assumptions=['pysam.AlignmentFile writer/reader and os.rename through stubs (A4); no samtools binary (pysam branch)'],
)
UNITS.append(replace_header)


def replace_header_replay(inputs, clause):
    """real replace_bam_header(header_write_mode='pysam') on a real BAM of 5 records with the second record write failing: it
    must raise, or leave the original in place"""
    import os
    import shutil
    import tempfile
    import pysam
    from pyvc.contract import import_real
    fn = import_real(FB, 'replace_bam_header')
    mod = __import__('singlecellmultiomics.bamProcessing.bamFunctions', fromlist=['x'])
    d = tempfile.mkdtemp(prefix='c20h_')
    real_af = pysam.AlignmentFile
    try:
        header = pysam.AlignmentHeader.from_dict({'HD': {'VN': '1.6'}, 'SQ': [{'SN': 'chr1', 'LN': 1000}]})
        p = os.path.join(d, 'x.bam')
        with real_af(p, 'wb', header=header) as o:
            for i in range(5):
                a = pysam.AlignedSegment(header)
                a.query_name, a.query_sequence, a.flag = 'r%d' % i, 'ACGT', 4
                a.query_qualities = pysam.qualitystring_to_array('IIII')
                o.write(a)

        class FailingWriter:
            def __init__(self, inner):
                self.inner, self.n = inner, 0

            def __enter__(self):
                return self

            def __exit__(self, *a):
                self.inner.close()

            def write(self, r):
                self.n += 1
                if self.n == 2:
                    raise OSError('injected: disk full')
                return self.inner.write(r)

        def af(path, mode='r', *a, **k):
            h = real_af(path, mode, *a, **k)
            return FailingWriter(h) if 'w' in mode else h
        mod.pysam.AlignmentFile = af
        try:
            raised = None
            try:
                fn(p, header.to_dict(), header_write_mode='pysam')
            except Exception as e:      # noqa: BLE001
                raised = '%s: %s' % (type(e).__name__, e)
        finally:
            mod.pysam.AlignmentFile = real_af
        with real_af(p, check_sq=False) as f:
            n = sum(1 for _ in f.fetch(until_eof=True))
        obs = {'outcome': 'raise' if raised else 'return', 'value': {'raised': raised, 'records_at_the_target_path': n, 'records_in': 5}}
        if raised is None and n != 5:
            return {'status': 'confirmed', 'observed': obs, 'failed': [{'clause': clause}]}
        return {'status': 'not-reproduced', 'observed': obs}
    finally:
        pysam.AlignmentFile = real_af
        shutil.rmtree(d, ignore_errors=True)


replace_header.replay = replace_header_replay


# ------------------------------------------------------------------------------ add_readgroups_to_header: passes failures on
def addrg_setup(eng):
    eng.monitor = None
    eng.ghost = {'replaced_with': None}
    eng.spec_env['GHOST'] = eng.ghost

    class Header:
        def vc_getattr(self, eng_, attr, node=None):
            from pyvc.engine import BoundMethod
            if attr == 'copy':
                return BoundMethod('copy', lambda e, a, k: Header())
            d = {'HD': {'VN': '1.6'}, 'SQ': [{'SN': 'chr1', 'LN': 10}]}
            if eng_.ghost.get('origin_has_rg'):
                d['RG'] = [{'ID': 'lane1', 'SM': 'aligner_sample'}]      # read groups the aligner declared (other ids)
            return BoundMethod(attr, lambda e, a, k: d)

    def opener(e, a, k, n):
        fault(e, 'open')
        o = Obj('HeaderSource', {})
        o.vc_immutable = True
        return o
    stubs.STUBS['HeaderSource'] = {'methods': {'__enter__': lambda e, o: o, '__exit__': lambda e, o, *a: None},
                                   'props': {'header': lambda e, o: Header()}, 'setters': {}}
    externals.EXTRA['pysam.AlignmentFile'] = opener

    def replace(e, f, a, k, n):
        fault(e, 'replace_bam_header')
        e.ghost['replaced_with'] = a[1]
    eng.loader.call_hooks['singlecellmultiomics.bamProcessing.bamFunctions.replace_bam_header'] = replace


RG = {'FC.1.libA_1': {'ID': 'FC.1.libA_1', 'LB': 'libA', 'PL': 'ILLUMINA', 'SM': 'libA_1', 'PU': 'FC.1.libA_1'},
      'FC.1.libA_2': {'ID': 'FC.1.libA_2', 'LB': 'libA', 'PL': 'ILLUMINA', 'SM': 'libA_2', 'PU': 'FC.1.libA_2'}}
add_rg = Contract(
    PROP, FB + '::add_readgroups_to_header', name='add_readgroups_to_header[two read groups, every step may fail]',
    params={'origin_bam_path': ('const', 'out.bam.unsorted.bam'), 'readgroups_in': ('const', RG), 'target_bam_path': 'none',
            'header_write_mode': ('const', 'auto')},
    setup=addrg_setup,
    ensures={
        'returns_only_after_the_header_was_replaced': 'GHOST["replaced_with"] is not None and not GHOST.get("content_faults")',
        'the_new_header_lists_every_read_group': 'sorted([g["ID"] for g in GHOST["replaced_with"]["RG"]]) == ["FC.1.libA_1", "FC.1.libA_2"]',
        'and_keeps_the_rest_of_the_header': 'GHOST["replaced_with"]["SQ"] == [{"SN": "chr1", "LN": 10}]',
    },
    raises={'Exception': 'True', 'KeyboardInterrupt': 'True'},
    bounded='a dictionary of two read groups',
    assumptions=['replace_bam_header through its own contract above (may fail); pysam header copy/to_dict as a dictionary (A4)'],
)
UNITS.append(add_rg)

import copy as _copy2      # noqa: E402
add_rg_existing = _copy2.copy(add_rg)
add_rg_existing.name = 'add_readgroups_to_header[the input header already declares other read groups]'


def _addrg_setup_existing(eng):
    addrg_setup(eng)
    eng.ghost['origin_has_rg'] = True


add_rg_existing.setup = _addrg_setup_existing
UNITS.append(add_rg_existing)


# ------------------------------------------------------------------------------ write_status: what the marker file holds
def ws_setup(eng):
    eng.monitor = None
    eng.ghost = {'files': {}}
    eng.spec_env['GHOST'] = eng.ghost

    def opener(e, a, k, n):
        path, mode = a[0], (a[1] if len(a) > 1 else 'r')
        o = Obj('StatusFile', {'path': path, 'mode': mode})
        if 'w' in mode:
            e.ghost['files'][path] = []
        return o
    stubs.STUBS['StatusFile'] = {'methods': {'__enter__': lambda e, o: o, '__exit__': lambda e, o, *a: None,
                                             'write': lambda e, o, text: e.ghost['files'][o.attrs['path']].append(text)},
                                 'props': {}, 'setters': {}}
    eng.spec_env['open'] = Builtin('open', opener)


write_status_unit = Contract(
    PROP, FT + '::write_status', name='write_status[the marker next to the output holds exactly the message]',
    params={'output_path': ('const', 'results/out.bam'), 'message': 'str'},
    setup=ws_setup,
    ensures={'marker_replaced_by_the_message': 'len(GHOST["files"]) == 1 and "".join(GHOST["files"]["results/out.status.txt"]) == message + "\\n"'},
    raises={},
    assumptions=['open(path, "w") truncates; text file write appends to the handle (A4)'],
)
UNITS.append(write_status_unit)


# ------------------------------------------------------------------------------ no time-out the user did not ask for
# run_tagging_tasks swallows TimeoutError by design: with -max_time_per_segment the user accepts that slow segments are given
# up (and named in the header) while the run still ends "All ok".  "Contains every record" therefore needs that no time-out is
# in force unless that option was given: whatever method is chosen, the method table of run_multiome_tagging leaves
# max_time_per_segment as the caller set it (args.max_time_per_segment, two statements above the table).  The real if/elif
# chain is executed with a symbolic method name; everything the branches read besides that (the other options, the class
# objects, the reference) is an opaque value of arbitrary truth.
class _AnyProps(dict):
    def __contains__(self, k):
        return not k.startswith('__')

    def __getitem__(self, k):
        def get(e, o, _k=k):
            if _k not in o.attrs:
                o.attrs[_k] = Builtin(_k, lambda e2, a, kw, n: _opaque()) if _k[:1].isupper() else _opaque()
            return o.attrs[_k]
        return get


class _AnyMethods(dict):
    def __contains__(self, k):
        return not k.startswith('__')

    def __getitem__(self, k):
        return lambda e, o, *a, **kw: _opaque()


class _Opaque(Obj):
    def vc_truth(self):
        if not hasattr(self, '_truth'):
            self._truth = fresh(BOOL, 'truth_of_an_option').z
        return self._truth

    def vc_call(self, eng, args, kwargs):
        return _opaque()


def _opaque():
    return _Opaque('OpaqueValue', {})


def _method_chain(f):
    c = blocks.find_nodes(f, lambda n: isinstance(n, ast.If) and ast.unparse(n.test) == "args.method == 'qflag'"
                          and any(isinstance(x, ast.Assign) and ast.unparse(x.targets[0]) == 'molecule_class' for x in n.body))
    return c[:1]


def _chain_setup(eng):
    stubs.STUBS['OpaqueValue'] = {'methods': {}, 'props': _AnyProps(), 'setters': {}}


def _chain_pre(eng, fr):
    from pyvc.engine import named
    mt = None if eng.spec_env['CASE_NONE'] else named(INT, 'max_time_per_segment_given')
    eng.spec_env['MT0'] = mt
    args = _opaque()
    args.attrs['method'] = named(STR, 'method')
    args.attrs['max_time_per_segment'] = mt
    fr.env['args'] = args
    fr.env.update({'max_time_per_segment': mt, 'singlecellmultiomics': _opaque(), 'molecule_class_args': {}, 'fragment_class_args': {},
                   'transcriptome_feature_args': {}, 'reference': _opaque() if eng.spec_env['CASE_REF'] else None,
                   'bp_per_job': 10_000_000, 'pooling_method': 1, 'bp_per_segment': 999_999_999, 'fragment_size': 500,
                   'one_contig_per_process': False, 'yield_invalid': _opaque()})


def chain_unit(none, ref):
    u = Contract(
        PROP, FT + '::run_multiome_tagging',
        name='run_multiome_tagging[method table leaves the time-out as given; %s, %s]' % (
            'no -max_time_per_segment' if none else '-max_time_per_segment given', 'with -ref' if ref else 'without -ref'),
        block=_method_chain,
        params={},
        setup=lambda eng: (_chain_setup(eng), eng.spec_env.update({'CASE_NONE': none, 'CASE_REF': ref})),
        pre_state=_chain_pre,
        ensures={'no_time_out_unless_asked_for': 'max_time_per_segment == MT0' if not none else 'max_time_per_segment is None'},
        raises={'ValueError': 'True', 'AssertionError': 'True'},
        assumptions=['options, class objects and the reference are opaque values of arbitrary truth; ValueError (unknown method) and '
                     'AssertionError (a method that needs -ref) end the run before anything is written; the statements between the table and the '
                     'call of tag_multiome_multi_processing are not under this contract'],
    )
    return u


for _none in (True, False):
    for _ref in (True, False):
        UNITS.append(chain_unit(_none, _ref))
