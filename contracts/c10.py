"""C10 - binned count tables: each counted read lands in exactly the bins containing it."""
from pyvc.contract import Contract
from pyvc.engine import LoopSpec

PROP = 'C10'
LEVEL = 'proof'
F1 = 'singlecellmultiomics/bamProcessing/bamToCountTable.py'
F2 = 'singlecellmultiomics/utils/binning.py'

REQ = ['bin_size >= 1', 'sliding_increment >= 1', 'sliding_increment <= bin_size', 'dp >= 0', 'dp < 2**53']
A3 = 'A3: a/b, np.ceil, np.floor, int() on integer operands modelled as exact rational arithmetic (|operands| < 2**53)'


def sliding(relpath, tag):
    return Contract(
        PROP, relpath + '::coordinate_to_sliding_bin_locations', name='sliding_ids@' + tag,
        params={'dp': 'int', 'bin_size': 'int', 'sliding_increment': 'int'},
        requires=REQ,
        ensures={
            # from the property statement: the ids returned are exactly the windows [i*s, i*s+b) containing dp
            'ids_are_exactly_the_windows_containing_dp':
                'forall(i, iff(result[2] <= i and i <= result[3], '
                'i*sliding_increment <= dp and dp < i*sliding_increment + bin_size))',
            'start_end_consistent':
                'result[0] == result[2]*sliding_increment and result[1] == result[3]*sliding_increment + bin_size',
            'no_sliding_single_bin':
                'implies(sliding_increment == bin_size, result[2] == result[3] and result[2] == fdiv(dp, bin_size))',
        },
        result=('tuple', 'int', 'int', 'int', 'int'),
        assumptions=[A3], crosscheck={'ranges': {'dp': (0, 400), 'bin_size': (1, 40), 'sliding_increment': (1, 40)}})


def bins(relpath, tag):
    return Contract(
        PROP, relpath + '::coordinate_to_bins', name='bins@' + tag,
        params={'point': 'int', 'bin_size': 'int', 'sliding_increment': 'int'},
        requires=[r.replace('dp', 'point') for r in REQ],
        callees=['sliding_ids@' + tag],
        ensures={
            'every_bin_is_a_window_containing_point':
                'forall(j, implies(0 <= j and j < seqlen(result), result[j][0] <= point and point < result[j][1] '
                'and result[j][1] - result[j][0] == bin_size and result[j][0] % sliding_increment == 0))',
            'no_bin_twice':
                'forall(j, implies(0 <= j and j < seqlen(result) - 1, result[j][0] < result[j+1][0]))',
            'bins_in_increasing_order':
                'forall((j1, j2), implies(0 <= j1 and j1 < j2 and j2 < seqlen(result), result[j1][0] < result[j2][0]))',
            'every_window_containing_point_is_returned':
                # witness given explicitly (j = i - id of the first returned window) to keep the VC exists-free
                'forall(i, implies(i*sliding_increment <= point and point < i*sliding_increment + bin_size, '
                '0 <= i - fdiv(result[0][0], sliding_increment) and i - fdiv(result[0][0], sliding_increment) < seqlen(result) '
                'and result[i - fdiv(result[0][0], sliding_increment)][0] == i*sliding_increment))',
            'no_sliding_exactly_one_bin':
                'implies(sliding_increment == bin_size, seqlen(result) == 1 and '
                'result[0][0] == fdiv(point, bin_size)*bin_size and result[0][1] == (fdiv(point, bin_size)+1)*bin_size)',
        },
        assumptions=[A3], crosscheck={'ranges': {'point': (0, 400), 'bin_size': (1, 40), 'sliding_increment': (1, 40)}})


UNITS = [sliding(F1, 'bamToCountTable'), bins(F1, 'bamToCountTable'),
         sliding(F2, 'utils.binning'), bins(F2, 'utils.binning')]


# the bin-increment block of assignReads is verified in contracts/c11.py (it needs the read/args stubs defined there);
# the unit is part of this property's obligations as well (loaded lazily: c11 imports this module)
def extra_units():
    from contracts import c11
    import copy
    u = copy.copy(c11.assign_binned)
    u.prop = PROP
    u.name = 'assignReads.bin_increment[-bin, no sliding]'
    out = [u]
    for v in c11.assign_sliding + [c11.per_file_lengths]:
        w = copy.copy(v)
        w.prop = PROP
        out.append(w)
    return out


# ------------------------------------------------------------------------------ assignReads over a history of calls (bounded)
# The per-call contracts above say what one call does.  That a call's answer does not depend on the calls before it (other
# contigs with other lengths, other window settings - anything a module-level table could remember) is a two-call property the
# per-call contracts cannot express; it is checked here on the real code over an exhaustive small domain, in one process.
def assign_history(tier, seed):
    import collections
    import itertools
    import json
    import os
    import types
    import pysam
    from pyvc import bamreplay as B
    from pyvc.contract import import_real
    assign = import_real(F1, 'assignReads')
    lengths = {'chrA': 10, 'chrB': 7}
    header = pysam.AlignmentHeader.from_dict({'HD': {'VN': '1.6'}, 'SQ': [{'SN': c, 'LN': n} for c, n in lengths.items()]})
    history, n = [], 0
    for b, sl, keep in itertools.product((3, 4), (None, 1, 2, 3), (False, True)):
        if sl is not None and sl > b:
            continue
        s = sl if sl is not None else b
        for ds, order in itertools.product(range(0, 12), (('chrA', 'chrB'), ('chrB', 'chrA'))):
            for contig in order:
                seg = B.make_segment(header, {'query_sequence': 'ACGT', 'cigartuples': [(0, 4)], 'reference_start': 1, 'reference_end': 5,
                                              'mapping_quality': 60, 'tags': {'SM': 'cell', 'DS': ds}}, contig, 'q')
                args = types.SimpleNamespace(
                    r1only=False, r2only=False, doNotDivideFragments=True, divideMultimapping=False, byValue=None, splitFeatures=False,
                    featureDelimiter=',', bedfile=None, bin=b, binTag='DS', sliding=s, keepOverBounds=keep, ref_lengths=dict(lengths),
                    filterMP=False, minMQ=0, proper_pairs_only=False, no_indels=False, max_base_edits=None, no_softclips=False,
                    filterXA=False, dedup=False, blacklist=None, filterRT=False, contig=None) 
                table = collections.defaultdict(collections.Counter)
                call = {'contig': contig, 'DS': ds, 'bin': b, 'sliding': s, 'keepOverBounds': keep}
                try:
                    assign(seg, table, args, True, ['reference_name', 'DS'], ['SM'], [], None)
                    got = {str(k): v for k, v in table.get(('cell',), {}).items() if v}
                except Exception as e:      # noqa: BLE001
                    got = '%s: %s' % (type(e).__name__, e)
                L = lengths[contig]
                want = {}
                lo = -((b // s) + 2) * s
                for w0 in range(lo, ds + s, s):
                    if w0 % s == 0 and w0 <= ds < w0 + b and (keep or (w0 >= 0 and w0 + b <= L)):
                        want[str((contig, w0, w0 + b))] = 1
                n += 1
                history.append(call)
                if got != want:
                    out = os.environ.get('VERIF_OUT', '.')
                    os.makedirs(os.path.join(out, 'replays', PROP), exist_ok=True)
                    path = 'replays/%s/assignReads_history.json' % PROP
                    json.dump({'property': PROP, 'obligation': '%s/assignReads[history of calls]' % PROP,
                               'replay': {'status': 'confirmed', 'failing_call': call, 'observed': got, 'expected': want,
                                          'calls_before_it_in_this_process': history[-6:-1], 'number_of_calls_before': n - 1}},
                              open(os.path.join(out, path), 'w'), indent=1)
                    return {'result': 'violation', 'replay': path, 'confirmed': True, 'calls': n, 'failing_call': call}
    return {'result': 'clean', 'calls': n}


from pyvc.units import Bounded      # noqa: E402
UNITS.append(Bounded(PROP, 'assignReads[history of calls: two contigs of different length, bins 3-4, sliding 1-3, coordinates 0-11]',
                     assign_history,
                     'real assignReads, 2 contigs (10 and 7 bases) x bin 3,4 x sliding none,1,2,3 x keepOverBounds x coordinate 0..11 '
                     'x both contig orders, all in one process; expected windows from the property statement',
                     'exhaustive run of the real function against the specification'))
