"""C10 - binned count tables: each counted read lands in exactly the bins containing it."""
from pyvc.contract import Contract
from pyvc.engine import LoopSpec

PROP = 'C10'
LEVEL = 'proof'
F1 = 'singlecellmultiomics/bamProcessing/bamToCountTable.py'
F2 = 'singlecellmultiomics/utils/binning.py'

REQ = ['bin_size >= 1', 'sliding_increment >= 1', 'sliding_increment <= bin_size', 'dp >= 0', 'dp < 2**53']
A3 = 'A3: a/b, np.ceil, np.floor, int() on integer operands modelled as exact rational arithmetic (|operands| < 2**53)'


def sliding(relpath, tag):
    return Contract(
        PROP, relpath + '::coordinate_to_sliding_bin_locations', name='sliding_ids@' + tag,
        params={'dp': 'int', 'bin_size': 'int', 'sliding_increment': 'int'},
        requires=REQ,
        ensures={
            # from the property statement: the ids returned are exactly the windows [i*s, i*s+b) containing dp
            'ids_are_exactly_the_windows_containing_dp':
                'forall(i, iff(result[2] <= i and i <= result[3], '
                'i*sliding_increment <= dp and dp < i*sliding_increment + bin_size))',
            'start_end_consistent':
                'result[0] == result[2]*sliding_increment and result[1] == result[3]*sliding_increment + bin_size',
            'no_sliding_single_bin':
                'implies(sliding_increment == bin_size, result[2] == result[3] and result[2] == fdiv(dp, bin_size))',
        },
        result=('tuple', 'int', 'int', 'int', 'int'),
        assumptions=[A3], crosscheck={'ranges': {'dp': (0, 400), 'bin_size': (1, 40), 'sliding_increment': (1, 40)}})


def bins(relpath, tag):
    return Contract(
        PROP, relpath + '::coordinate_to_bins', name='bins@' + tag,
        params={'point': 'int', 'bin_size': 'int', 'sliding_increment': 'int'},
        requires=[r.replace('dp', 'point') for r in REQ],
        callees=['sliding_ids@' + tag],
        ensures={
            'every_bin_is_a_window_containing_point':
                'forall(j, implies(0 <= j and j < seqlen(result), result[j][0] <= point and point < result[j][1] '
                'and result[j][1] - result[j][0] == bin_size and result[j][0] % sliding_increment == 0))',
            'no_bin_twice':
                'forall(j, implies(0 <= j and j < seqlen(result) - 1, result[j][0] < result[j+1][0]))',
            'bins_in_increasing_order':
                'forall((j1, j2), implies(0 <= j1 and j1 < j2 and j2 < seqlen(result), result[j1][0] < result[j2][0]))',
            'every_window_containing_point_is_returned':
                # witness given explicitly (j = i - id of the first returned window) to keep the VC exists-free
                'forall(i, implies(i*sliding_increment <= point and point < i*sliding_increment + bin_size, '
                '0 <= i - fdiv(result[0][0], sliding_increment) and i - fdiv(result[0][0], sliding_increment) < seqlen(result) '
                'and result[i - fdiv(result[0][0], sliding_increment)][0] == i*sliding_increment))',
            'no_sliding_exactly_one_bin':
                'implies(sliding_increment == bin_size, seqlen(result) == 1 and '
                'result[0][0] == fdiv(point, bin_size)*bin_size and result[0][1] == (fdiv(point, bin_size)+1)*bin_size)',
        },
        assumptions=[A3], crosscheck={'ranges': {'point': (0, 400), 'bin_size': (1, 40), 'sliding_increment': (1, 40)}})


UNITS = [sliding(F1, 'bamToCountTable'), bins(F1, 'bamToCountTable'),
         sliding(F2, 'utils.binning'), bins(F2, 'utils.binning')]


# the bin-increment block of assignReads is verified in contracts/c11.py (it needs the read/args stubs defined there);
# the unit is part of this property's obligations as well (loaded lazily: c11 imports this module)
def extra_units():
    from contracts import c11
    import copy
    u = copy.copy(c11.assign_binned)
    u.prop = PROP
    u.name = 'assignReads.bin_increment[-bin, no sliding]'
    out = [u]
    for v in c11.assign_sliding + [c11.per_file_lengths]:
        w = copy.copy(v)
        w.prop = PROP
        out.append(w)
    return out
