"""C02 - demultiplexed records contain exactly the bases the protocol layout prescribes."""
import z3

from pyvc.contract import Contract
from pyvc.engine import Obj, Sym, Builtin, fresh, named, BOOL, INT, STR
from pyvc import stubs, externals, segstr

PROP = 'C02'
LEVEL = 'proof'
FL = 'singlecellmultiomics/modularDemultiplexer/demultiplexingStrategyLoader.py'
FB = 'singlecellmultiomics/modularDemultiplexer/baseDemultiplexMethods.py'
QB = 'singlecellmultiomics.modularDemultiplexer.baseDemultiplexMethods.'
ENC = z3.Function('phred_encode', z3.StringSort(), z3.StringSort())
HDR_UNSAFE = ': \t\n\r\x0b\x0c;'


FQS = z3.Function('fqSafe_of_raw_qualities', z3.StringSort(), z3.StringSort())


def _mentions_quality(term):
    todo, seen = [term], set()
    while todo:
        x = todo.pop()
        if x.get_id() in seen:
            continue
        seen.add(x.get_id())
        if z3.is_const(x) and x.decl().kind() == z3.Z3_OP_UNINTERPRETED and x.decl().name().startswith('qual'):
            return True
        todo.extend(x.children())
    return False


def c02_setup(eng):
    eng.ghost.clear()
    # phred encoding of qualities is C04's codec: opaque here
    eng.loader.call_hooks[QB + 'phredToFastqHeaderSafeQualities'] = \
        lambda e, f, a, k, n: Sym(ENC(a[0].z if isinstance(a[0], Sym) else z3.StringVal(a[0])), STR)
    # fqSafe (a regular expression that deletes every character outside [a-zA-Z0-9-_]) is the identity on bases and on
    # header-safe atoms (A7), but NOT on raw phred strings: a value that contains raw quality characters comes back as an
    # arbitrary (uninterpreted) string, so cleaning a quality string before encoding it is visible to the clauses
    def fq_safe(e, f, a, k, n):
        v = a[0]
        if isinstance(v, Sym) and _mentions_quality(v.z):
            return Sym(FQS(v.z), STR)
        return v
    eng.loader.call_hooks[QB + 'fqSafe'] = fq_safe
    eng.spec_env['ENC'] = Builtin('ENC', lambda e, a, k, n: Sym(ENC(a[0].z if isinstance(a[0], Sym) else z3.StringVal(a[0])), STR))

    def lookup(e, obj, *a, **k):
        raw = k.get('barcode', a[0] if a else None)
        ok = fresh(BOOL, 'barcode_known')
        log = e.ghost.setdefault('lookups', [])
        e.spec_env['LOOKUPS'] = log
        if e.branch(ok.z):
            nth = len(log)
            bc = named(STR, 'corrected_barcode' + ('_%d' % nth if nth else ''))
            rz = raw.z if isinstance(raw, Sym) else z3.StringVal(raw)
            e.assume(z3.Length(bc.z) == z3.Length(rz))        # C03: a match has the length of the query
            e.spec_env['CORRECTED'] = bc
            e.spec_env['CELL_INDEX'] = named(STR, 'cell_index')
            log.append((raw, True, bc, k.get('alias')))
            return (e.spec_env['CELL_INDEX'], bc, named(INT, 'hamming_distance'))
        log.append((raw, False, None, k.get('alias')))
        return (None, None, None)
    stubs.STUBS['BarcodeParser'] = {'methods': {'getIndexCorrectedBarcodeAndHammingDistance': lookup}, 'props': {}, 'setters': {}}
    parser = Obj('BarcodeParser', {})
    parser.vc_immutable = True
    eng.spec_env['PARSER'] = parser

    def rec(i):
        hdr = segstr.build(sum(([':' if j else '', segstr.register_atom(eng, named(STR, 'hdr%d_%d' % (i, j)), HDR_UNSAFE)]
                                for j in range(7)), []) + [' ', '%d:N:0:' % (i + 1),
                                                           segstr.register_atom(eng, named(STR, 'index%d' % i), HDR_UNSAFE)])
        seq, qual = named(STR, 'seq%d' % i), named(STR, 'qual%d' % i)
        eng.assume(z3.Length(seq.z) == z3.Length(qual.z))       # A7 well-formed FASTQ record
        o = Obj('FastqRecord', {'header': hdr, 'sequence': seq, 'plus': '+', 'qual': qual})
        o.vc_fields = ['header', 'sequence', 'plus', 'qual']
        return o
    eng.spec_env['R'] = [rec(0), rec(1)]


# --- the layout a strategy declares (its constructor arguments, as stored on the object) -> intervals per mate
def _claims():
    return '''
[ [iv for iv in (
      ((s.umiStart, s.umiStart + s.umiLength, "umi") if (s.umiLength != 0 and s.umiRead == m) else None),
      ((s.barcodeStart, s.barcodeStart + s.barcodeLength, "barcode") if s.barcodeRead == m else None),
      ((0, s.random_primer_length, "primer") if (s.random_primer_read == m and not s.random_primer_end) else None),
  ) if iv is not None] for m in range(N) ]'''.replace('\n', ' ')


CLAIMS = _claims()
START = '[max([0] + [iv[1] for iv in %s[m]]) + SKIP[m] for m in range(N)]' % CLAIMS
END = '[(-s.random_primer_length if (s.random_primer_read == m and s.random_primer_end) else None) for m in range(N)]'

GENERIC = {
    'raw_barcode_tag': 'all(o.tags["bc"] == R[s.barcodeRead].sequence[s.barcodeStart:s.barcodeStart + s.barcodeLength] for o in out)',
    'cell_tags': 'all(o.tags["BC"] == CORRECTED and o.tags["bi"] == CELL_INDEX and o.tags["MX"] == s.shortName for o in out)',
    'umi_tags': 'implies(s.umiLength != 0, all(o.tags["RX"] == R[s.umiRead].sequence[s.umiStart:s.umiStart + s.umiLength] and '
                'o.tags["RQ"] == ENC(R[s.umiRead].qual[s.umiStart:s.umiStart + s.umiLength]) for o in out))',
    'random_primer_tag': 'implies(s.random_primer_read is not None, all(o.tags["rS"] == '
                         '(R[s.random_primer_read].sequence[-s.random_primer_length:] if s.random_primer_end else '
                         'R[s.random_primer_read].sequence[:s.random_primer_length]) for o in out))',
    # emitted sequence and qualities: the same contiguous stretch of the same mate, starting where the declared prefix ends
    'emitted_stretch': 'all(out[m].sequence == R[m].sequence[%s[m]:%s[m]] and out[m].qualities == R[m].qual[%s[m]:%s[m]] '
                       'and out[m].plus == R[m].plus for m in range(N))' % (START, END, START, END),
    # a base is moved to at most one of the UMI / barcode / primer tags
    'declared_intervals_are_disjoint': 'all(a[1] <= b[0] or b[1] <= a[0] for m in range(N) for a in %s[m] for b in %s[m] if a[2] != b[2])'
                                       % (CLAIMS, CLAIMS),
    # every base before the emitted stretch is recorded in a tag (or is the declared skipped ligation base)
    'prefix_is_accounted_for': 'all(any(iv[0] <= i and i < iv[1] for iv in %s[m]) or (i >= %s[m] - SKIP[m]) '
                               'for m in range(N) for i in range(%s[m]))' % (CLAIMS, START, START),
    'one_output_per_mate': 'len(out) == N',
}


def strategy(cls_name, n_records=2, skip=(0, 0), extra=None, note=''):
    src = '''
s = dm.%s(barcodeFileParser=PARSER, indexFileParser=None, indexFileAlias=None)
out = s.demultiplex(R[:%d])
return (s, out)
''' % (cls_name, n_records)
    ens = {}
    for k, v in GENERIC.items():
        ens[k] = 'implies(True, (lambda s, out, N, SKIP: %s)(result[0], result[1], %d, %r))' % (v, n_records, list(skip))
    ens.update(extra or {})
    return Contract(
        PROP, FL + '::DemultiplexingStrategyLoader', name='layout[%s]' % cls_name,
        harness=src, params={}, setup=c02_setup, ensures=ens,
        raises={'NonMultiplexable': 'True'},
        assumptions=['barcode lookup through its contract (C03): a match has the length of the query; phred encoding opaque (C04)',
                     'FASTQ records well formed: len(sequence) == len(qualities), any length incl. 0 (A7); Illumina header of 7 '
                     'colon-separated fields + " n:N:0:index"', 'declared layout = the constructor arguments stored on the strategy '
                     'object' + (' ; ' + note if note else '')],
    )


GENERIC_CLASSES = ['CELSeq1_c8_u4', 'CELSeq2_c8_u6', 'CELSeq2_c8_u6_NH', 'CELSeq2_c8_u8', 'CELSeq2_c8_u8_NNLAIII',
                   'CELSeq2_c8_u6_swapped_reads', 'NLAIII_384w_c8_u3', 'NLAIII_96w_c8_u3', 'MSPJI_c8_u3', 'ScartraceR1',
                   'ScartraceR2', 'chrom10x_c16_u12']
UNITS = [strategy(c) for c in GENERIC_CLASSES]
UNITS += [strategy('NLAIII_384w_c8_u3_SINGLE_END', 1), strategy('NLAIII_96w_c8_u3_SINGLE_END', 1)]


# --- documented overrides of the generic layout
LIG = lambda a, b: {
    'ligation_tags': 'implies(True, (lambda s, out: all(o.tags["lh"] == R[0].sequence[%d:%d] and o.tags["lq"] == ENC(R[0].qual[%d:%d]) '
                     'for o in out))(result[0], result[1]))' % (a, b, a, b)}
# scCHIC: "3bp umi followed by 8bp barcode and a single A": the base after the barcode is skipped (SKIP[0]=1) and bases
# 11..12 are recorded as ligation tag lh/lq
UNITS += [strategy('SCCHIC_384w_c8_u3', 2, (1, 0), LIG(11, 13), 'scCHIC: skip one base after the barcode, record two as ligation'),
          strategy('SCCHIC_384w_c8_u3_direct_ligation', 2, (1, 0), LIG(11, 13), 'scCHIC direct ligation'),
          strategy('ScartraceR2RP4', 2, (0, 0)),
          # DamID2: "do map the first base of the barcode": the last barcode base is kept in the insert (SKIP[0] = -1)
          strategy('DamID2', 2, (-1, 0), LIG(11, 13), 'DamID2: the last barcode base stays in the emitted read (keep-overlap 1)')]

UNITS += [strategy('DamID2_NO_OVERHANG', 2, (-1, 0), LIG(11, 13), 'DamID2 without CA overhang: keep-overlap 1, two ligation bases recorded'),
          strategy('SCCHIC_384w_c8_u3_direct_ligation_SINGLE_END', 1, (1,), LIG(11, 13), 'scCHIC direct ligation, single end')]


# restriction bisulfite: UMI 0..8, barcode 8..16, enzyme id 16..19 (tags ES/eq), ISPCR 19..34 (tag IS): 18 further bases are
# recorded before the insert starts
RBS = {
    'enzyme_and_ispcr_tags': 'implies(True, (lambda s, out: all(o.tags["ES"] == R[0].sequence[16:19] and o.tags["eq"] == ENC(R[0].qual[16:19]) '
                             'and o.tags["IS"] == R[0].sequence[19:34] and o.tags["QT"] == ENC(R[0].qual[8:16]) for o in out))(result[0], result[1]))'}
UNITS += [strategy('Nla_384w_u8_c8_ad3_is15', 2, (18, 0), RBS, 'restriction bisulfite: enzyme id and ISPCR recorded in ES/eq/IS')]


# scattered layout (DamID2_SCA): UMI 0..3 + 7..10, barcode 3..7 + 10..14, insert from 14; the first two insert bases are also
# recorded as ligation tag
def c02_setup_short_headers(eng):
    c02_setup(eng)
    for r in eng.spec_env['R']:
        for p_ in segstr.parts_of(r.attrs['header']):
            if isinstance(p_, Sym):
                eng.assume(z3.Length(p_.z) <= 6)          # the header fits in a read name (precondition, see C04)


def custom(cls_name, ctor, ensures, note, n_records=2, setup=None):
    src = '''
s = %s
out = s.demultiplex(R[:%d])
return (s, out)
''' % (ctor, n_records)
    return Contract(
        PROP, FL + '::DemultiplexingStrategyLoader', name='layout[%s]' % cls_name,
        harness=src, params={}, setup=setup or c02_setup,
        ensures={k: 'implies(True, (lambda s, out: %s)(result[0], result[1]))' % v for k, v in ensures.items()},
        raises={'NonMultiplexable': 'True'},
        assumptions=['barcode lookup through its contract (C03): a match has the length of the query; phred encoding opaque (C04)',
                     'FASTQ records well formed: len(sequence) == len(qualities), any length incl. 0 (A7)', note],
    )


SCA_UMI = 'R[0].sequence[0:3] + R[0].sequence[7:10]'
UNITS += [
    custom('DamID2_SCA', 'dm.DamID2_SCA(barcodeFileParser=PARSER, indexFileParser=None, indexFileAlias=None)', {
        'raw_barcode_tag': 'all(o.tags["bc"] == R[0].sequence[3:7] + R[0].sequence[10:14] for o in out)',
        'cell_tags': 'all(o.tags["BC"] == CORRECTED and o.tags["bi"] == CELL_INDEX and o.tags["MX"] == s.shortName for o in out)',
        'umi_tags': 'implies(len(%s) > 0, all(o.tags["RX"] == %s and o.tags["RQ"] == ENC(R[0].qual[0:3] + R[0].qual[7:10]) for o in out))'
                    % (SCA_UMI, SCA_UMI),
        'ligation_tags': 'all(o.tags["lh"] == R[0].sequence[14:16] and o.tags["lq"] == ENC(R[0].qual[14:16]) for o in out)',
        'emitted_stretch': 'out[0].sequence == R[0].sequence[14:] and out[0].qualities == R[0].qual[14:] and '
                           'out[1].sequence == R[1].sequence and out[1].qualities == R[1].qual and all(out[m].plus == R[m].plus for m in range(2))',
        'one_output_per_mate': 'len(out) == 2',
    }, 'declared layout: the slice tuples the class passes to ScatteredUmiBarcodeDemuxMethod'),
    custom('IlluminaBaseDemultiplexer', 'IlluminaBaseDemultiplexer(indexFileParser=None)', {
        # bulk: nothing is cut off, the whole mate is emitted with its own qualities
        'whole_mate_emitted': 'all(out[m].endswith("\\n" + R[m].sequence + "\\n" + R[m].plus + "\\n" + R[m].qual + "\\n") and '
                              'out[m].startswith("@") for m in range(2))',
        'one_output_per_mate': 'len(out) == 2',
    }, 'bulk demultiplexing: records are returned as FASTQ text; header fields short enough for the header to fit (C04)',
        setup=c02_setup_short_headers),
]


# ------------------------------------------------------------------------------ TCHIC (SCCHIC_384w_c8_u3_cs2): scCHIC layout; a pair
# recognised as transcriptome bleed-through gets read 2 trimmed.  Whatever is trimmed, the emitted read 2 stays a prefix of
# mate 2 with the qualities of exactly those bases.
RCOMP = z3.Function('reverse_complement', z3.StringSort(), z3.StringSort())


def tchic_setup(eng):
    c02_setup(eng)
    cell = named(STR, 'cell_index')
    stubs.STUBS['BarcodeParser']['methods']['__getitem__'] = lambda e, o, k: {'ACGTACGT': cell}
    eng.loader.call_hooks['singlecellmultiomics.utils.sequtils.reverse_complement'] = \
        lambda e, f, a, k, n: Sym(RCOMP(a[0].z if isinstance(a[0], Sym) else z3.StringVal(a[0])), STR)

    def re_compile(e, a, k, n):
        o = Obj('Regex', {'pattern': a[0]})
        o.vc_immutable = True
        return o

    def re_sub(e, o, repl, string, *a, **k):
        # re.compile('[GA]*$').sub('', s): s without a (maximal) suffix of G/A characters - a prefix of s (assumed contract)
        if o.attrs['pattern'] != '[GA]*$' or repl != '':
            from pyvc.engine import Unsupported
            raise Unsupported('regex %r' % o.attrs['pattern'])
        t = fresh(STR, 're_sub')
        e.assume(z3.PrefixOf(t.z, string.z if isinstance(string, Sym) else z3.StringVal(string)))
        return t
    stubs.STUBS['Regex'] = {'methods': {'sub': re_sub}, 'props': {}, 'setters': {}}
    externals.EXTRA['re.compile'] = re_compile


UNITS.append(custom(
    'SCCHIC_384w_c8_u3_cs2', 'dm.SCCHIC_384w_c8_u3_cs2(barcodeFileParser=PARSER, indexFileParser=None, indexFileAlias=None)', {
        'raw_barcode_tag': 'all(o.tags["bc"] == R[0].sequence[3:11] for o in out)',
        'cell_tags': 'all(o.tags["BC"] == CORRECTED and o.tags["bi"] == CELL_INDEX and o.tags["MX"] == s.shortName for o in out)',
        'umi_tags': 'all(o.tags["RX"] == R[0].sequence[0:3] and o.tags["RQ"] == ENC(R[0].qual[0:3]) for o in out)',
        'ligation_tags': 'all(o.tags["lh"] == R[0].sequence[11:13] and o.tags["lq"] == ENC(R[0].qual[11:13]) for o in out)',
        'emitted_read1': 'out[0].sequence == R[0].sequence[12:] and out[0].qualities == R[0].qual[12:] and out[0].plus == R[0].plus',
        # read 2: a prefix of mate 2, bases and qualities index-aligned
        'emitted_read2_is_a_prefix_of_mate_2_with_its_own_qualities':
            'R[1].sequence.startswith(out[1].sequence) and out[1].qualities == R[1].qual[:len(out[1].sequence)] and out[1].plus == R[1].plus',
        'one_output_per_mate': 'len(out) == 2',
    }, 'TCHIC: scCHIC layout (skip one base after the barcode); re.sub of a trailing [GA]* run and reverse_complement through '
       'assumed contracts; the celseq2 whitelist holds one barcode for the cell', setup=tchic_setup))


def layout_replay(cls_name, n_records, skip):
    def replay(inputs, clause):
        """real strategy class, a parser that accepts every barcode, records with the model's sequences"""
        import importlib
        dm = importlib.import_module('singlecellmultiomics.modularDemultiplexer.demultiplexModules')
        fq = importlib.import_module('singlecellmultiomics.fastqProcessing.fastqIterator')
        g = inputs.get('witness', {})

        class Parser:
            def getIndexCorrectedBarcodeAndHammingDistance(self, barcode=None, alias=None, **k):
                # a corrected barcode that differs from the observed one (1 mismatch corrected)
                return ('7', ('A' if barcode[:1] != 'A' else 'C') + barcode[1:], 1)
        s = getattr(dm, cls_name)(barcodeFileParser=Parser(), indexFileParser=None, indexFileAlias=None)
        import random
        rng = random.Random(1)
        recs = []
        for i in range(n_records):
            seq = ''.join(rng.choice('ACGT') for _ in range(40))
            seq = ''.join('ACGT'[(j * 7 + i) % 4] for j in range(40))
            qual = ''.join(chr(33 + (j * 3 + i) % 40) for j in range(40))
            recs.append(fq.FastqRecord('@NS500:1:FC:1:11101:100:200 %d:N:0:ACGT' % (i + 1), seq, '+', qual))
        out = s.demultiplex(recs)
        claims = []
        for m in range(n_records):
            iv = []
            if s.umiLength != 0 and s.umiRead == m:
                iv.append((s.umiStart, s.umiStart + s.umiLength, 'umi'))
            if s.barcodeRead == m:
                iv.append((s.barcodeStart, s.barcodeStart + s.barcodeLength, 'barcode'))
            if s.random_primer_read == m and not s.random_primer_end:
                iv.append((0, s.random_primer_length, 'primer'))
            claims.append(iv)
        failed = []
        raw = recs[s.barcodeRead].sequence[s.barcodeStart:s.barcodeStart + s.barcodeLength]
        for o in out:
            if o.tags.get('bc') != raw:
                failed.append({'clause': 'raw_barcode_tag', 'bc': o.tags.get('bc'), 'bases_in_read': raw})
            if s.umiLength != 0 and o.tags.get('RX') != recs[s.umiRead].sequence[s.umiStart:s.umiStart + s.umiLength]:
                failed.append({'clause': 'umi_tags', 'RX': o.tags.get('RX')})
            if s.umiLength != 0:
                enc = importlib.import_module('singlecellmultiomics.modularDemultiplexer.baseDemultiplexMethods').phredToFastqHeaderSafeQualities
                want_rq = enc(recs[s.umiRead].qual[s.umiStart:s.umiStart + s.umiLength])
                if o.tags.get('RQ') != want_rq:
                    failed.append({'clause': 'umi_tags', 'RQ': o.tags.get('RQ'), 'expected': want_rq})
            if s.random_primer_read is not None:
                exp = recs[s.random_primer_read].sequence[-s.random_primer_length:] if s.random_primer_end else \
                    recs[s.random_primer_read].sequence[:s.random_primer_length]
                if o.tags.get('rS') != exp:
                    failed.append({'clause': 'random_primer_tag', 'rS': o.tags.get('rS'), 'expected': exp})
        for m in range(n_records):
            start = max([0] + [b for a, b, _ in claims[m]]) + skip[m]
            end = -s.random_primer_length if (s.random_primer_read == m and s.random_primer_end) else None
            if out[m].sequence != recs[m].sequence[start:end] or out[m].qualities != recs[m].qual[start:end]:
                failed.append({'clause': 'emitted_stretch', 'mate': m, 'expected_start': start, 'emitted': out[m].sequence,
                               'input': recs[m].sequence})
            for a in claims[m]:
                for b in claims[m]:
                    if a[2] < b[2] and not (a[1] <= b[0] or b[1] <= a[0]):
                        failed.append({'clause': 'declared_intervals_are_disjoint', 'mate': m, 'intervals': [a, b]})
        obs = {'outcome': 'return', 'value': {'shortName': s.shortName, 'tags': {k: str(v) for k, v in out[0].tags.items() if k in ('RX', 'bc', 'rS')},
                                              'capture': [str(x) for x in s.sequenceCapture]}}
        if failed:
            return {'status': 'confirmed', 'observed': obs, 'failed': failed}
        return {'status': 'not-reproduced', 'observed': obs}
    return replay


_SKIPS = {'SCCHIC_384w_c8_u3': (1, 0), 'SCCHIC_384w_c8_u3_direct_ligation': (1, 0), 'DamID2': (-1, 0),
          'DamID2_NO_OVERHANG': (-1, 0), 'Nla_384w_u8_c8_ad3_is15': (18, 0), 'SCCHIC_384w_c8_u3_direct_ligation_SINGLE_END': (1,)}
for _u in UNITS:
    _n = _u.name[len('layout['):-1]
    if _n in ('DamID2_SCA', 'IlluminaBaseDemultiplexer', 'SCCHIC_384w_c8_u3_cs2', 'SCCHIC_384w_c8_u3_pdt') or ';' in _n:
        continue
    _u.replay = layout_replay(_n, 1 if 'SINGLE_END' in _n else 2, _SKIPS.get(_n, (0, 0)))


def extra_units():
    """the recorded UMI / ligation qualities are ENC(qualities found in the read): ENC must be the faithful codec (identity
    on phred 0..51, saturating above) - C04's exhaustive codec unit, re-verified under this property"""
    from contracts import c04
    from pyvc.units import share
    # ... and the records the strategies are handed are the four lines of the files, empty lines included (C01's reader unit)
    from contracts import c01
    return [share(c04.phred, PROP), share(c01.fastq_next, PROP)]


# ------------------------------------------------------------------------------ composite strategies (DamID + transcriptome): two
# demultiplexers look at the same pair; the emitted records are those of one of them.  Bounded: read 1 has a fixed length
# (the transcriptome insert is pruned of leading T's by a character loop), contents symbolic.
def composite_setup(r1_len):
    def setup(eng):
        c02_setup(eng)
        eng.assume(z3.Length(eng.spec_env['R'][0].attrs['sequence'].z) == r1_len)
    return setup


def _cat(slices, field):
    return ' + '.join('R[0].%s[%d:%d]' % (field, a, b) for a, b in slices)


def composite_unit(cls_name, dam, tx, r1_len, both):
    """dam / tx: dict(umi=[(a,b)..], bc=[(a,b)..], start=n) of the two layouts; both: 'dam' | 'tx+damtags' - which records a
    pair accepted by both demultiplexers yields"""
    DAM, TX = 'LOOKUPS[0][1]', 'LOOKUPS[1][1]'
    pruned = ('any(len(out[0].sequence) == len(R[0].sequence) - ({st} + j) and out[0].sequence == R[0].sequence[{st} + j:] and '
              'out[0].qualities == R[0].qual[{st} + j:] and R[0].sequence[{st}:{st} + j] == "T" * j for j in range({n}))'
              ).format(st=tx['start'], n=max(1, r1_len - tx['start'] + 1))
    dam_rec = 'out[0].sequence == R[0].sequence[%d:] and out[0].qualities == R[0].qual[%d:]' % (dam['start'], dam['start'])
    dam_tags = 'all(o.tags["bc"] == %s and o.tags["RX"] == %s and o.tags["RQ"] == ENC(%s) for o in out)' % (
        _cat(dam['bc'], 'sequence'), _cat(dam['umi'], 'sequence'), _cat(dam['umi'], 'qual'))
    tx_tags = 'all(o.tags["bc"] == %s and o.tags["RX"] == %s and o.tags["RQ"] == ENC(%s) for o in out)' % (
        _cat(tx['bc'], 'sequence'), _cat(tx['umi'], 'sequence'), _cat(tx['umi'], 'qual'))
    only_dam, only_tx, both_c = '(%s and not %s)' % (DAM, TX), '(%s and not %s)' % (TX, DAM), '(%s and %s)' % (DAM, TX)
    r2 = lambda lay: ('out[1].sequence == R[1].sequence[%d:] and out[1].qualities == R[1].qual[%d:] and '
                      'all(out[m].plus == R[m].plus for m in range(2))' % (lay.get('r2_start', 0), lay.get('r2_start', 0)))
    ens = {
        'one_output_per_mate': 'len(out) == 2',
        'damid_pair': 'implies(%s, %s and %s and %s)' % (only_dam, dam_rec, r2(dam), dam_tags),
        'transcriptome_pair_pruned_of_leading_T': 'implies(%s, %s and %s and %s)' % (only_tx, pruned, r2(tx), tx_tags),
        'pair_accepted_by_both': 'implies(%s, %s)' % (both_c, ('%s and %s and %s' % (dam_rec, r2(dam), dam_tags)) if both == 'dam'
                                                      else ('%s and %s and %s' % (pruned, r2(tx), dam_tags))),
    }
    u = custom(cls_name, 'dm.%s(barcodeFileParser=PARSER, indexFileParser=None, indexFileAlias=None)' % cls_name, ens,
               'composite strategy: the two sub-demultiplexers call the barcode lookup once each (DamID first)',
               setup=composite_setup(r1_len))
    u.name = 'layout[%s; read 1 of %d bases]' % (cls_name, r1_len)
    u.bounded = 'read 1 has exactly %d bases (symbolic contents), read 2 any length' % r1_len
    return u


DAMID2 = dict(umi=[(0, 3)], bc=[(3, 13)], start=12)
CS2 = dict(umi=[(0, 6)], bc=[(6, 14)], start=14, r2_start=6)
SCA8 = dict(umi=[(0, 3), (7, 10)], bc=[(3, 7), (10, 14)], start=14)
SCA10 = dict(umi=[(0, 3), (7, 10)], bc=[(3, 7), (10, 16)], start=16)
COMPOSITES = []
for _n in (14, 16, 17):
    COMPOSITES += [composite_unit('DamID2_c8_u3_cs2', DAMID2, CS2, _n, 'dam'),
                   composite_unit('DamID2andT_SCA', SCA8, SCA8, _n, 'dam'),
                   composite_unit('DamID2andT_SCA6', SCA10, SCA8, _n, 'tx+damtags')]
UNITS += COMPOSITES


# SCCHIC_384w_c8_u3_pdt (CHICTV): scCHIC layout without random primer; read 1 is cut at the template-switch oligo and the (up
# to) six bases before it are recorded as transcript UMI
PDT_P = 'R[0].sequence[12:].find("AGACTCTTT")'
UNITS.append(custom(
    'SCCHIC_384w_c8_u3_pdt', 'dm.SCCHIC_384w_c8_u3_pdt(barcodeFileParser=PARSER, indexFileParser=None, indexFileAlias=None)', {
        'raw_barcode_and_umi_tags': 'all(o.tags["bc"] == R[0].sequence[3:11] and o.tags["RX"] == R[0].sequence[0:3] and '
                                    'o.tags["RQ"] == ENC(R[0].qual[0:3]) and o.tags["MX"] == "CTV" for o in out)',
        'ligation_tags': 'all(o.tags["lh"] == R[0].sequence[11:13] and o.tags["lq"] == ENC(R[0].qual[11:13]) for o in out)',
        'read1_from_the_insert_start_up_to_the_oligo':
            '%s >= 0 and out[0].sequence == R[0].sequence[12:12 + %s] and out[0].qualities == R[0].qual[12:12 + %s]' % (PDT_P, PDT_P, PDT_P),
        'transcript_umi_is_the_bases_before_the_oligo':
            'all(o.tags["tu"] == R[0].sequence[12 + max(0, %s - 6):12 + %s] for o in out)' % (PDT_P, PDT_P),
        'read2_emitted_whole': 'out[1].sequence == R[1].sequence and out[1].qualities == R[1].qual and all(out[m].plus == R[m].plus for m in range(2))',
        'one_output_per_mate': 'len(out) == 2',
    }, 'CHICTV: scCHIC layout (skip one base after the barcode), read 1 cut at the first template-switch oligo of the insert'))


def tchic_replay(inputs, clause):
    """real SCCHIC_384w_c8_u3_cs2 on a transcriptome bleed-through pair (read 1 insert holds the cell's CS2 barcode + TTTTT)
    whose mates have different qualities"""
    import importlib
    import sys
    from pyvc.loader import REPO
    if REPO not in sys.path:
        sys.path.insert(0, REPO)
    dm = importlib.import_module('singlecellmultiomics.modularDemultiplexer.demultiplexModules')
    fq = importlib.import_module('singlecellmultiomics.fastqProcessing.fastqIterator')

    class Parser:
        def getIndexCorrectedBarcodeAndHammingDistance(self, barcode=None, alias=None, **k):
            return ('7', barcode, 0)

        def __getitem__(self, alias):
            return {'ACGTACGT': '7'}
    s = dm.SCCHIC_384w_c8_u3_cs2(barcodeFileParser=Parser(), indexFileParser=None, indexFileAlias=None)
    r1 = 'ACG' + 'AAAACCCC' + 'T' + 'GGCATC' + 'ACGTACGT' + 'TTTTT' + 'GATTACAGATTACA'
    r2 = 'CTAGCTAGGATCGATCCTAGAAGGAGAG'
    q1 = ''.join(chr(40 + (i % 20)) for i in range(len(r1)))
    q2 = ''.join(chr(70 - (i % 20)) for i in range(len(r2)))
    recs = [fq.FastqRecord('@NS500:1:FC:1:11101:100:200 1:N:0:ACGT', r1, '+', q1),
            fq.FastqRecord('@NS500:1:FC:1:11101:100:200 2:N:0:ACGT', r2, '+', q2)]
    out = s.demultiplex(recs)
    failed = []
    n = len(out[1].sequence)
    if not (r2.startswith(out[1].sequence) and out[1].qualities == q2[:n]):
        failed.append({'clause': 'emitted_read2_is_a_prefix_of_mate_2_with_its_own_qualities', 'sequence': out[1].sequence,
                       'qualities': out[1].qualities, 'expected_qualities': q2[:n]})
    if out[0].sequence != r1[12:] or out[0].qualities != q1[12:]:
        failed.append({'clause': 'emitted_read1'})
    obs = {'outcome': 'return', 'value': {'dt': out[0].tags.get('dt'), 'r2': out[1].sequence, 'q2': out[1].qualities}}
    return {'status': 'confirmed' if failed else 'not-reproduced', 'observed': obs, 'failed': failed}


for _u in UNITS:
    if _u.name == 'layout[SCCHIC_384w_c8_u3_cs2]':
        _u.replay = tchic_replay


def composite_replay(cls_name):
    def replay(inputs, clause):
        """real composite strategy with a parser that knows the observed barcode under both aliases (a pair accepted by the
        DamID and by the transcriptome demultiplexer); also pushed through the real loader with real FastqHandle sinks"""
        import gzip
        import importlib
        import io
        import os
        import shutil
        import sys
        import tempfile
        import types
        from contextlib import redirect_stdout
        from pyvc.loader import REPO
        if REPO not in sys.path:
            sys.path.insert(0, REPO)
        dm = importlib.import_module('singlecellmultiomics.modularDemultiplexer.demultiplexModules')
        fq = importlib.import_module('singlecellmultiomics.fastqProcessing.fastqIterator')
        L = importlib.import_module('singlecellmultiomics.modularDemultiplexer.demultiplexingStrategyLoader')
        H = importlib.import_module('singlecellmultiomics.fastqProcessing.fastqHandle')

        class Parser:
            def getIndexCorrectedBarcodeAndHammingDistance(self, barcode=None, alias=None, **k):
                return ('7', barcode, 0)

            def __getitem__(self, alias):
                return {'ACGTACGT': '7'}
        s = getattr(dm, cls_name)(barcodeFileParser=Parser(), indexFileParser=None, indexFileAlias=None)
        r1, r2 = 'ACGTTGCAAGGCTAGCTTTGATTACAGATTACA', 'CTAGCTAGGATCGATCCTAGAAGGAGAG'
        recs = [fq.FastqRecord('@NS500:1:FC:1:11101:100:200 1:N:0:ACGT', r1, '+', 'I' * len(r1)),
                fq.FastqRecord('@NS500:1:FC:1:11101:100:200 2:N:0:ACGT', r2, '+', 'H' * len(r2))]
        out = s.demultiplex(recs)
        shape = type(out).__name__ if not isinstance(out, list) else [type(o).__name__ for o in out]
        base = os.path.join(os.path.dirname(os.path.dirname(os.path.abspath(__file__))), '.scratch')
        os.makedirs(base, exist_ok=True)
        d = tempfile.mkdtemp(prefix='c02c_', dir=base)
        try:
            paths = []
            for m, r in enumerate(recs):
                p = os.path.join(d, 'R%d.fastq.gz' % (m + 1))
                with gzip.open(p, 'wt') as f:
                    f.write('%s\n%s\n+\n%s\n' % (r.header, r.sequence, r.qual))
                paths.append(p)
            me = types.SimpleNamespace(indexParser=None, barcodeParser=None)
            target = H.FastqHandle(os.path.join(d, 'target'), pairedEnd=True)
            reject = H.FastqHandle(os.path.join(d, 'reject'), pairedEnd=True)
            with redirect_stdout(io.StringIO()):
                processed, yields = L.DemultiplexingStrategyLoader.demultiplex(me, paths, strategies=[s], library='LIB',
                                                                               targetFile=target, rejectHandle=reject)
            target.close()
            reject.close()
            n_t = [len(gzip.open(os.path.join(d, 'targetR%d.fastq.gz' % (m + 1)), 'rt').read().splitlines()) for m in range(2)]
            n_r = [len(gzip.open(os.path.join(d, 'rejectR%d.fastq.gz' % (m + 1)), 'rt').read().splitlines()) for m in range(2)]
        finally:
            shutil.rmtree(d, ignore_errors=True)
        obs = {'outcome': 'return', 'value': {'demultiplex_returned': shape, 'loader_processed': processed, 'loader_yields': dict(yields),
                                              'target_lines': n_t, 'reject_lines': n_r}}
        failed = []
        # pairs accepted by the transcriptome demultiplexer only, read-1 insert made of T's: bases and qualities stay aligned
        tx_alias = getattr(s.transcriptome_demux, 'barcodeFileAlias', None)

        class TxOnly(Parser):
            def getIndexCorrectedBarcodeAndHammingDistance(self, barcode=None, alias=None, **k):
                return ('7', barcode, 0) if alias == tx_alias else (None, None, None)
        s2 = getattr(dm, cls_name)(barcodeFileParser=TxOnly(), indexFileParser=None, indexFileAlias=None)
        tx_rows = []
        base_drop = None       # bases the strategy takes off read 1 before the insert (measured on an insert without leading T)
        for ins in ('ACG', '', 'T', 'TT', 'TTTA', 'TTTT', 'TNTA', 'NAT', 'TTNCA', 'TTTTTTTTTTTT'):
            seq1 = 'ACGTTGCAAGGCTA' + ins
            q1 = ''.join(chr(40 + i) for i in range(len(seq1)))
            recs2 = [fq.FastqRecord('@NS500:1:FC:1:11101:100:200 1:N:0:ACGT', seq1, '+', q1),
                     fq.FastqRecord('@NS500:1:FC:1:11101:100:200 2:N:0:ACGT', r2, '+', 'H' * len(r2))]
            try:
                o2 = s2.demultiplex(recs2)
            except Exception as e:      # noqa
                tx_rows.append({'insert': ins, 'raised': type(e).__name__})
                if type(e).__name__ != 'NonMultiplexable':
                    # the loader writes a pair that ends in any other exception to neither output
                    failed.append({'clause': 'raises.only', 'insert': ins, 'raised': type(e).__name__})
                continue
            es, eq = o2[0].sequence, o2[0].qualities
            tx_rows.append({'insert': ins, 'sequence': es, 'qualities': eq})
            if base_drop is None:
                base_drop = len(seq1) - len(es)
            pruned = seq1[min(base_drop, len(seq1)):len(seq1) - len(es)]
            if len(es) != len(eq) or not seq1.endswith(es) or (es and q1[len(q1) - len(es):] != eq) or set(pruned) - {'T'}:
                failed.append({'clause': 'transcriptome_pair_pruned_of_leading_T', 'insert': ins, 'sequence': es, 'qualities': eq,
                               'pruned_besides_the_prefix': pruned})
        obs['value']['transcriptome_only_pairs'] = tx_rows
        if not (isinstance(out, list) and len(out) == 2):
            failed.append({'clause': 'one_output_per_mate', 'returned': shape})
        if n_t != [4, 4] or n_r != [0, 0]:
            failed.append({'clause': 'C01: accepted pair written once', 'target_lines': n_t, 'reject_lines': n_r})
        return {'status': 'confirmed' if failed else 'not-reproduced', 'observed': obs, 'failed': failed}
    return replay


for _u in COMPOSITES:
    _u.replay = composite_replay(_u.name[len('layout['):].split(';')[0])


# ------------------------------------------------------------------------------ reverse_complement (opaque in the TCHIC unit above)
def revcomp_bounded(tier, seed):
    import itertools
    import json
    import os
    from pyvc.contract import import_real
    fn = import_real('singlecellmultiomics/utils/sequtils.py', 'reverse_complement')
    comp = {'A': 'T', 'C': 'G', 'G': 'C', 'T': 'A', 'N': 'N'}
    n = 0
    for L in range(0, 6):
        for t in itertools.product('ACGTN', repeat=L):
            s = ''.join(t)
            want = ''.join(comp[c] for c in reversed(s))
            try:
                got = fn(s)
            except Exception as e:      # noqa: BLE001
                got = '%s: %s' % (type(e).__name__, e)
            n += 1
            if got != want:
                out = os.environ.get('VERIF_OUT', '.')
                os.makedirs(os.path.join(out, 'replays', PROP), exist_ok=True)
                path = 'replays/%s/reverse_complement.json' % PROP
                json.dump({'property': PROP, 'obligation': '%s/reverse_complement' % PROP,
                           'replay': {'status': 'confirmed', 'input': s, 'observed': got, 'expected': want}},
                          open(os.path.join(out, path), 'w'), indent=1)
                return {'result': 'violation', 'replay': path, 'confirmed': True, 'strings': n}
    return {'result': 'clean', 'strings': n}


from pyvc.units import Bounded      # noqa: E402
UNITS.append(Bounded(PROP, 'reverse_complement[every string over ACGTN up to 5 bases]', revcomp_bounded,
                     'all 3906 strings over ACGTN of length 0..5', 'exhaustive run of the real function against the definition'))
