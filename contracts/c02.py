"""C02 - demultiplexed records contain exactly the bases the protocol layout prescribes."""
import z3

from pyvc.contract import Contract
from pyvc.engine import Obj, Sym, Builtin, fresh, named, BOOL, INT, STR
from pyvc import stubs, externals, segstr

PROP = 'C02'
LEVEL = 'proof'
FL = 'singlecellmultiomics/modularDemultiplexer/demultiplexingStrategyLoader.py'
FB = 'singlecellmultiomics/modularDemultiplexer/baseDemultiplexMethods.py'
QB = 'singlecellmultiomics.modularDemultiplexer.baseDemultiplexMethods.'
ENC = z3.Function('phred_encode', z3.StringSort(), z3.StringSort())
HDR_UNSAFE = ': \t\n\r\x0b\x0c;'


def c02_setup(eng):
    eng.ghost.clear()
    # phred encoding of qualities is C04's codec: opaque here
    eng.loader.call_hooks[QB + 'phredToFastqHeaderSafeQualities'] = \
        lambda e, f, a, k, n: Sym(ENC(a[0].z if isinstance(a[0], Sym) else z3.StringVal(a[0])), STR)
    eng.loader.call_hooks[QB + 'fqSafe'] = lambda e, f, a, k, n: a[0]
    eng.spec_env['ENC'] = Builtin('ENC', lambda e, a, k, n: Sym(ENC(a[0].z if isinstance(a[0], Sym) else z3.StringVal(a[0])), STR))

    def lookup(e, obj, *a, **k):
        raw = k.get('barcode', a[0] if a else None)
        ok = fresh(BOOL, 'barcode_known')
        if e.branch(ok.z):
            bc = named(STR, 'corrected_barcode')
            rz = raw.z if isinstance(raw, Sym) else z3.StringVal(raw)
            e.assume(z3.Length(bc.z) == z3.Length(rz))        # C03: a match has the length of the query
            e.spec_env['CORRECTED'] = bc
            e.spec_env['CELL_INDEX'] = named(STR, 'cell_index')
            return (e.spec_env['CELL_INDEX'], bc, named(INT, 'hamming_distance'))
        return (None, None, None)
    stubs.STUBS['BarcodeParser'] = {'methods': {'getIndexCorrectedBarcodeAndHammingDistance': lookup}, 'props': {}, 'setters': {}}
    parser = Obj('BarcodeParser', {})
    parser.vc_immutable = True
    eng.spec_env['PARSER'] = parser

    def rec(i):
        hdr = segstr.build(sum(([':' if j else '', segstr.register_atom(eng, named(STR, 'hdr%d_%d' % (i, j)), HDR_UNSAFE)]
                                for j in range(7)), []) + [' ', '%d:N:0:' % (i + 1),
                                                           segstr.register_atom(eng, named(STR, 'index%d' % i), HDR_UNSAFE)])
        seq, qual = named(STR, 'seq%d' % i), named(STR, 'qual%d' % i)
        eng.assume(z3.Length(seq.z) == z3.Length(qual.z))       # A7 well-formed FASTQ record
        o = Obj('FastqRecord', {'header': hdr, 'sequence': seq, 'plus': '+', 'qual': qual})
        o.vc_fields = ['header', 'sequence', 'plus', 'qual']
        return o
    eng.spec_env['R'] = [rec(0), rec(1)]


# --- the layout a strategy declares (its constructor arguments, as stored on the object) -> intervals per mate
def _claims():
    return '''
[ [iv for iv in (
      ((s.umiStart, s.umiStart + s.umiLength, "umi") if (s.umiLength != 0 and s.umiRead == m) else None),
      ((s.barcodeStart, s.barcodeStart + s.barcodeLength, "barcode") if s.barcodeRead == m else None),
      ((0, s.random_primer_length, "primer") if (s.random_primer_read == m and not s.random_primer_end) else None),
  ) if iv is not None] for m in range(N) ]'''.replace('\n', ' ')


CLAIMS = _claims()
START = '[max([0] + [iv[1] for iv in %s[m]]) + SKIP[m] for m in range(N)]' % CLAIMS
END = '[(-s.random_primer_length if (s.random_primer_read == m and s.random_primer_end) else None) for m in range(N)]'

GENERIC = {
    'raw_barcode_tag': 'all(o.tags["bc"] == R[s.barcodeRead].sequence[s.barcodeStart:s.barcodeStart + s.barcodeLength] for o in out)',
    'cell_tags': 'all(o.tags["BC"] == CORRECTED and o.tags["bi"] == CELL_INDEX and o.tags["MX"] == s.shortName for o in out)',
    'umi_tags': 'implies(s.umiLength != 0, all(o.tags["RX"] == R[s.umiRead].sequence[s.umiStart:s.umiStart + s.umiLength] and '
                'o.tags["RQ"] == ENC(R[s.umiRead].qual[s.umiStart:s.umiStart + s.umiLength]) for o in out))',
    'random_primer_tag': 'implies(s.random_primer_read is not None, all(o.tags["rS"] == '
                         '(R[s.random_primer_read].sequence[-s.random_primer_length:] if s.random_primer_end else '
                         'R[s.random_primer_read].sequence[:s.random_primer_length]) for o in out))',
    # emitted sequence and qualities: the same contiguous stretch of the same mate, starting where the declared prefix ends
    'emitted_stretch': 'all(out[m].sequence == R[m].sequence[%s[m]:%s[m]] and out[m].qualities == R[m].qual[%s[m]:%s[m]] '
                       'and out[m].plus == R[m].plus for m in range(N))' % (START, END, START, END),
    # a base is moved to at most one of the UMI / barcode / primer tags
    'declared_intervals_are_disjoint': 'all(a[1] <= b[0] or b[1] <= a[0] for m in range(N) for a in %s[m] for b in %s[m] if a[2] != b[2])'
                                       % (CLAIMS, CLAIMS),
    # every base before the emitted stretch is recorded in a tag (or is the declared skipped ligation base)
    'prefix_is_accounted_for': 'all(any(iv[0] <= i and i < iv[1] for iv in %s[m]) or (i >= %s[m] - SKIP[m]) '
                               'for m in range(N) for i in range(%s[m]))' % (CLAIMS, START, START),
    'one_output_per_mate': 'len(out) == N',
}


def strategy(cls_name, n_records=2, skip=(0, 0), extra=None, note=''):
    src = '''
s = dm.%s(barcodeFileParser=PARSER, indexFileParser=None, indexFileAlias=None)
out = s.demultiplex(R[:%d])
return (s, out)
''' % (cls_name, n_records)
    ens = {}
    for k, v in GENERIC.items():
        ens[k] = 'implies(True, (lambda s, out, N, SKIP: %s)(result[0], result[1], %d, %r))' % (v, n_records, list(skip))
    ens.update(extra or {})
    return Contract(
        PROP, FL + '::DemultiplexingStrategyLoader', name='layout[%s]' % cls_name,
        harness=src, params={}, setup=c02_setup, ensures=ens,
        raises={'NonMultiplexable': 'True'},
        assumptions=['barcode lookup through its contract (C03): a match has the length of the query; phred encoding opaque (C04)',
                     'FASTQ records well formed: len(sequence) == len(qualities), any length incl. 0 (A7); Illumina header of 7 '
                     'colon-separated fields + " n:N:0:index"', 'declared layout = the constructor arguments stored on the strategy '
                     'object' + (' ; ' + note if note else '')],
    )


GENERIC_CLASSES = ['CELSeq1_c8_u4', 'CELSeq2_c8_u6', 'CELSeq2_c8_u6_NH', 'CELSeq2_c8_u8', 'CELSeq2_c8_u8_NNLAIII',
                   'CELSeq2_c8_u6_swapped_reads', 'NLAIII_384w_c8_u3', 'NLAIII_96w_c8_u3', 'MSPJI_c8_u3', 'ScartraceR1',
                   'ScartraceR2', 'chrom10x_c16_u12']
UNITS = [strategy(c) for c in GENERIC_CLASSES]
UNITS += [strategy('NLAIII_384w_c8_u3_SINGLE_END', 1), strategy('NLAIII_96w_c8_u3_SINGLE_END', 1)]


# --- documented overrides of the generic layout
LIG = lambda a, b: {
    'ligation_tags': 'implies(True, (lambda s, out: all(o.tags["lh"] == R[0].sequence[%d:%d] and o.tags["lq"] == ENC(R[0].qual[%d:%d]) '
                     'for o in out))(result[0], result[1]))' % (a, b, a, b)}
# scCHIC: "3bp umi followed by 8bp barcode and a single A": the base after the barcode is skipped (SKIP[0]=1) and bases
# 11..12 are recorded as ligation tag lh/lq
UNITS += [strategy('SCCHIC_384w_c8_u3', 2, (1, 0), LIG(11, 13), 'scCHIC: skip one base after the barcode, record two as ligation'),
          strategy('SCCHIC_384w_c8_u3_direct_ligation', 2, (1, 0), LIG(11, 13), 'scCHIC direct ligation'),
          strategy('ScartraceR2RP4', 2, (0, 0)),
          # DamID2: "do map the first base of the barcode": the last barcode base is kept in the insert (SKIP[0] = -1)
          strategy('DamID2', 2, (-1, 0), LIG(11, 13), 'DamID2: the last barcode base stays in the emitted read (keep-overlap 1)')]

def layout_replay(cls_name, n_records, skip):
    def replay(inputs, clause):
        """real strategy class, a parser that accepts every barcode, records with the model's sequences"""
        import importlib
        dm = importlib.import_module('singlecellmultiomics.modularDemultiplexer.demultiplexModules')
        fq = importlib.import_module('singlecellmultiomics.fastqProcessing.fastqIterator')
        g = inputs.get('witness', {})

        class Parser:
            def getIndexCorrectedBarcodeAndHammingDistance(self, barcode=None, alias=None, **k):
                # a corrected barcode that differs from the observed one (1 mismatch corrected)
                return ('7', ('A' if barcode[:1] != 'A' else 'C') + barcode[1:], 1)
        s = getattr(dm, cls_name)(barcodeFileParser=Parser(), indexFileParser=None, indexFileAlias=None)
        import random
        rng = random.Random(1)
        recs = []
        for i in range(n_records):
            seq = ''.join(rng.choice('ACGT') for _ in range(40))
            seq = ''.join('ACGT'[(j * 7 + i) % 4] for j in range(40))
            qual = ''.join(chr(33 + (j * 3 + i) % 40) for j in range(40))
            recs.append(fq.FastqRecord('@NS500:1:FC:1:11101:100:200 %d:N:0:ACGT' % (i + 1), seq, '+', qual))
        out = s.demultiplex(recs)
        claims = []
        for m in range(n_records):
            iv = []
            if s.umiLength != 0 and s.umiRead == m:
                iv.append((s.umiStart, s.umiStart + s.umiLength, 'umi'))
            if s.barcodeRead == m:
                iv.append((s.barcodeStart, s.barcodeStart + s.barcodeLength, 'barcode'))
            if s.random_primer_read == m and not s.random_primer_end:
                iv.append((0, s.random_primer_length, 'primer'))
            claims.append(iv)
        failed = []
        raw = recs[s.barcodeRead].sequence[s.barcodeStart:s.barcodeStart + s.barcodeLength]
        for o in out:
            if o.tags.get('bc') != raw:
                failed.append({'clause': 'raw_barcode_tag', 'bc': o.tags.get('bc'), 'bases_in_read': raw})
            if s.umiLength != 0 and o.tags.get('RX') != recs[s.umiRead].sequence[s.umiStart:s.umiStart + s.umiLength]:
                failed.append({'clause': 'umi_tags', 'RX': o.tags.get('RX')})
            if s.random_primer_read is not None:
                exp = recs[s.random_primer_read].sequence[-s.random_primer_length:] if s.random_primer_end else \
                    recs[s.random_primer_read].sequence[:s.random_primer_length]
                if o.tags.get('rS') != exp:
                    failed.append({'clause': 'random_primer_tag', 'rS': o.tags.get('rS'), 'expected': exp})
        for m in range(n_records):
            start = max([0] + [b for a, b, _ in claims[m]]) + skip[m]
            end = -s.random_primer_length if (s.random_primer_read == m and s.random_primer_end) else None
            if out[m].sequence != recs[m].sequence[start:end] or out[m].qualities != recs[m].qual[start:end]:
                failed.append({'clause': 'emitted_stretch', 'mate': m, 'expected_start': start, 'emitted': out[m].sequence,
                               'input': recs[m].sequence})
            for a in claims[m]:
                for b in claims[m]:
                    if a[2] < b[2] and not (a[1] <= b[0] or b[1] <= a[0]):
                        failed.append({'clause': 'declared_intervals_are_disjoint', 'mate': m, 'intervals': [a, b]})
        obs = {'outcome': 'return', 'value': {'shortName': s.shortName, 'tags': {k: str(v) for k, v in out[0].tags.items() if k in ('RX', 'bc', 'rS')},
                                              'capture': [str(x) for x in s.sequenceCapture]}}
        if failed:
            return {'status': 'confirmed', 'observed': obs, 'failed': failed}
        return {'status': 'not-reproduced', 'observed': obs}
    return replay


_SKIPS = {'SCCHIC_384w_c8_u3': (1, 0), 'SCCHIC_384w_c8_u3_direct_ligation': (1, 0), 'DamID2': (-1, 0)}
for _u in UNITS:
    _n = _u.name[len('layout['):-1]
    _u.replay = layout_replay(_n, 1 if 'SINGLE_END' in _n else 2, _SKIPS.get(_n, (0, 0)))


def extra_units():
    """the recorded UMI / ligation qualities are ENC(qualities found in the read): ENC must be the faithful codec (identity
    on phred 0..51, saturating above) - C04's exhaustive codec unit, re-verified under this property"""
    from contracts import c04
    from pyvc.units import share
    return [share(c04.phred, PROP)]
