"""C01 - demultiplexing conserves every read pair (demultiplexed XOR rejected)."""
import z3

from pyvc.contract import Contract
from pyvc.engine import LoopSpec, Obj, Sym, Builtin, PyRaise, fresh, named, BOOL, INT, STR
from pyvc import stubs, externals, segstr

PROP = 'C01'
LEVEL = 'proof'
FL = 'singlecellmultiomics/modularDemultiplexer/demultiplexingStrategyLoader.py'
FB = 'singlecellmultiomics/modularDemultiplexer/baseDemultiplexMethods.py'
FH = 'singlecellmultiomics/fastqProcessing/fastqHandle.py'
FI = 'singlecellmultiomics/fastqProcessing/fastqIterator.py'
QB = 'singlecellmultiomics.modularDemultiplexer.baseDemultiplexMethods.'
SAFE = ';: \t\n\r\x0b\x0c@'


def sink(eng, label):
    """text file handle opened for writing: write(s) appends s to the ghost content"""
    o = Obj('TextSink', {'label': label})
    o.vc_immutable = True
    return o


def c01_setup(n_mates, with_reject, index_parser):
    def setup(eng):
        g = eng.ghost
        g.clear()
        g.update({'target': [[] for _ in range(n_mates)], 'reject': [[] for _ in range(n_mates)], 'mark': None})
        eng.spec_env['GHOST'] = g
        eng.spec_env['N'] = n_mates
        stubs.STUBS['TextSink'] = {'methods': {
            'write': lambda e, o, data: e.ghost[o.attrs['label'][0]][o.attrs['label'][1]].append(data)}, 'props': {}, 'setters': {}}
        eng.loader.call_hooks[QB + 'fqSafe'] = lambda e, f, a, k, n: a[0]
        ENC = z3.Function('phred_encode', z3.StringSort(), z3.StringSort())
        eng.loader.call_hooks[QB + 'phredToFastqHeaderSafeQualities'] = lambda e, f, a, k, n: Sym(ENC(a[0].z), STR)

        # --- the FASTQ source: an arbitrary sequence of well-formed record tuples (A7)
        def record(e, nm, i):
            hdr = segstr.build(['@'] + sum(([':' if j else '', segstr.register_atom(e, named(STR, '%s_h%d_%d' % (nm, i, j)), SAFE)]
                                            for j in range(7)), []) + [' ', '%d:N:0:' % (i + 1),
                                                                       segstr.register_atom(e, named(STR, '%s_idx%d' % (nm, i)), SAFE)])
            for p in segstr.parts_of(hdr):
                if isinstance(p, Sym):
                    e.assume(z3.Length(p.z) <= 6)          # the header fits in a read name (precondition, see C04)
            seq, qual = named(STR, '%s_seq%d' % (nm, i)), named(STR, '%s_qual%d' % (nm, i))
            e.assume(z3.Length(seq.z) == z3.Length(qual.z))
            o = Obj('FastqRecord', {'header': hdr, 'sequence': seq, 'plus': '+', 'qual': qual})
            o.vc_fields = ['header', 'sequence', 'plus', 'qual']
            return o

        def reads(e, nm):
            t = tuple(record(e, nm, i) for i in range(n_mates))
            e.spec_env['READS'] = t
            return t
        eng.loader.instantiate_hooks['FastqIterator'] = lambda e, cref, a, k: stubs.ObjSeq(reads, 'fastq')

        # --- the selected strategy: only NonMultiplexable escapes, a normal return is one TaggedRecord per mate (C02)
        def strategy_demux(e, obj, recs, **k):
            if e.branch(fresh(BOOL, 'strategy_rejects').z):
                e.ghost['strategy_outcome'] = 'rejected'
                why = segstr.register_atom(e, named(STR, 'reject_reason'), ';\n')
                e.assume(z3.Length(why.z) <= 60)
                raise PyRaise('NonMultiplexable', why)
            e.ghost['strategy_outcome'] = 'accepted'
            mod = e.loader.module_by_relpath(FB)
            out = []
            for i, r in enumerate(recs):
                tr = Obj('TaggedRecord', {'tags': {'Is': segstr.register_atom(e, named(STR, 'out%d_Is' % i), SAFE),
                                                   'BC': segstr.register_atom(e, named(STR, 'out%d_BC' % i), SAFE)},
                                          'tagDefinitions': mod.resolve_global('TagDefinitions', e),
                                          'sequence': named(STR, 'out%d_seq' % i), 'qualities': named(STR, 'out%d_qual' % i),
                                          'plus': '+'}, info=e.loader.classref(FB, 'TaggedRecord'))
                for v in tr.attrs['tags'].values():
                    e.assume(z3.Length(v.z) <= 20)
                out.append(tr)
            e.spec_env['OUT'] = out
            return out
        stubs.STUBS['Strategy'] = {'methods': {'demultiplex': strategy_demux}, 'props': {}, 'setters': {}}

        def idx_lookup(e, obj, *a, **k):
            if e.branch(fresh(BOOL, 'index_known').z):
                iid, ic = segstr.register_atom(e, named(STR, 'index_id'), SAFE), segstr.register_atom(e, named(STR, 'index_corrected'), SAFE)
                e.assume(z3.And(z3.Length(iid.z) <= 10, z3.Length(ic.z) <= 10))
                return (iid, ic, 0)
            return (None, None, None)
        stubs.STUBS['IndexParser'] = {'methods': {'getIndexCorrectedBarcodeAndHammingDistance': idx_lookup}, 'props': {}, 'setters': {}}
        eng.spec_env['WITH_REJECT'] = with_reject
    return setup


def loader_self(index_parser):
    def mk(eng, name):
        ip = None
        if index_parser:
            ip = Obj('IndexParser', {})
            ip.vc_immutable = True
        return Obj('DemultiplexingStrategyLoader', {'indexParser': ip, 'barcodeParser': None},
                   info=eng.loader.classref(FL, 'DemultiplexingStrategyLoader'))
    return mk


def handle(kind, n):
    def mk(eng, name):
        o = Obj('FastqHandle', {'pe': n == 2, 'sc': False, 'path': 'out', 'handles': [sink(eng, (kind, i)) for i in range(n)]},
                info=eng.loader.classref(FH, 'FastqHandle'))
        return o
    return mk


def strategies(eng, name):
    s = Obj('Strategy', {'shortName': 'STRAT', 'longName': 'the selected strategy'})
    s.vc_immutable = True
    return [s]


def head_mark(eng, fr):
    g = eng.ghost
    g['mark'] = {'target': [len(x) for x in g['target']], 'reject': [len(x) for x in g['reject']]}
    g['strategy_outcome'] = None


NEW_T = '[GHOST["target"][m][GHOST["mark"]["target"][m]:] for m in range(N)]'
NEW_R = '[GHOST["reject"][m][GHOST["mark"]["reject"][m]:] for m in range(N)]'
ACCEPTED = '(GHOST["strategy_outcome"] == "accepted")'


def loader_unit(n_mates, with_reject, index_parser):
    body_post = {
        # every mate of the pair goes to exactly one sink, the same sink for all mates (mate synchrony)
        'accepted_pair_written_once_to_the_output':
            'implies(%s, all(len(%s[m]) == 1 and len(%s[m]) == 0 for m in range(N)))' % (ACCEPTED, NEW_T, NEW_R),
        'accepted_record_text':
            'implies(%s, all(%s[m][0] == "@Is:" + OUT[m].tags["Is"] + ";BC:" + OUT[m].tags["BC"] + "\\n" + OUT[m].sequence + "\\n+\\n" '
            '+ OUT[m].qualities + "\\n" for m in range(N)))' % (ACCEPTED, NEW_T),
        'yield_counter_counts_written_pairs':
            'strategyYields["STRAT"] == head(strategyYields, 0)["STRAT"] + (1 if %s else 0)' % ACCEPTED,
        'processed_counter': 'processedReadPairs == k',
        # a pair that is counted has been handed to the strategy (it is then accepted or rejected, never skipped)
        'counted_pair_was_handed_to_the_strategy': 'GHOST["strategy_outcome"] is not None',
    }
    if with_reject:
        body_post.update({
            'rejected_pair_written_once_to_the_rejects':
                'implies(not %s, all(len(%s[m]) == 0 and len(%s[m]) == 1 for m in range(N)))' % (ACCEPTED, NEW_T, NEW_R),
            # with its original bases and qualities, a rejection reason, as a complete 4-line record
            'rejected_record_keeps_bases_and_qualities_and_reason':
                'implies(not %s, all(%s[m][0].endswith("\\n" + READS[m].sequence + "\\n" + READS[m].plus + "\\n" + READS[m].qual + "\\n") '
                'and %s[m][0].startswith("@") and ("RR:" in %s[m][0]) for m in range(N)))' % (ACCEPTED, NEW_R, NEW_R, NEW_R),
        })
    else:
        body_post['rejected_pair_is_dropped_without_reject_handle'] = \
            'implies(not %s, all(len(%s[m]) == 0 and len(%s[m]) == 0 for m in range(N)))' % (ACCEPTED, NEW_T, NEW_R)
    return Contract(
        PROP, FL + '::DemultiplexingStrategyLoader.demultiplex',
        name='loader.demultiplex[%s, %s, %s]' % ('paired' if n_mates == 2 else 'single end',
                                               'rejects handle' if with_reject else 'no rejects handle',
                                               'sequencing-index parser' if index_parser else 'no index parser'),
        params={'self': loader_self(index_parser), 'fastqfiles': ('const', ('R1.fastq.gz', 'R2.fastq.gz')[:n_mates]),
                'maxReadPairs': 'none', 'strategies': strategies, 'library': lambda e, n: segstr.register_atom(e, named(STR, 'library'), SAFE),
                'targetFile': handle('target', n_mates), 'rejectHandle': handle('reject', n_mates) if with_reject else 'none',
                'log_handle': 'none', 'probe': 'none'},
        cases=[{}, {'maxReadPairs': 'int'}],
        requires=['len(library) <= 20'],
        setup=c01_setup(n_mates, with_reject, index_parser),
        loops={0: LoopSpec(
            inv={'processed_counter': 'processedReadPairs == k'},
            types={'strategyYields': ('symdict', [(STR,)], INT, 0), 'targetFile': 'frame', 'rejectHandle': 'frame',
                   'reads': 'frame', 'recodedRecords': 'frame', 'to_write': 'frame', 'strategy': 'frame', 'reason': 'frame',
                   'e': 'frame', 'traceback_str': 'frame', 'read': 'frame'},
            head_hook=head_mark, body_post=body_post)},
        ensures={'reported_pairs': 'implies(maxReadPairs is None, result[0] == seqlen_or_k)'} if False else {},
        raises={},
        assumptions=['the selected strategy obeys its C02 contract: only NonMultiplexable escapes, a normal return is one '
                     'TaggedRecord per mate; tag values header-safe and short enough for the header to fit (C04 precondition)',
                     'FASTQ input well formed (A7): 4-line records, len(seq) == len(qual), Illumina headers of the common form; '
                     'gzip text handles: write appends (A4)', 'one selected strategy (the statement is per strategy)'],
    )


UNITS = [loader_unit(2, True, False), loader_unit(2, True, True), loader_unit(2, False, False), loader_unit(1, True, False)]


def loader_replay(n_mates, with_reject, index_parser):
    def replay(inputs, clause):
        """the real loader.demultiplex on small gzip FASTQ files, real FastqHandle sinks; strategy and index parser are
        fakes that reject / accept according to the scenario of the failed obligation"""
        import gzip
        import importlib
        import os
        import shutil
        import tempfile
        import types
        L = importlib.import_module('singlecellmultiomics.modularDemultiplexer.demultiplexingStrategyLoader')
        B = importlib.import_module('singlecellmultiomics.modularDemultiplexer.baseDemultiplexMethods')
        H = importlib.import_module('singlecellmultiomics.fastqProcessing.fastqHandle')
        d = tempfile.mkdtemp(prefix='c01_')
        try:
            paths = []
            recs = [('@NS500:1:FC:1:11101:100:%d %d:N:0:ACGTAC' % (200 + j, 1), 'ACGTACGTAAGG', '+', 'IIIIIIIIIIII') for j in range(4)]
            for m in range(n_mates):
                p = os.path.join(d, 'R%d.fastq.gz' % (m + 1))
                with gzip.open(p, 'wt') as f:
                    for h, s, pl, q in recs:
                        f.write('%s\n%s\n%s\n%s\n' % (h.replace(' 1:', ' %d:' % (m + 1)), s, pl, q))
                paths.append(p)

            class Idx:
                def getIndexCorrectedBarcodeAndHammingDistance(self, **k):
                    return (None, None, None)

            class Strat:
                shortName, longName = 'STRAT', 'fake strategy'

                def __init__(self):
                    self.n = 0

                def demultiplex(self, reads, **k):
                    self.n += 1
                    if self.n % 2 == 1:
                        raise B.NonMultiplexable('bc:unknown')
                    out = []
                    for r in reads:
                        tr = B.TaggedRecord(B.TagDefinitions)
                        tr.tags.update({'Is': 'x', 'BC': 'AAAA'})
                        cut = 4 if self.n == 2 else len(r.sequence)      # the 4th pair has an empty captured part
                        tr.sequence, tr.qualities, tr.plus = r.sequence[cut:], r.qual[cut:], r.plus
                        out.append(tr)
                    return out
            me = types.SimpleNamespace(indexParser=Idx() if index_parser else None, barcodeParser=None)
            target = H.FastqHandle(os.path.join(d, 'target'), pairedEnd=(n_mates == 2))
            reject = H.FastqHandle(os.path.join(d, 'reject'), pairedEnd=(n_mates == 2)) if with_reject else None
            mrp = inputs.get('maxReadPairs') if isinstance(inputs, dict) else None
            mrp = mrp if isinstance(mrp, int) and not isinstance(mrp, bool) else None
            P = 4 if mrp is None else min(4, max(1, mrp))          # pairs the loop must handle completely before stopping
            n_acc, n_rej = P // 2, (P + 1) // 2
            processed, yields = L.DemultiplexingStrategyLoader.demultiplex(me, paths, maxReadPairs=mrp, strategies=[Strat()],
                                                                           library='LIB', targetFile=target, rejectHandle=reject)
            target.close()
            if reject:
                reject.close()

            def lines(name):
                p = os.path.join(d, name)
                return gzip.open(p, 'rt').read().split('\n') if os.path.exists(p) else None
            t = [lines('targetR%d.fastq.gz' % (m + 1)) for m in range(n_mates)]
            r = [lines('rejectR%d.fastq.gz' % (m + 1)) for m in range(n_mates)]
            obs = {'outcome': 'return', 'value': {'processed': processed, 'yields': dict(yields),
                                                  'target_lines': [len(x) - 1 if x else None for x in t],
                                                  'reject_lines': [len(x) - 1 if x else None for x in r]}}
            failed = []
            # up to 4 pairs: 1st and 3rd rejected, 2nd and 4th accepted (the 4th with an empty captured sequence); with a
            # maxReadPairs cut-off the first P pairs are handled completely
            for m in range(n_mates):
                if t[m] is None or len(t[m]) - 1 != 4 * n_acc or (n_acc and not t[m][0].startswith('@')) or (n_acc == 2 and t[m][5] != ''):
                    failed.append({'clause': 'accepted_pair_written_once_to_the_output', 'mate': m, 'lines': t[m]})
                if with_reject:
                    ok = r[m] is not None and len(r[m]) - 1 == 4 * n_rej and r[m][-1] == '' and all(
                        r[m][4 * i].startswith('@') and 'RR:' in r[m][4 * i] and r[m][4 * i + 1] == 'ACGTACGTAAGG' and r[m][4 * i + 3] == 'IIIIIIIIIIII'
                        for i in range(n_rej))
                    if not ok:
                        failed.append({'clause': 'rejected_record_keeps_bases_and_qualities_and_reason', 'mate': m, 'reject_file_lines': r[m]})
            if yields.get('STRAT', 0) != n_acc or processed != P:
                failed.append({'clause': 'counters', 'yields': dict(yields), 'processed': processed, 'maxReadPairs': mrp})
            if failed:
                return {'status': 'confirmed', 'observed': obs, 'failed': failed}
            return {'status': 'not-reproduced', 'observed': obs}
        finally:
            shutil.rmtree(d, ignore_errors=True)
    return replay


for _u, _cfg in zip(UNITS, [(2, True, False), (2, True, True), (2, False, False), (1, True, False)]):
    _u.replay = loader_replay(*_cfg)


# ------------------------------------------------------------------------------ FastqIterator.__next__: lock-step reading
def iter_setup(eng):
    eng.ghost.clear()
    eng.ghost['pos'] = [0, 0]
    eng.spec_env['GHOST'] = eng.ghost
    NL = [named(INT, 'n_lines_R1'), named(INT, 'n_lines_R2')]
    for n in NL:
        eng.assume(n.z >= 0)
    eng.spec_env['NLINES'] = NL
    FINAL_NL = [named(BOOL, 'file_%d_ends_with_newline' % h) for h in range(2)]
    CRLF = [named(BOOL, 'file_%d_has_crlf_line_ends' % h) for h in range(2)]
    eng.spec_env['FINAL_NL'], eng.spec_env['CRLF'] = FINAL_NL, CRLF

    def line(h, i):
        return segstr.register_atom(eng, named(STR, 'line_%d_%d' % (h, i)), ' \t\n\r\x0b\x0c')

    def readline(e, o):
        h = o.attrs['h']
        i = e.ghost['pos'][h]
        e.ghost['pos'][h] = i + 1
        if e.branch(NL[h].z > i):
            # the last line of a file may end at end-of-file without a newline (CRLF line ends never reach the code: text
            # handles opened with the default newline handling translate them to \n)
            if e.branch(z3.And(NL[h].z == i + 1, z3.Not(FINAL_NL[h].z))):
                return line(h, i)
            return segstr.build([line(h, i), '\n'])
        return ''
    stubs.STUBS['LineSource'] = {'methods': {'readline': readline}, 'props': {}, 'setters': {}}
    eng.spec_env['LINE'] = Builtin('LINE', lambda e, a, k, n: line(a[0], a[1]))
    eng.spec_env['FIRST_LINES'] = [[line(h, i) for i in range(4)] for h in range(2)]      # for the replay: the model's first record


def iterator_self(eng, name):
    hs = []
    for h in range(2):
        o = Obj('LineSource', {'h': h})
        o.vc_immutable = True
        hs.append(o)
    return Obj('FastqIterator', {'handles': tuple(hs), 'readIndex': named(INT, 'readIndex')},
               info=eng.loader.classref(FI, 'FastqIterator'))


fastq_next = Contract(
    PROP, FI + '::FastqIterator.__next__', name='FastqIterator.__next__',
    params={'self': iterator_self},
    setup=iter_setup,
    requires=['all(NLINES[h] % 4 == 0 for h in range(2))'],      # A7: whole 4-line records
    ensures={
        'four_lines_consumed_from_every_file': 'GHOST["pos"] == [4, 4]',
        'mates_from_the_same_record_index':
            'all(result[h].header == LINE(h, 0) and result[h].sequence == LINE(h, 1) and result[h].plus == LINE(h, 2) '
            'and result[h].qual == LINE(h, 3) for h in range(2))',
    },
    # the iteration stops exactly when some file has no further (non-empty) header line
    raises={'StopIteration': 'any(NLINES[h] < 1 or len(LINE(h, 0)) == 0 for h in range(2))'},
    assumptions=['text handles: readline returns the next line with its newline (universal newlines: always \\n; the last line possibly without), "" at end of file (A4); lines contain no '
                 'other whitespace (A7)'],
)
fastq_next.ensures['record_returned_only_if_all_headers_present'] = 'all(NLINES[h] >= 1 and len(LINE(h, 0)) > 0 for h in range(2))'


def fastq_next_replay(inputs, clause):
    """two real FASTQ files with the model's number of lines, line ends and final newline; first __next__ of the real
    FastqIterator against the first four lines of each file"""
    import os
    import shutil
    import tempfile
    from pyvc.contract import import_real
    FQI = import_real(FI, 'FastqIterator')
    g = inputs.get('ghost') or {}
    nl = [max(0, min(int(x), 12)) for x in (g.get('NLINES') or [4, 4])]
    final = [bool(x) for x in (g.get('FINAL_NL') or [True, True])]
    crlf = [bool(x) for x in (g.get('CRLF') or [False, False])]
    d = tempfile.mkdtemp(prefix='c01_')
    try:
        files, want = [], []
        for h in range(2):
            lines = []
            first = (g.get('FIRST_LINES') or [[None] * 4] * 2)[h]
            for i in range(nl[h]):
                dflt = ['@read%d/%d' % (i // 4, h + 1), 'ACGTACGTAC', '+', 'IIIIIHHHH#'][i % 4]
                if i < 4 and isinstance(first[i], str):
                    # the model's first record: the lengths of its lines (an empty read, an empty header ...), printable content
                    n_ = min(len(first[i]), 60)
                    dflt = (['@', 'A', '+', 'I'][i] * n_) if i != 0 else ('@' + 'h' * (n_ - 1) if n_ else '')
                lines.append(dflt)
            end = '\r\n' if crlf[h] else '\n'
            text = end.join(lines) + (end if (lines and final[h]) else '')
            p = os.path.join(d, 'R%d.fastq' % (h + 1))
            with open(p, 'w', newline='') as f:
                f.write(text)
            files.append(p)
            want.append(lines[:4])
        it = FQI(*files)
        try:
            recs = next(it)
            got = [list(r) for r in recs]
            obs = {'outcome': 'return', 'value': got, 'expected': want, 'lines': nl, 'final_newline': final, 'crlf': crlf}
            ok = all(len(w) == 4 for w in want) and got == want
        except StopIteration:
            obs = {'outcome': 'raise', 'value': ['StopIteration'], 'lines': nl, 'first_records': want}
            # the iteration may stop only when some file has no further (non-empty) header line
            ok = any(n < 1 or len(w[0]) == 0 for n, w in zip(nl, want))
        finally:
            for hd in it.handles:
                hd.close()
        if not ok:
            return {'status': 'confirmed', 'observed': obs, 'failed': [{'clause': clause}]}
        return {'status': 'not-reproduced', 'observed': obs}
    finally:
        shutil.rmtree(d, ignore_errors=True)


fastq_next.replay = fastq_next_replay
UNITS.append(fastq_next)

# ------------------------------------------------------------------------------ FastqHandle.write (joint output files)
write_joint = Contract(
    PROP, FH + '::FastqHandle.write', name='FastqHandle.write[joint files]',
    params={'self': handle('target', 2), 'records': lambda eng, name: [named(STR, 'rec0'), named(STR, 'rec1')]},
    setup=c01_setup(2, False, False),
    ensures={'record_k_goes_to_file_k': 'GHOST["target"][0] == [records[0]] and GHOST["target"][1] == [records[1]]'},
    raises={},
)
UNITS.append(write_joint)


# ------------------------------------------------------------------------------ FastqHandle.write (one file per cell)
def sc_setup(eng):
    eng.ghost.clear()
    eng.ghost['calls'] = []
    eng.spec_env['GHOST'] = eng.ghost
    stubs.STUBS['CellFiles'] = {'methods': {
        'write': lambda e, o, path, string, method=0, **k: e.ghost['calls'].append((path, string, method))}, 'props': {}, 'setters': {}}
    stubs.STUBS['RecordText'] = {'methods': {'__str__': lambda e, o: o.attrs['text']}, 'props': {}, 'setters': {}}


def sc_handle(eng, name):
    lim = Obj('CellFiles', {})
    lim.vc_immutable = True
    return Obj('FastqHandle', {'pe': True, 'sc': True, 'path': 'out', 'handles': lim}, info=eng.loader.classref(FH, 'FastqHandle'))


def sc_records(tagged):
    def mk(eng, name):
        out = []
        for i in range(2):
            tags = {'bi': segstr.register_atom(eng, named(STR, 'cell%d' % i), SAFE),
                    'MX': segstr.register_atom(eng, named(STR, 'mux%d' % i), SAFE)} if tagged else {}
            out.append(Obj('RecordText', {'tags': tags, 'text': named(STR, 'rec%d' % i)}))
        eng.spec_env['RECS'] = out
        return out
    return mk


def sc_unit(tagged):
    cell = (lambda i: 'RECS[%d].tags["bi"] + "." + RECS[%d].tags["MX"]' % (i, i)) if tagged else (lambda i: '"no_cell_id.unk"')
    return Contract(
        PROP, FH + '::FastqHandle.write', name='FastqHandle.write[one file per cell, %s]' % ('cell tags' if tagged else 'no cell tags'),
        params={'self': sc_handle, 'records': sc_records(tagged)},
        setup=sc_setup,
        ensures={
            'one_append_per_mate_in_mate_order': 'len(GHOST["calls"]) == 2',
            'mate_k_goes_to_the_Rk_file_of_its_cell':
                'GHOST["calls"][0][0] == "out." + %s + ".R1.fastq.gz" and GHOST["calls"][1][0] == "out." + %s + ".R2.fastq.gz"'
                % (cell(0), cell(1)),
            'record_text_unchanged_gzip_mode':
                'all(GHOST["calls"][m][1] == RECS[m].text and GHOST["calls"][m][2] == 1 for m in range(2))',
        },
        raises={},
        assumptions=['HandleLimiter.write(path, text, method=1) appends text to the gzip file path: its own contract is C19, '
                     're-verified under this property (shared units below)'],
    )


UNITS += [sc_unit(True), sc_unit(False)]


def extra_units():
    """one-file-per-cell output goes through HandleLimiter: its write / prune / close contracts (C19) carry "written exactly
    once, earlier records of the cell preserved" for this property"""
    from contracts import c19, c02
    from pyvc.units import share
    # (c02.extra_units brings the phred codec: a quality character the encoder cannot handle would lose the pair)
    # ... and the loader's assumption about the selected strategy (one record per mate, both mates carrying the same cell
    # and strategy tags, so that per-cell files of the two mates stay synchronised) is C02's contract of every registered
    # strategy, re-verified under this property
    # ... and a barcode lookup on a lazily loaded whitelist ends in an answer, never in RecursionError (C03's lazy-load units)
    from contracts import c03
    lazy = [share(u, PROP) for u in (c03.load_pending, c03.getitem, c03.lookup_lazy, c03.lookup)]
    shared = [u for u in c02.UNITS + c02.extra_units() if getattr(u, 'name', '') != 'FastqIterator.__next__']
    return [share(c19.write, PROP), share(c19.prune, PROP), share(c19.close, PROP)] + [share(u, PROP) for u in shared] + lazy


# ------------------------------------------------------------------------------ fromRawFastq: an unknown sequencing index is a rejection
# The loader writes a pair to the rejects only when the strategy ends in NonMultiplexable; any other exception loses the pair.
# TaggedRecord.fromRawFastq (called by every strategy) must therefore end in NonMultiplexable - nothing else - when the index of
# an Illumina header is not whitelisted, also after it has tried the other header formats.
FBM = 'singlecellmultiomics/modularDemultiplexer/baseDemultiplexMethods.py'


def raw_setup(eng):
    eng.ghost.clear()
    fields = [segstr.register_atom(eng, named(STR, 'hdr_%d' % i), ';: \t\n\r\x0b\x0c_') for i in range(10)]
    index = segstr.register_atom(eng, named(STR, 'hdr_index'), ';: \t\n\r\x0b\x0c_')
    for f in fields + [index]:
        eng.assume(z3.Length(f.z) >= 1)
    hdr = segstr.build(['@'] + sum(([':' if i else '', f] for i, f in enumerate(fields[:7])), []) + [' ']
                       + sum(([':' if i else '', f] for i, f in enumerate(fields[7:])), []) + [':', index])
    eng.spec_env['HDR'] = hdr
    eng.spec_env['KNOWN'] = named(BOOL, 'index_known')

    def lookup(e, o, *a, **k):
        if e.branch(e.spec_env['KNOWN'].z):
            return (named(STR, 'index_identifier'), named(STR, 'corrected_index'), named(INT, 'index_distance'))
        return (None, None, None)
    stubs.STUBS['IndexParser'] = {'methods': {'getIndexCorrectedBarcodeAndHammingDistance': lookup}, 'props': {}, 'setters': {}}

    def _int(e, a, k, n):
        if a and isinstance(a[0], Sym) and a[0].z.eq(index.z):
            raise PyRaise('ValueError', 'invalid literal for int()')
        return e.call(e.builtins()['int'], a, k)
    eng.spec_env['int'] = Builtin('int', _int)


raw_fastq = Contract(
    PROP, FBM + '::TaggedRecord.fromRawFastq', name='TaggedRecord.fromRawFastq[Illumina header, index parser]',
    params={'self': ('obj', 'TaggedRecord', {'tags': ('const', None)}, FBM),
            'fastqRecord': lambda e, n: Obj('FastqRecord', {'header': e.spec_env['HDR'], 'sequence': 'ACGT', 'plus': '+', 'qual': 'IIII'}),
            'indexFileParser': lambda e, n: (lambda o: (setattr(o, 'vc_immutable', True), o)[1])(Obj('IndexParser', {})),
            'indexFileAlias': ('const', 'indices')},
    setup=raw_setup,
    pre_state=lambda eng, fr: fr.env['self'].attrs.__setitem__('tags', {}),
    ensures={'a_whitelisted_index_is_accepted': 'KNOWN'},
    raises={'NonMultiplexable': 'not KNOWN'},
    assumptions=['Illumina header of the common form; the index is a DNA sequence (int() fails on it); header fields contain no '
                 'underscore (a 3-DEC header has four)'],
)
UNITS.append(raw_fastq)


def raw_fastq_replay(inputs, clause):
    """real TaggedRecord.fromRawFastq on the model's header (printable stand-ins of the same shape) with an index parser that
    knows / does not know the index"""
    mod = __import__('singlecellmultiomics.modularDemultiplexer.baseDemultiplexMethods', fromlist=['x'])
    fqm = __import__('singlecellmultiomics.fastqProcessing.fastqIterator', fromlist=['x'])
    hdr = str((inputs.get('ghost') or {}).get('HDR') or '@NS500:1:FC:1:11101:100:200 1:N:0:ACGT')
    known = bool((inputs.get('ghost') or {}).get('KNOWN'))
    rows = []
    for h in (hdr, '@NS500:1:FC:1:11101:100:200 1:N:0:ACGT', '@IsoSeq7:1:FC:1:11101:100:200 1:N:0:ACGT'):
        class P:
            def getIndexCorrectedBarcodeAndHammingDistance(self, *a, **k):
                return ('7', 'ACGT', 0) if known else (None, None, None)
        tr = mod.TaggedRecord(mod.TagDefinitions)
        try:
            tr.fromRawFastq(fqm.FastqRecord(h, 'ACGT', '+', 'IIII'), indexFileParser=P(), indexFileAlias='x')
            out = 'accepted'
        except Exception as e:      # noqa: BLE001
            out = type(e).__name__
        rows.append({'header': h, 'index_known': known, 'outcome': out})
    want = 'accepted' if known else 'NonMultiplexable'
    obs = {'outcome': 'return', 'value': rows, 'expected_outcome': want}
    if any(r['outcome'] != want for r in rows):
        return {'status': 'confirmed', 'observed': obs, 'failed': [{'clause': clause}]}
    return {'status': 'not-reproduced', 'observed': obs}


raw_fastq.replay = raw_fastq_replay
