"""C16 - feature lookups return exactly the overlapping features after any add history."""
import itertools

import z3

from pyvc.contract import Contract
from pyvc.engine import named, INT, STR, BOOL

PROP = 'C16'
LEVEL = 'proof'
FF = 'singlecellmultiomics/features/features.py'


def feats(n):
    """n symbolic features on one contig: (start, end, name, strand) with 0 <= start <= end; strand '+' or '-'"""
    def mk(eng, name):
        out = []
        for i in range(n):
            s, e = named(INT, 'start%d' % i), named(INT, 'end%d' % i)
            plus = named(BOOL, 'plus%d' % i)
            eng.assume(z3.And(s.z >= 0, e.z >= s.z))
            out.append((s, e, 'f%d' % i, plus))
        return out
    return mk


CONTAINS = '(F[i][0] <= q and q <= F[i][1])'
HIST_SPEC = {
    # exactly the features whose closed interval contains q, restricted to the requested strand - evaluated against the
    # features added so far (a stale earlier state gives a different set)
    'exactly_the_overlapping_features':
        'all(((F[i][0], F[i][1], F[i][2], ("+" if F[i][3] else "-"), None) in result) == '
        '((F[i][0] <= q and q <= F[i][1]) and (strand is None or strand == ("+" if F[i][3] else "-"))) for i in range(len(F)))',
    'nothing_else': 'all(any(r[2] == F[i][2] for i in range(len(F))) for r in result)',
}


def history(n_first, n_second, optim='bdbnb'):
    """add* sort query add* sort query on the real class; the second query must reflect all features"""
    n = n_first + n_second
    src = ['fc = FeatureContainer()']
    for i in range(n_first):
        src.append('fc.addFeature("ctg", F[%d][0], F[%d][1], F[%d][2], "+" if F[%d][3] else "-")' % (i, i, i, i))
    if n_first:
        src.append('fc.sort()')
        src.append('first = fc.findFeaturesAt("ctg", q, strand)')
    for i in range(n_first, n):
        src.append('fc.addFeature("ctg", F[%d][0], F[%d][1], F[%d][2], "+" if F[%d][3] else "-")' % (i, i, i, i))
    src.append('fc.sort()')
    src.append('result = fc.findFeaturesAt("ctg", q, strand)')
    src.append('return result')
    return Contract(
        PROP, FF + '::FeatureContainer', name='history[add*%d sort query add*%d sort query]' % (n_first, n_second),
        harness='\n'.join(src),
        params={'F': feats(n), 'q': 'int', 'strand': 'none'},
        cases=[{}, {'strand': ('const', '+')}, {'strand': ('const', '-')}],
        setup=lambda eng: eng.ghost.clear(),
        ensures=HIST_SPEC, raises={},
        bounded='%d features on one contig (symbolic coordinates/strands), fixed operation sequence' % n,
        max_paths=40000,
        assumptions=['numpy searchsorted/argsort/fromiter/max per the NumPy reference on arrays of fixed length',
                     'functools.lru_cache modelled as a memo table keyed by (self, arguments), no eviction'],
    )


def lookup(optim, n=2):
    src = ['fc = FeatureContainer()']
    for i in range(n):
        src.append('fc.addFeature("ctg", F[%d][0], F[%d][1], F[%d][2], "+" if F[%d][3] else "-")' % (i, i, i, i))
    src += ['fc.sort()', 'result = fc._findFeaturesAt("ctg", q, strand, optim=%r)' % optim, 'return result']
    return Contract(
        PROP, FF + '::FeatureContainer', name='_findFeaturesAt[optim=%s, %d features]' % (optim, n),
        harness='\n'.join(src), params={'F': feats(n), 'q': 'int', 'strand': 'none'},
        cases=[{}, {'strand': ('const', '+')}],
        setup=lambda eng: eng.ghost.clear(), ensures=HIST_SPEC, raises={},
        bounded='%d features on one contig (symbolic coordinates/strands)' % n, max_paths=40000)


BETWEEN_SPEC = {
    'exactly_the_overlapping_features':
        'all(((F[i][0], F[i][1], F[i][2], ("+" if F[i][3] else "-"), None) in result) == '
        '((max(a, F[i][0]) <= min(b, F[i][1])) and (strand is None or strand == ("+" if F[i][3] else "-"))) for i in range(len(F)))',
}


def between(n=2):
    src = ['fc = FeatureContainer()']
    for i in range(n):
        src.append('fc.addFeature("ctg", F[%d][0], F[%d][1], F[%d][2], "+" if F[%d][3] else "-")' % (i, i, i, i))
    src += ['fc.sort()', 'result = fc.findFeaturesBetween("ctg", a, b, strand)', 'return result']
    return Contract(
        PROP, FF + '::FeatureContainer', name='findFeaturesBetween[%d features]' % n,
        harness='\n'.join(src), params={'F': feats(n), 'a': 'int', 'b': 'int', 'strand': 'none'},
        requires=['a <= b'], cases=[{}, {'strand': ('const', '-')}],
        setup=lambda eng: eng.ghost.clear(), ensures=BETWEEN_SPEC, raises={},
        bounded='%d features on one contig (symbolic coordinates/strands)' % n, max_paths=40000)


def _quick(u, cases=None):
    if cases is not None:
        u.cases = cases
    return u


def _deep(u, cases=None):
    """three unconstrained features: more than an hour and a half per unit on this machine - run by hand (`./check C16 deep`),
    not part of the registered tiers; the nested three-feature configuration below is in the quick tier"""
    u.tiers = ('deep',)
    if cases is not None:
        u.cases = cases
    return u


def _thorough(u, cases=None):
    u.tiers = ('thorough',)
    if cases is not None:
        u.cases = cases
    return u


UNITS = [history(0, 1), _quick(history(1, 1), [{}, {'strand': ('const', '+')}]),
         _quick(lookup('nb'), [{}]), _quick(lookup('optim'), [{}]), _quick(lookup('other'), [{}]), between(1),
         # thorough tier: the same scenarios with more features / all strand cases
         _thorough(history(0, 2)), _deep(history(2, 1), [{}]), _deep(history(1, 2), [{}]), _thorough(between(2))]
for _o in ('nb', 'optim', 'other'):
    _t = lookup(_o)
    _t.name += ' (all strands)'
    UNITS.append(_thorough(_t))


# ------------------------------------------------------------------------------ addFeature (unbounded: any container state)
from pyvc.symlist import OpaqueList
from pyvc.engine import Obj

QAT = 'singlecellmultiomics.features.features.FeatureContainer.findFeaturesAt'
QNEAR = 'singlecellmultiomics.features.features.FeatureContainer.findNearestFeature'


def container(present):
    def mk(eng, name):
        info = eng.loader.classref(FF, 'FeatureContainer')
        lst = OpaqueList('features[ctg]')
        eng.spec_env['LIST'] = lst
        eng.spec_env['PRESENT'] = present
        feats_ = {'other': OpaqueList('features[other]')}
        if present:
            feats_['ctg'] = lst
        # arbitrary earlier lookups are memoised (their answers are stale as soon as a feature is added)
        eng.ghost.clear()
        eng.ghost['lru'] = {QAT: [(('stale-key',), ['stale-answer'])], QNEAR: [(('stale-key',), ['stale-answer'])]}
        eng.spec_env['GHOST'] = eng.ghost
        return Obj('FeatureContainer', {'features': feats_, 'sorted': named(BOOL, 'was_sorted'), 'debug': False,
                                        'verbose': False}, info=info)
    return mk


add_feature = Contract(
    PROP, FF + '::FeatureContainer.addFeature', name='FeatureContainer.addFeature',
    params={'self': container(True), 'chromosome': ('const', 'ctg'), 'start': 'int', 'end': 'int', 'name': 'str',
            'strand': 'none', 'data': 'none'},
    cases=[{}, {'self': container(False)}, {'strand': ('const', '+')}, {'strand': ('const', '-')}, {'strand': 'str'}],
    setup=lambda eng: None,
    ensures={
        'feature_appended_once': '(self.features["ctg"].appended if PRESENT else self.features["ctg"]) == '
                                 '[(start, end, name, strand, data)]',
        'other_contigs_untouched': 'len(self.features["other"].appended) == 0',
        'index_marked_stale': 'self.sorted == False',
        # no memoised answer of an earlier state survives the addition
        'memoised_lookups_invalidated': 'GHOST["lru"]["%s"] == [] and GHOST["lru"]["%s"] == []' % (QAT, QNEAR),
    },
    raises={'ValueError': 'strand is not None and strand != "+" and strand != "-"'},
    assumptions=['functools.lru_cache modelled as a ghost memo table per decorated method; cache_clear empties it'],
)
UNITS.append(add_feature)


# ------------------------------------------------------------------------------ FeatureAnnotatedMolecule.annotate: read annotation reports
# exactly what the container returns for the molecule's blocks, queried on the requested strand
FAM = 'singlecellmultiomics/molecule/featureannotatedmolecule.py'


def ann_setup(eng):
    from pyvc.engine import Obj, Sym, named, fresh, INT, BOOL, STR
    from pyvc import stubs, externals
    eng.ghost.clear()
    eng.ghost['queries'] = []
    eng.spec_env['GHOST'] = eng.ghost
    hit = (named(INT, 'hit_start'), named(INT, 'hit_end'), named(STR, 'hit_id'), named(STR, 'hit_strand'), named(STR, 'hit_ids'))
    eng.spec_env['HIT'] = hit
    block = (named(INT, 'block_start'), named(INT, 'block_end'))
    eng.spec_env['BLOCK'] = block

    hit2 = (named(INT, 'hit2_start'), named(INT, 'hit2_end'), named(STR, 'hit2_id'), named(STR, 'hit2_strand'), hit[4])
    eng.spec_env['HIT2'] = hit2      # a second feature carrying the same data value (two exons of one gene, BED rows without data)

    def between(e, o, chromosome=None, sampleStart=None, sampleEnd=None, strand=None, **k):
        e.ghost['queries'].append((chromosome, sampleStart, sampleEnd, strand))
        if not e.branch(fresh(BOOL, 'container_reports_a_hit').z):
            e.spec_env['NHITS'] = 0
            return []
        if e.branch(fresh(BOOL, 'container_reports_a_second_hit').z):
            e.spec_env['NHITS'] = 2
            return [hit, hit2]
        e.spec_env['NHITS'] = 1
        return [hit]
    stubs.STUBS['FeatureContainerStub'] = {'methods': {'findFeaturesBetween': between}, 'props': {}, 'setters': {}}
    eng.loader.call_hooks['singlecellmultiomics.molecule.molecule.Molecule.get_aligned_blocks'] = lambda e, f, a, k, n: [block]


def ann_self(stranded):
    def mk(eng, name):
        from pyvc.engine import Obj, named, BOOL
        from pyvc import externals
        fc = Obj('FeatureContainerStub', {})
        fc.vc_immutable = True
        return Obj('FeatureAnnotatedMolecule', {'stranded': stranded, 'strand': named(BOOL, 'molecule_strand'), 'is_annotated': False,
                                                'features': fc, 'chromosome': 'chr1', 'capture_locations': False,
                                                'hits': externals.DefaultDict(externals.Builtin('set', lambda e, a, k, n: set())),
                                                'feature_locations': {}},
                   info=eng.loader.classref(FAM, 'FeatureAnnotatedMolecule'))
    return mk


def annotate_unit(stranded):
    want = {None: 'None', True: '("-" if not self.strand else "+")', False: '("-" if self.strand else "+")'}[stranded]
    return Contract(
        PROP, FAM + '::FeatureAnnotatedMolecule.annotate', name='FeatureAnnotatedMolecule.annotate[stranded=%s]' % stranded,
        params={'self': ann_self(stranded), 'method': ('const', 0)},
        setup=ann_setup,
        ensures={
            # stranded None: both strands; True: the strand opposite to the molecule; False: the strand of the molecule
            'one_range_query_per_block_on_the_requested_strand':
                'GHOST["queries"] == [("chr1", BLOCK[0], BLOCK[1], %s)]' % want,
            'reports_exactly_the_features_the_container_returned':
                'len(self.hits) == (1 if NHITS > 0 else 0) and all(k == HIT[4] and '
                '(("chr1", (HIT[0], HIT[1])) in self.hits[k]) and '
                '(NHITS < 2 or (("chr1", (HIT2[0], HIT2[1])) in self.hits[k])) and '
                'all((loc == ("chr1", (HIT[0], HIT[1]))) or (NHITS == 2 and loc == ("chr1", (HIT2[0], HIT2[1]))) for loc in self.hits[k]) '
                'for k in self.hits)',
            'marked_annotated': 'self.is_annotated == True',
        },
        raises={},
        bounded='one aligned block, at most two features (sharing their data value) returned by the container',
        assumptions=['FeatureContainer.findFeaturesBetween through a recording stub (its exactness: units above); get_aligned_blocks stubbed'],
    )


UNITS += [annotate_unit(None), annotate_unit(True), annotate_unit(False)]


# method 1 (per aligned base): exactly the reference positions a read base is aligned to are looked up - not the bases a
# deletion or a spliced gap skips, not insertions or clipped bases
def ann_setup_per_base(eng):
    from pyvc.engine import Obj, named, fresh, INT, BOOL, STR
    from pyvc import stubs
    ann_setup(eng)
    eng.ghost['lookups'] = []
    r = named(INT, 'read_start')
    eng.assume(r.z >= 0)
    eng.spec_env['R'] = r
    # 1S 2M 1D 1I 1M 2N 2M: query 0 clipped, 1-2 matched, reference r+2 deleted, query 3 inserted, query 4 matched at r+3,
    # reference r+4..r+5 skipped, query 5-6 matched at r+6..r+7
    def pairs(e, o, matches_only=False, with_seq=False):
        from pyvc.engine import Sym
        full_ = [(q, Sym(r.z + d, INT) if d is not None else None) for q, d in
                 [(0, None), (1, 0), (2, 1), (None, 2), (3, None), (4, 3), (None, 4), (None, 5), (5, 6), (6, 7)]]
        if matches_only:
            return [(q, p) for q, p in full_ if q is not None and p is not None]
        return full_

    def at(e, o, chromosome=None, lookupCoordinate=None, strand=None, **k):
        e.ghost['lookups'].append((chromosome, lookupCoordinate, strand))
        return [e.spec_env['HIT']] if e.branch(fresh(BOOL, 'container_reports_a_hit').z) else []
    stubs.STUBS['PairRead'] = {'methods': {'get_aligned_pairs': pairs}, 'props': {'reference_name': lambda e, o: 'chr1'}, 'setters': {}}
    stubs.STUBS['FeatureContainerStub']['methods']['findFeaturesAt'] = at
    rd = Obj('PairRead', {})
    rd.vc_immutable = True
    eng.loader.call_hooks['singlecellmultiomics.molecule.molecule.Molecule.iter_reads'] = lambda e, f, a, k, n: [rd]


annotate_per_base = Contract(
    PROP, FAM + '::FeatureAnnotatedMolecule.annotate', name='FeatureAnnotatedMolecule.annotate[method 1: per aligned base]',
    params={'self': ann_self(None), 'method': ('const', 1)},
    setup=ann_setup_per_base,
    ensures={
        'exactly_the_aligned_reference_positions_are_looked_up':
            '[q[1] for q in GHOST["lookups"]] == [R, R + 1, R + 3, R + 6, R + 7] and '
            'all(q[0] == "chr1" and q[2] is None for q in GHOST["lookups"])',
        'marked_annotated': 'self.is_annotated == True',
    },
    raises={},
    bounded='one read 1S2M1D1I1M2N2M at a symbolic start, at most one feature per lookup',
    assumptions=['pysam get_aligned_pairs(matches_only=...) per its documentation (A4); FeatureContainer.findFeaturesAt through a '
                 'recording stub (its exactness: units above)'],
)
UNITS.append(annotate_per_base)


# ------------------------------------------------------------------------------ a range query must not disturb later point queries (the
# point lookups are memoised: a caller that edits a returned list edits the memo)
def query_sequence(n=1):
    src = ['fc = FeatureContainer()']
    for i in range(n):
        src.append('fc.addFeature("ctg", F[%d][0], F[%d][1], F[%d][2], "+" if F[%d][3] else "-")' % (i, i, i, i))
    src += ['fc.sort()', 'first = fc.findFeaturesBetween("ctg", a, b, strand)', 'result = fc.findFeaturesAt("ctg", q, strand)',
            'return result']
    return Contract(
        PROP, FF + '::FeatureContainer', name='history[range query, then point query at its start, %d features]' % n,
        harness='\n'.join(src), params={'F': feats(n), 'a': 'int', 'b': 'int', 'q': 'int', 'strand': 'none'},
        requires=['a <= b', 'q == a'],
        setup=lambda eng: eng.ghost.clear(), ensures=HIST_SPEC, raises={},
        bounded='%d features on one contig (symbolic coordinates/strands); a range query followed by a point query at its start' % n,
        max_paths=40000)


UNITS.append(query_sequence(1))


# ------------------------------------------------------------------------------ findFeaturesAtPysamAlign: annotation of one record
# "read annotation built on these queries reports exactly the overlapped features": a record overlaps a feature when one of its
# aligned blocks - pysam get_blocks(): [start, end) - shares a base with the feature's closed interval
def align_read(n_blocks, base_by_base):
    def mk(eng, name):
        from pyvc import stubs as _stubs
        from pyvc.engine import Sym
        bl = []
        prev = None
        for i in range(n_blocks):
            s = named(INT, 'block%d_start' % i)
            if base_by_base:
                e = Sym(s.z + 2, INT)            # blocks of two bases, so that the per-base method can enumerate them
            else:
                e = named(INT, 'block%d_end' % i)
                eng.assume(e.z > s.z)
            eng.assume(s.z >= 0 if prev is None else s.z > prev.z)
            prev = e
            bl.append((s, e))
        eng.spec_env['BLOCKS'] = bl

        def pairs(e_, o, matches_only=False, with_seq=False):
            out, qi = [], 0
            for s, _ in bl:
                for d in range(2):
                    out.append((qi, Sym(s.z + d, INT)))
                    qi += 1
            return out
        _stubs.STUBS['BlockRead'] = {'methods': {'get_blocks': lambda e_, o: list(bl), 'get_aligned_pairs': pairs},
                                     'props': {'reference_name': lambda e_, o: 'ctg'}, 'setters': {}}
        o = Obj('BlockRead', {})
        o.vc_immutable = True
        return o
    return mk


OVERLAPS = 'any([(max(b[0], F[i][0]) <= min(b[1] - 1, F[i][1])) for b in BLOCKS])'
ALIGN_SPEC = {
    'exactly_the_features_an_aligned_block_overlaps':
        'all(((F[i][0], F[i][1], F[i][2], ("+" if F[i][3] else "-"), None) in result) == '
        '(%s and (strand is None or strand == ("+" if F[i][3] else "-"))) for i in range(len(F)))' % OVERLAPS,
    'nothing_else': 'all(any(r[2] == F[i][2] for i in range(len(F))) for r in result)',
}


def pysam_align(method, n_blocks, n=1):
    src = ['fc = FeatureContainer()']
    for i in range(n):
        src.append('fc.addFeature("ctg", F[%d][0], F[%d][1], F[%d][2], "+" if F[%d][3] else "-")' % (i, i, i, i))
    src += ['fc.sort()', 'result = fc.findFeaturesAtPysamAlign(READ, strand, %d)' % method, 'return result']
    return Contract(
        PROP, FF + '::FeatureContainer', name='findFeaturesAtPysamAlign[method %d, %d blocks, %d features]' % (method, n_blocks, n),
        harness='\n'.join(src), params={'F': feats(n), 'READ': align_read(n_blocks, method == 0), 'strand': 'none'},
        cases=[{}, {'strand': ('const', '+')}],
        setup=lambda eng: eng.ghost.clear(), ensures=ALIGN_SPEC, raises={},
        bounded='%d features on one contig, a record of %d aligned blocks%s (symbolic coordinates)' % (
            n, n_blocks, ' of two bases' if method == 0 else ''), max_paths=40000,
        assumptions=['pysam get_blocks(): half-open [start, end) per aligned block; get_aligned_pairs(matches_only=True): one pair '
                     'per aligned base (A4)'])


def pysam_align_replay(method):
    def replay(inputs, clause):
        """real FeatureContainer and a real pysam record with the model's blocks (N gaps between them) and features"""
        import pysam
        from pyvc.contract import import_real
        FC = import_real(FF, 'FeatureContainer')
        g = inputs.get('ghost') or {}
        blocks = [(int(a), int(b)) for a, b in (g.get('BLOCKS') or [])]
        F = inputs.get('F') or []
        if not blocks or any(b <= a for a, b in blocks) or blocks[-1][1] > 10 ** 6:
            return {'status': 'no-input', 'note': 'blocks not realisable'}
        fc = FC()
        for s, e, nm, plus in F:
            fc.addFeature('ctg', int(s), int(e), nm, '+' if plus else '-')
        fc.sort()
        h = pysam.AlignmentHeader.from_dict({'HD': {'VN': '1.6'}, 'SQ': [{'SN': 'ctg', 'LN': 2 * 10 ** 6}]})
        a = pysam.AlignedSegment(h)
        ops, pos = [], blocks[0][0]
        for s, e in blocks:
            if s > pos:
                ops.append((3, s - pos))
            ops.append((0, e - s))
            pos = e
        n = sum(l for op, l in ops if op == 0)
        if n > 5000:
            return {'status': 'no-input', 'note': 'record too long'}
        a.query_name, a.reference_id, a.reference_start, a.cigartuples, a.flag = 'q', 0, blocks[0][0], ops, 0
        a.query_sequence = 'A' * n
        a.query_qualities = pysam.qualitystring_to_array('I' * n)
        strand = inputs.get('strand')
        got = sorted(tuple(x) for x in fc.findFeaturesAtPysamAlign(a, strand, method))
        want = sorted((int(s), int(e), nm, '+' if plus else '-', None) for s, e, nm, plus in F
                      if any(max(b0, int(s)) <= min(b1 - 1, int(e)) for b0, b1 in blocks) and (strand is None or strand == ('+' if plus else '-')))
        obs = {'outcome': 'return', 'value': [list(x) for x in got], 'expected': [list(x) for x in want],
               'record': {'start': a.reference_start, 'cigar': a.cigarstring, 'blocks': a.get_blocks()}}
        if got != want:
            return {'status': 'confirmed', 'observed': obs, 'failed': [{'clause': clause}]}
        return {'status': 'not-reproduced', 'observed': obs}
    return replay


for _m, _nb in ((1, 1), (1, 2), (0, 1)):
    _u = pysam_align(_m, _nb)
    _u.replay = pysam_align_replay(_m)
    UNITS.append(_u)


# ------------------------------------------------------------------------------ heavy nesting in the quick tier: one feature enclosing two
# disjoint ones (the three-feature histories are thorough-tier units; this configuration - the one in which the cluster index
# `lowestStarts` built by sort() matters - is cheap enough for every run because the order of the coordinates is fixed)
def nested3():
    src = ['fc = FeatureContainer()']
    for i in range(3):
        src.append('fc.addFeature("ctg", F[%d][0], F[%d][1], F[%d][2], "+" if F[%d][3] else "-")' % (i, i, i, i))
    src += ['fc.sort()', 'result = fc.findFeaturesAt("ctg", q, strand)', 'return result']
    return Contract(
        PROP, FF + '::FeatureContainer', name='findFeaturesAt[one feature enclosing two disjoint ones]',
        harness='\n'.join(src), params={'F': feats(3), 'q': 'int', 'strand': 'none'},
        requires=['F[0][0] < F[1][0]', 'F[1][1] < F[2][0]', 'F[2][1] < F[0][1]'],
        setup=lambda eng: eng.ghost.clear(), ensures=HIST_SPEC, raises={},
        bounded='3 features on one contig: F0 encloses F1 and F2, F1 ends before F2 starts (symbolic coordinates/strands)',
        max_paths=40000)


UNITS.append(nested3())


# ------------------------------------------------------------------------------ range queries after an add history
# "a result never reflects a stale earlier state" for findFeaturesBetween as well: the same range asked before and after a feature
# was added and the container re-indexed
def history_between():
    src = ['fc = FeatureContainer()',
           'fc.addFeature("ctg", F[0][0], F[0][1], F[0][2], "+" if F[0][3] else "-")', 'fc.sort()',
           'first = fc.findFeaturesBetween("ctg", a, b, strand)',
           'fc.addFeature("ctg", F[1][0], F[1][1], F[1][2], "+" if F[1][3] else "-")', 'fc.sort()',
           'result = fc.findFeaturesBetween("ctg", a, b, strand)', 'return result']
    return Contract(
        PROP, FF + '::FeatureContainer', name='history[add sort range-query add sort the same range-query]',
        harness='\n'.join(src), params={'F': feats(2), 'a': 'int', 'b': 'int', 'strand': 'none'},
        requires=['a <= b'], setup=lambda eng: eng.ghost.clear(), ensures=BETWEEN_SPEC, raises={},
        bounded='2 features on one contig (symbolic coordinates/strands), the same range asked twice', max_paths=40000)


UNITS.append(history_between())
