"""C17 - blacklist-aware genome tiling is an exact partition with contained fetch windows."""
from pyvc.contract import Contract
import z3

from pyvc.engine import LoopSpec, Builtin, INT, BOOL, STR

PROP = 'C17'
LEVEL = 'proof'
F = 'singlecellmultiomics/bamProcessing/bamBinCounts.py'
PAIR = (('int', 'int'), 2)

# ------------------------------------------------------------------------------ fill_range
# spec function: K = ceil(max(0,end-start)/step) bins; bin j = (start+j*step, min(start+(j+1)*step, end))
fill_range = Contract(
    PROP, F + '::fill_range', name='fill_range',
    params={'start': 'int', 'end': 'int', 'step': 'int'},
    requires=['step >= 1'],
    yields=PAIR,
    loops={0: LoopSpec(
        inv={'count': 'seqlen(Y) == k',
             'cursor': 'e == start + k*step',
             'inside': 'k == 0 or start + k*step <= end',
             'bins': 'forall(j, implies(0 <= j and j < k, Y[j][0] == start + j*step and Y[j][1] == start + (j+1)*step))'},
    )},
    ensures={
        'count': 'seqlen(Y) == cdiv(max(0, end - start), step)',
        'bins': 'forall(j, implies(0 <= j and j < seqlen(Y), '
                'Y[j][0] == start + j*step and Y[j][1] == min(start + (j+1)*step, end)))',
        # corollaries the property (and the callers) use
        'first_starts_at_start': 'implies(seqlen(Y) > 0, Y[0][0] == start)',
        'last_ends_at_end': 'implies(seqlen(Y) > 0, Y[seqlen(Y)-1][1] == end)',
        'consecutive': 'forall(j, implies(0 <= j and j < seqlen(Y) - 1, Y[j][1] == Y[j+1][0]))',
        'width': 'forall(j, implies(0 <= j and j < seqlen(Y), 0 < Y[j][1] - Y[j][0] and Y[j][1] - Y[j][0] <= step))',
        'nonempty_iff': 'iff(seqlen(Y) > 0, start < end)',
    },
    crosscheck={'ranges': {'start': (-20, 60), 'end': (-20, 90), 'step': (1, 25)}},
)

UNITS = [fill_range]

# ------------------------------------------------------------------------------ trim_rangelist
# Property-level spec ("result = intersections of each interval with [start,end), none lost"):
# per input interval (loop-body contract): it is yielded, clipped, iff it has a non-empty intersection
# with the region; never yielded otherwise unless the clipped interval is empty (harmless).
SORTED_R = 'forall((i, j), implies(0 <= i and i < j and j < seqlen(rangelist), rangelist[i][1] <= rangelist[j][0]))'
trim = Contract(
    PROP, F + '::trim_rangelist', name='trim_rangelist',
    params={'rangelist': ('seq', ('int', 'int'), 2), 'start': 'int', 'end': 'int'},
    requires=['start <= end',
              'forall(j, implies(0 <= j and j < seqlen(rangelist), rangelist[j][0] <= rangelist[j][1]))',
              SORTED_R],
    yields=PAIR,
    loops={0: LoopSpec(
        inv={'in_region': 'forall(a, implies(0 <= a and a < seqlen(Y), start <= Y[a][0] and Y[a][0] <= Y[a][1] and Y[a][1] <= end))',
             'sorted_disjoint': 'forall(a, implies(0 <= a and a < seqlen(Y) - 1, Y[a][1] <= Y[a+1][0]))',
             'before_rest': 'forall((a, m), implies(0 <= a and a < seqlen(Y) and k <= m and m < seqlen(rangelist), Y[a][1] <= rangelist[m][0]))'},
        body_post={
            'kept_iff_intersects': 'implies(max(s, start) < min(e, end), seqlen(Y) == seqlen(Y0) + 1)',
            'kept_is_clipped': 'implies(seqlen(Y) != seqlen(Y0), seqlen(Y) == seqlen(Y0) + 1 and '
                               'Y[seqlen(Y0)][0] == max(s, start) and Y[seqlen(Y0)][1] == min(e, end))',
            'dropped_only_if_empty_intersection': 'implies(seqlen(Y) == seqlen(Y0), not (max(s, start) < min(e, end)))',
            'earlier_output_untouched': 'forall(a, implies(0 <= a and a < seqlen(Y0), Y[a] == Y0[a]))',
        })},
    ensures={
        'in_region': 'forall(a, implies(0 <= a and a < seqlen(Y), start <= Y[a][0] and Y[a][0] <= Y[a][1] and Y[a][1] <= end))',
        'sorted_disjoint': 'forall(a, implies(0 <= a and a < seqlen(Y) - 1, Y[a][1] <= Y[a+1][0]))',
    },
    replay_ensures={
        'none_lost': 'all(((max(r[0], start), min(r[1], end)) in Y) for r in rangelist '
                     'if max(r[0], start) < min(r[1], end))',
        'nothing_invented': 'all(any(y == (max(r[0], start), min(r[1], end)) for r in rangelist) for y in Y)'},
    crosscheck={'ranges': {'start': (0, 30), 'end': (0, 60),
                           'rangelist': lambda rng: _rand_sorted_ranges(rng)}},
)


def _rand_sorted_ranges(rng):
    out, cur = [], rng.randint(-10, 20)
    for _ in range(rng.randint(0, 4)):
        s = cur + rng.randint(0, 15)
        e = s + rng.randint(0, 40)
        out.append((s, e))
        cur = e
    return out


UNITS.append(trim)

# ------------------------------------------------------------------------------ merge_overlapping_ranges
# Verified only for lists of bounded length (symbolic contents): labelled bounded.  The same clauses, in
# quantified form, are what blacklisted_binning assumes at its call site (merge_assumed).
MERGE_REQ = ['all(r[0] <= r[1] for r in clist)']


def merge_bounded(n):
    return Contract(
        PROP, F + '::merge_overlapping_ranges', name='merge_overlapping_ranges[len=%d]' % n,
        params={'clist': ('list', ('tuple', 'int', 'int'), n)},
        requires=MERGE_REQ,
        ensures={
            'ordered': 'all(m[0] <= m[1] for m in result)',
            'sorted_disjoint': 'all(result[a][1] <= result[a+1][0] for a in range(len(result)-1))',
            'same_union': 'forall(x, iff(any(r[0] <= x and x < r[1] for r in clist), any(m[0] <= x and x < m[1] for m in result)))',
        },
        bounded='list length = %d (symbolic interval bounds)' % n,
        crosscheck={'ranges': {'clist': lambda rng, n=n: [tuple(sorted((rng.randint(0, 30), rng.randint(0, 30)))) for _ in range(n)]}},
    )


merge_assumed = Contract(
    PROP, F + '::merge_overlapping_ranges', name='merge_overlapping_ranges(assumed)',
    params={'clist': ('seq', ('int', 'int'), 2)},
    requires=['forall(j, implies(0 <= j and j < seqlen(clist), clist[j][0] <= clist[j][1]))'],
    result=('seq', ('int', 'int'), 2),
    ensures={
        'ordered': 'forall(j, implies(0 <= j and j < seqlen(result), result[j][0] <= result[j][1]))',
        'sorted_disjoint': 'forall((i, j), implies(0 <= i and i < j and j < seqlen(result), result[i][1] <= result[j][0]))',
    },
)

UNITS += [merge_bounded(n) for n in (0, 1, 2, 3)]

# ------------------------------------------------------------------------------ blacklisted_binning
# Sweep-cursor formulation of "bins + blacklisted intervals cover the region exactly once":
#   * the local `current` is the coverage cursor: S at entry, G[k-1].end after the k-th blacklisted interval
#     (outer invariant), previous bin end inside a gap (inner invariant);
#   * every yielded bin starts at the cursor (no gap, no overlap), is non-empty, not wider than bin_size and
#     ends at or before the next blacklisted start (yield checks);
#   * when the inner loop is exhausted the cursor has reached the blacklisted start (loop exit check);
#   * G (trim_rangelist of the merged blacklist + sentinel (E,E+1)) is sorted, disjoint and inside [S,E]
#     (callee contracts), so the cursor ends at E+1 having passed every coordinate of [S,E) exactly once.
G_K = 'IT0[k][1]'
BB_OUTER = LoopSpec(
    inv={'cursor': 'current == (start_coord if k == 0 else IT0[k-1][1][1])'},
)
BB_INNER = LoopSpec(
    k='kk',
    inv={'cursor': 'current == (entry(current, 1) if kk == 0 else IT1[kk-1][1][1])'},
    exit={'gap_fully_tiled': 'current == start'},
    # non-linear facts about local_bin_size = int(L / ceil(L / bin_size)), proved once, then used linearly
    hints={'local_bin_size_at_most_bin_size': 'local_bin_size <= bin_size', 'local_bin_size_positive': 'local_bin_size >= 1'},
)
BB_YIELD = {
    'bin_starts_at_cursor': 'yv[0] == current',
    'bin_nonempty': 'yv[0] < yv[1]',
    'bin_not_wider_than_bin_size': 'yv[1] - yv[0] <= bin_size',
    'bin_ends_before_blacklisted_start': 'yv[1] <= start',
    'bin_inside_region': 'start_coord <= yv[0] and yv[1] <= end_coord',
}
BB_WINDOW = {
    'window_contains_bin': 'yv[2] <= yv[0] and yv[1] <= yv[3]',
    'window_extends_at_most_fragment_size': 'yv[0] - yv[2] <= fragment_size and yv[3] - yv[1] <= fragment_size',
    'window_inside_gap': 'entry(current, 1) <= yv[2] and yv[3] <= start',
    'window_inside_region': 'start_coord <= yv[2] and yv[3] <= end_coord',
}
BL_ORDERED = 'forall(j, implies(0 <= j and j < seqlen(blacklist), blacklist[j][0] <= blacklist[j][1]))'
BLSEQ = ('seq', ('int', 'int'), 2)
QUAD = (('int', 'int', 'int', 'int'), 4)

blacklisted_binning = Contract(
    PROP, F + '::blacklisted_binning', name='blacklisted_binning',
    params={'start_coord': 'int', 'end_coord': 'int', 'bin_size': 'int', 'blacklist': 'none', 'fragment_size': 'none'},
    requires=['start_coord <= end_coord', 'bin_size >= 1'],
    cases=[
        {'__yields__': PAIR},
        {'blacklist': BLSEQ, '__requires__': [BL_ORDERED, 'seqlen(blacklist) <= 1'], '__yields__': PAIR},
        {'blacklist': BLSEQ, '__requires__': [BL_ORDERED, 'seqlen(blacklist) > 1'], '__yields__': PAIR},
        {'fragment_size': 'int', '__requires__': ['fragment_size >= 0'], '__yields__': QUAD, '__yield_checks__': BB_WINDOW},
        {'blacklist': BLSEQ, 'fragment_size': 'int', '__requires__': [BL_ORDERED, 'seqlen(blacklist) <= 1', 'fragment_size >= 0'],
         '__yields__': QUAD, '__yield_checks__': BB_WINDOW},
        {'blacklist': BLSEQ, 'fragment_size': 'int', '__requires__': [BL_ORDERED, 'seqlen(blacklist) > 1', 'fragment_size >= 0'],
         '__yields__': QUAD, '__yield_checks__': BB_WINDOW},
    ],
    callees=['fill_range', 'trim_rangelist', merge_assumed],
    loops={0: BB_OUTER, 1: BB_INNER},
    yield_checks=BB_YIELD,
    ensures={'cursor_swept_region': 'current == end_coord + 1'},
    assumptions=['merge_overlapping_ranges: contract (sorted, disjoint, ordered) assumed at the call site; verified '
                 'by pyvc only for list length <= 3 (bounded stand-in), same-union clause likewise',
                 'A3 (int(a/b) exact)'],
    replay_ensures={
        'bins_tile_region_minus_blacklist':
            '[x for x in range(start_coord, end_coord) if not any(b[0] <= x and x < b[1] for b in (blacklist or []))] == '
            '[x for y in Y for x in range(y[0], y[1])]',
        'bins_not_wider': 'all(y[1] - y[0] <= bin_size for y in Y)',
        'windows_contained': 'fragment_size is None or all(y[2] <= y[0] and y[1] <= y[3] and y[0]-y[2] <= fragment_size '
                             'and y[3]-y[1] <= fragment_size and start_coord <= y[2] and y[3] <= end_coord and '
                             'not any(b[0] < y[3] and y[2] < b[1] for b in (blacklist or [])) for y in Y)',
    },
)
UNITS.append(blacklisted_binning)


# ------------------------------------------------------------------------------ blacklisted_binning_contigs: every contig is tiled
# against its own blacklist (the intervals the BED file lists for that contig, none when it lists none)
BL_HAS = z3.Function('bed_lists_contig', z3.StringSort(), z3.BoolSort())
BL_S = z3.Function('bed_interval_start', z3.StringSort(), z3.IntSort())
BL_E = z3.Function('bed_interval_end', z3.StringSort(), z3.IntSort())


def bbc_setup(eng):
    from pyvc.engine import Sym, BoundMethod, PyRaise, GenResult, fresh
    eng.ghost.clear()
    eng.ghost['calls'] = []
    eng.spec_env['GHOST'] = eng.ghost

    def intervals(c):
        cz = c.z if isinstance(c, Sym) else z3.StringVal(c)
        return [(Sym(BL_S(cz), INT), Sym(BL_E(cz), INT))]

    class Bed:
        def vc_contains(self, e, c):
            return BL_HAS(c.z if isinstance(c, Sym) else z3.StringVal(c))

        def vc_getitem(self, e, c, node=None):
            if not e.branch(self.vc_contains(e, c)):
                raise PyRaise('KeyError', node=node)
            return intervals(c)

        def vc_getattr(self, e, attr, node=None):
            if attr == 'get':
                return BoundMethod('get', lambda e2, a, k: intervals(a[0]) if e2.branch(self.vc_contains(e2, a[0])) else (a[1] if len(a) > 1 else None))
            from pyvc.engine import Unsupported
            raise Unsupported('bed dict .%s' % attr)
    eng.loader.call_hooks['singlecellmultiomics.bamProcessing.bamBinCounts.get_bins_from_bed_dict'] = lambda e, f, a, k, n: Bed()
    eng.spec_env['BED_HAS'] = Builtin('BED_HAS', lambda e, a, k, n: Sym(BL_HAS(a[0].z), BOOL))
    eng.spec_env['BED_IV'] = Builtin('BED_IV', lambda e, a, k, n: intervals(a[0]))

    def binning(e, f, a, k, n):
        e.ghost['calls'].append(dict(k))
        with_fetch = k.get('fragment_size') is not None
        row = tuple(fresh(INT, 'bin_%d' % i) for i in range(4 if with_fetch else 2))
        e.ghost.setdefault('rows', []).append(row)
        return GenResult([row])
    eng.loader.call_hooks['singlecellmultiomics.bamProcessing.bamBinCounts.blacklisted_binning'] = binning


def bbc_head(eng, fr):
    eng.ghost['mark'] = len(eng.ghost['calls'])


NEW_CALL = 'GHOST["calls"][GHOST["mark"]:]'
binning_contigs = Contract(
    PROP, F + '::blacklisted_binning_contigs', name='blacklisted_binning_contigs',
    params={'contig_length_resource': ('seq', (STR, INT), 2), 'bin_size': 'int', 'fragment_size': 'int',
            'blacklist_path': ('const', 'blacklist.bed'), 'contig_whitelist': 'none'},
    cases=[{}, {'fragment_size': 'none'}],
    setup=bbc_setup,
    yields='checks-only',
    loops={0: LoopSpec(
        inv={}, head_hook=bbc_head,
        types={'contig': 'frame', 'length': 'frame', 'bin_start': 'frame', 'bin_end': 'frame', 'fetch_start': 'frame', 'fetch_end': 'frame'},
        must_exhaust=True,
        body_post={
            'one_tiling_per_contig_over_the_whole_contig':
                'len(%s) == 1 and %s[0]["start_coord"] == 0 and %s[0]["end_coord"] == length and %s[0]["bin_size"] == bin_size'
                % (NEW_CALL, NEW_CALL, NEW_CALL, NEW_CALL),
            'tiled_against_the_blacklist_of_this_contig':
                'implies(BED_HAS(contig), %s[0]["blacklist"] == BED_IV(contig)) and '
                'implies(not BED_HAS(contig), len(%s[0]["blacklist"]) == 0)' % (NEW_CALL, NEW_CALL),
        })},
    raises={},
    assumptions=['get_bins_from_bed_dict returns a mapping contig -> intervals (one interval per listed contig modelled: the '
                 'wrapper only passes the list on, sorted); blacklisted_binning through a recording stub (its own contract above)',
                 'contig lengths given as (contig, length) pairs (the str branch only calls get_contig_sizes)'],
)
UNITS.append(binning_contigs)


def bbc_replay(inputs, clause):
    """real blacklisted_binning_contigs on two contigs, the first with a blacklisted interval in the BED file, the second with
    none: every base of each contig must be binned or blacklisted (by that contig's own intervals) exactly once"""
    import os
    import shutil
    import tempfile
    from pyvc.contract import import_real
    fn = import_real(F, 'blacklisted_binning_contigs')
    base = os.path.join(os.path.dirname(os.path.dirname(os.path.abspath(__file__))), '.scratch')
    os.makedirs(base, exist_ok=True)
    d = tempfile.mkdtemp(prefix='c17c_', dir=base)
    try:
        bed = os.path.join(d, 'bl.bed')
        with open(bed, 'w') as f:
            f.write('chr1\t3\t8\n')
        frag = inputs.get('fragment_size')
        rows = list(fn([('chr1', 20), ('chr2', 20)], 6, frag if frag is None else 2, blacklist_path=bed))
    finally:
        shutil.rmtree(d, ignore_errors=True)
    bl = {'chr1': [(3, 8)], 'chr2': []}
    failed = []
    for c in ('chr1', 'chr2'):
        cover = [0] * 20
        for r in rows:
            if r[0] == c:
                for x in range(r[1], r[2]):
                    cover[x] += 1
        for s_, e_ in bl[c]:
            for x in range(s_, e_):
                cover[x] += 1
        bad = [x for x in range(20) if cover[x] != 1]
        if bad:
            failed.append({'clause': 'tiled_against_the_blacklist_of_this_contig', 'contig': c, 'bases_not_covered_exactly_once': bad[:10]})
    obs = {'outcome': 'return', 'value': [list(r) for r in rows]}
    return {'status': 'confirmed' if failed else 'not-reproduced', 'observed': obs, 'failed': failed}


binning_contigs.replay = bbc_replay


def extra_units():
    """the tiling reaches the workers through bp_chunked (utils/binning.py): every bin lands in exactly one chunk, and a chunk
    keeps its bins once it is handed out (C08's units, re-verified under this property)"""
    from contracts import c08
    from pyvc.units import share
    return [share(c08.bp_chunked, PROP)] + [share(u, PROP) for u in c08.UNITS if getattr(u, 'name', '').startswith('bp_chunked[chunks after')]


# ------------------------------------------------------------------------------ get_bins_from_bed_dict: the blacklist as it is read
# blacklisted_binning_contigs uses the BED reader through an assumed contract (contig -> intervals); here the reader itself on a
# 3-row file: every row is under its contig with its own coordinates, in file order, nothing else
def bed_setup(eng):
    from pyvc import segstr as _segstr, stubs
    from pyvc.engine import Builtin as _Builtin, Obj, named
    eng.ghost.clear()
    rows = []
    for i in range(3):
        c = _segstr.register_atom(eng, named(STR, 'bed_contig_%d' % i), ' \t\n\r\x0b\x0c')
        s_, e_ = named(INT, 'bed_start_%d' % i), named(INT, 'bed_end_%d' % i)
        eng.assume(z3.And(z3.Length(c.z) >= 1, s_.z >= 0, e_.z >= s_.z))
        rows.append((c, s_, e_))
    eng.spec_env['ROWS'] = rows
    tails = ['\n', '\tname\t0\t+\n', '\n']      # BED3 rows and a row with further columns
    lines = [_segstr.build([c, '\t'] + _segstr.parts_of(eng.to_str(s_)) + ['\t'] + _segstr.parts_of(eng.to_str(e_)) + [t])
             for (c, s_, e_), t in zip(rows, tails)]
    fh = Obj('TextFile', {'lines': lines})
    fh.vc_immutable = True
    stubs.STUBS['TextFile'] = {'methods': {'__enter__': lambda e, o: o, '__exit__': lambda e, o, *a: None,
                                           '__iter__': lambda e, o: list(o.attrs['lines'])}, 'props': {}, 'setters': {}}
    eng.spec_env['open'] = _Builtin('open', lambda e, a, k, n: fh)


bed_reader = Contract(
    PROP, F + '::get_bins_from_bed_dict', name='get_bins_from_bed_dict[3 BED rows]',
    params={'path': ('const', 'blacklist.bed'), 'contig': 'none'},
    setup=bed_setup,
    ensures={
        'every_row_is_listed_under_its_contig':
            'all(any(c == ROWS[i][0] and any(t[0] == ROWS[i][1] and t[1] == ROWS[i][2] for t in result[c]) for c in result) '
            'for i in range(3))',
        'nothing_else_is_listed': 'sum([len(result[c]) for c in result]) == 3',
    },
    raises={},
    bounded='a BED file of 3 rows (symbolic contig names - equal or different - and coordinates; one row with extra columns)',
    assumptions=['text file iteration yields the lines (A4)'],
)
UNITS.append(bed_reader)


# ------------------------------------------------------------------------------ blacklisted_binning on small regions (bounded, real code)
# the loop contracts above are tied to the shape of the two loops; this run of the real generator over every small configuration
# is independent of it: bins tile the region minus the blacklist exactly once, none is wider than bin_size, fetch windows contain
# their bin, extend by at most the fragment size and stay inside the gap
def binning_bounded(tier, seed):
    import itertools
    import json
    import os
    from pyvc.contract import import_real
    fn = import_real(F, 'blacklisted_binning')
    n = 0
    intervals = [(a, b) for a in range(0, 11) for b in range(a + 1, 12)]
    blacklists = [None, []] + [[iv] for iv in intervals[::3]] + [[i1, i2] for i1, i2 in itertools.combinations(intervals[::7], 2)]
    for start, end in ((0, 8), (0, 11), (2, 9), (3, 3), (0, 1)):
        for bin_size, frag in itertools.product((1, 2, 3, 4, 7), (None, 0, 2, 5)):
            for bl in blacklists:
                try:
                    got = [tuple(x) for x in fn(start, end, bin_size, blacklist=[tuple(b) for b in bl] if bl is not None else None,
                                                fragment_size=frag)]
                except Exception as e:      # noqa: BLE001
                    got = '%s: %s' % (type(e).__name__, e)
                n += 1
                bad = None
                if isinstance(got, str):
                    bad = got
                else:
                    free = [x for x in range(start, end) if not any(b[0] <= x < b[1] for b in (bl or []))]
                    covered = [x for y in got for x in range(y[0], y[1])]
                    if covered != free:
                        bad = 'bins do not tile the region minus the blacklist exactly once'
                    elif any(y[1] - y[0] > bin_size for y in got):
                        bad = 'a bin is wider than bin_size'
                    elif frag is not None and any(not (y[2] <= y[0] and y[1] <= y[3] and y[0] - y[2] <= frag and y[3] - y[1] <= frag
                                                       and start <= y[2] and y[3] <= end
                                                       and not any(b[0] < y[3] and y[2] < b[1] for b in (bl or []))) for y in got):
                        bad = 'a fetch window leaves its gap / exceeds the fragment size'
                if bad:
                    out = os.environ.get('VERIF_OUT', '.')
                    os.makedirs(os.path.join(out, 'replays', PROP), exist_ok=True)
                    path = 'replays/%s/blacklisted_binning_small.json' % PROP
                    json.dump({'property': PROP, 'obligation': '%s/blacklisted_binning[small regions]' % PROP,
                               'replay': {'status': 'confirmed', 'what': bad, 'start': start, 'end': end, 'bin_size': bin_size,
                                          'fragment_size': frag, 'blacklist': bl, 'observed': got if isinstance(got, str) else [list(y) for y in got]}},
                              open(os.path.join(out, path), 'w'), indent=1)
                    return {'result': 'violation', 'replay': path, 'confirmed': True, 'configurations': n}
    return {'result': 'clean', 'configurations': n}


from pyvc.units import Bounded      # noqa: E402
UNITS.append(Bounded(PROP, 'blacklisted_binning[every small configuration, real generator]', binning_bounded,
                     '5 regions within 0..11 x bin size 1,2,3,4,7 x fragment size none,0,2,5 x blacklists of 0-2 intervals',
                     'exhaustive run of the real generator against the specification'))
