"""C18 - allele lookups agree with the VCF in every loading mode."""
import itertools

import z3

from pyvc.contract import Contract
from pyvc.engine import LoopSpec, Obj, Sym, Builtin, PyRaise, BoundMethod, fresh, named, BOOL, INT, STR
from pyvc import externals, stubs

PROP = 'C18'
LEVEL = 'proof'
FA = 'singlecellmultiomics/alleleTools/alleleTools.py'
Q = 'singlecellmultiomics.alleleTools.alleleTools.AlleleResolver.'


# ------------------------------------------------------------------------------ __init__: loading mode
def init_setup(eng):
    eng.ghost.clear()
    eng.ghost['fetched'] = False
    eng.spec_env['GHOST'] = eng.ghost

    class VF:
        def vc_enter(self, e):
            return self

        def vc_exit(self, e, exc):
            return None
    externals.EXTRA['pysam.VariantFile'] = lambda e, a, k, n: VF()

    def fetch(e, f, args, kwargs, node):
        e.ghost['fetched'] = True
    eng.loader.call_hooks[Q + 'fetchChromosome'] = fetch
    eng.loader.call_hooks[Q + 'clean_vcf_name'] = lambda e, f, a, k, n: a[0]


def resolver_self(eng, name):
    return Obj('AlleleResolver', {}, info=eng.loader.classref(FA, 'AlleleResolver'))


init = Contract(
    PROP, FA + '::AlleleResolver.__init__', name='AlleleResolver.__init__',
    params={'self': resolver_self, 'vcffile': ('const', 'variants.vcf.gz'), 'chrom': 'none', 'phased': 'bool',
            'uglyMode': ('const', False), 'lazyLoad': 'bool', 'select_samples': 'none', 'use_cache': 'bool',
            'ignore_conversions': 'none', 'verbose': ('const', False), 'region_start': 'none', 'region_end': 'none'},
    cases=[{}, {'chrom': 'str'}],
    setup=init_setup,
    ensures={
        # in every flag combination the variants are either loaded now or will be loaded by the first lookup
        'variants_loaded_now_or_on_first_lookup': 'GHOST["fetched"] or self.lazyLoad',
        'cache_mode_is_lazy': 'implies(use_cache, self.lazyLoad and self.use_cache)',
        'eager_mode_loads': 'implies(not lazyLoad and not use_cache, GHOST["fetched"])',
    },
    raises={},
    assumptions=['the VCF is readable by pysam (uglyMode False); pysam.VariantFile context manager: A4'],
)

# ------------------------------------------------------------------------------ lookups
LOADED = {'chr1': {10: {'A': {'s1'}, 'G': {'s2'}}}}


def lookup_self(lazy, loaded):
    def mk(eng, name):
        import copy
        return Obj('AlleleResolver', {'lazyLoad': lazy, 'vcffile': 'variants.vcf.gz',
                                      'locationToAllele': copy.deepcopy(LOADED) if loaded else {}},
                   info=eng.loader.classref(FA, 'AlleleResolver'))
    return mk


def lookup_setup(eng):
    eng.ghost.clear()
    eng.ghost['fetches'] = []
    eng.spec_env['GHOST'] = eng.ghost

    def fetch(e, f, args, kwargs, node):
        import copy
        e.ghost['fetches'].append(args[1])
        if args[1] == 'chr3':
            # a contig the VCF does not have: the real fetchChromosome has already allocated its placeholder entry when
            # pysam's fetch raises ValueError("invalid contig `chr3`")
            f.bound.attrs['locationToAllele'] = {args[1]: {-1: {'N': {'Nop'}}}}
            raise PyRaise('ValueError', 'invalid contig `chr3`')
        f.bound.attrs['locationToAllele'] = copy.deepcopy(LOADED) if args[1] == 'chr1' else {args[1]: {}}
    eng.loader.call_hooks[Q + 'fetchChromosome'] = fetch


get_alleles = Contract(
    PROP, FA + '::AlleleResolver.getAllelesAt', name='AlleleResolver.getAllelesAt',
    params={'self': lookup_self(False, True), 'chrom': ('const', 'chr1'), 'pos': 'int', 'base': 'str'},
    cases=[{}, {'self': lookup_self(True, False)}, {'self': lookup_self(True, True)},
           {'self': lookup_self(True, False), 'chrom': ('const', 'chr2')}, {'chrom': ('const', 'chr2')},
           {'self': lookup_self(True, False), 'chrom': ('const', 'chr3')}, {'chrom': ('const', 'chr3')}],
    setup=lookup_setup,
    # positions are 0-based reference coordinates; key -1 is fetchChromosome's own placeholder entry, not a site
    requires=['pos >= 0'],
    ensures={
        # identical answers in eager and lazy mode: the lazy mode loads the contig on first access, then both read the table
        'answer_is_the_table_entry_A': 'implies(chrom == "chr1" and pos == 10 and base == "A", result == {"s1"})',
        'answer_is_the_table_entry_G': 'implies(chrom == "chr1" and pos == 10 and base == "G", result == {"s2"})',
        'nothing_for_absent_sites_or_bases':
            'implies(not (chrom == "chr1" and pos == 10 and (base == "A" or base == "G")), result is None)',
        'lazy_mode_loads_the_contig_once_when_missing':
            'GHOST["fetches"] == ([chrom] if (old(self).lazyLoad and not WAS_LOADED) else [])',
    },
    raises={},
    assumptions=['fetchChromosome(contig) loads exactly the variants of that contig (its own contract, below)'],
)
get_alleles.pre_state = lambda eng, fr: eng.spec_env.update(
    {'WAS_LOADED': fr.env['chrom'] in fr.env['self'].attrs['locationToAllele']})

# has_location: the other observation point - the same table, the same lazy load, the same answer in every mode
has_location = Contract(
    PROP, FA + '::AlleleResolver.has_location', name='AlleleResolver.has_location',
    params={'self': lookup_self(False, True), 'chrom': ('const', 'chr1'), 'pos': 'int'},
    cases=[{}, {'self': lookup_self(True, False)}, {'self': lookup_self(True, True)},
           {'self': lookup_self(True, False), 'chrom': ('const', 'chr2')}, {'chrom': ('const', 'chr2')},
           {'self': lookup_self(True, False), 'chrom': ('const', 'chr3')}, {'chrom': ('const', 'chr3')}],
    setup=lookup_setup,
    requires=['pos >= 0'],
    ensures={
        'a_site_is_reported_iff_the_vcf_has_it_in_every_mode': 'result == (chrom == "chr1" and pos == 10)',
        'lazy_mode_loads_the_contig_once_when_missing':
            'GHOST["fetches"] == ([chrom] if (old(self).lazyLoad and not WAS_LOADED) else [])',
    },
    raises={},
    assumptions=['fetchChromosome(contig) loads exactly the variants of that contig (its own contract, below); for a contig the '
                 'VCF lacks it leaves its placeholder entry and raises ValueError("invalid contig ...") as pysam does (A4)'],
)
has_location.pre_state = get_alleles.pre_state


def has_location_replay(inputs, clause):
    """real AlleleResolver on the scratch VCF (contigs 1 and 2): has_location in eager, lazy and cache mode for a site of the
    VCF, an absent position and a contig the VCF lacks, asked twice"""
    import shutil
    import tempfile
    from pyvc.contract import import_real
    AR = import_real(FA, 'AlleleResolver')
    d = tempfile.mkdtemp(prefix='c18_')
    try:
        p = make_vcf(d)
        probes = [('1', 19), ('1', 5), ('2', 4), ('3', 5), ('3', 5)]
        want = [True, False, True, False, False]
        obs, bad = {}, []
        for mode, kw in (('eager', {}), ('lazy', {'lazyLoad': True}), ('cache', {'use_cache': True})):
            try:
                r = AR(p, **kw)
                got = [r.has_location(c, x) for c, x in probes]
            except Exception as e:      # noqa: BLE001
                got = '%s: %s' % (type(e).__name__, e)
            obs[mode] = got
            if got != want:
                bad.append(mode)
        o = {'outcome': 'return', 'value': obs, 'probes': [list(x) for x in probes], 'vcf_says': want}
        if bad:
            return {'status': 'confirmed', 'observed': o, 'failed': [{'clause': clause, 'modes': bad}]}
        return {'status': 'not-reproduced', 'observed': o}
    finally:
        shutil.rmtree(d, ignore_errors=True)


has_location.replay = has_location_replay
UNITS = [init, get_alleles, has_location]


VCF_TEXT = """##fileformat=VCFv4.0
##reference=example.fa
##contig=<ID=1,length=42>
##contig=<ID=2,length=42>
##INFO=<ID=DP,Number=1,Type=Integer,Description="Total Depth">
##FORMAT=<ID=GT,Number=1,Type=String,Description="Genotype">
#CHROM\tPOS\tID\tREF\tALT\tQUAL\tFILTER\tINFO\tFORMAT\tSAMPLE_A\tSAMPLE_B
1\t18\t.\tA\tT\t42\tPASS\tDP=4\tGT\t1|1\t1|1
1\t20\t.\tA\tT\t42\tPASS\tDP=4\tGT\t0|0\t1|1
1\t22\t.\tG\tA\t42\tPASS\tDP=4\tGT\t0|0\t1|1
1\t40\t.\tA\tC\t42\tPASS\tDP=4\tGT\t.|.\t1|1
2\t5\t.\tC\tG\t42\tPASS\tDP=4\tGT\t0|1\t1|1
"""
PROBES = [('1', 17, 'A'), ('1', 19, 'C'), ('1', 19, 'A'), ('1', 19, 'T'), ('1', 21, 'A'), ('1', 39, 'C'), ('2', 4, 'C'),
          ('2', 4, 'G'), ('1', 21, 'G')]


def make_vcf(d):
    import os
    import pysam
    p = os.path.join(d, 'variants.vcf')
    with open(p, 'w') as f:
        f.write(VCF_TEXT)
    return pysam.tabix_index(p, preset='vcf', force=True)


def init_replay(inputs, clause):
    """real AlleleResolver on an indexed VCF: the mode given by the model's flags against the eager mode"""
    import shutil
    import tempfile
    from pyvc.contract import import_real
    cls = import_real(FA, 'AlleleResolver')
    d = tempfile.mkdtemp(prefix='c18_')
    try:
        path = make_vcf(d)
        eager = cls(vcffile=path, lazyLoad=False, use_cache=False, phased=bool(inputs['phased']))
        want = [eager.getAllelesAt(*p) for p in PROBES]
        modes = [{'lazyLoad': bool(inputs['lazyLoad']), 'use_cache': bool(inputs['use_cache'])}]
        failed, obs = [], []
        for m in modes:
            for run in (1, 2):       # with use_cache: first run writes the cache, second run reads it
                r = cls(vcffile=path, phased=bool(inputs['phased']), **m)
                got = [r.getAllelesAt(*p) for p in PROBES]
                obs.append({'mode': m, 'run': run, 'answers': [sorted(x) if x else x for x in got]})
                if got != want:
                    failed.append({'clause': 'answers identical in every loading mode', 'mode': m, 'run': run,
                                   'differs_at': [PROBES[i] for i in range(len(PROBES)) if got[i] != want[i]]})
        o = {'outcome': 'return', 'value': obs, 'eager': [sorted(x) if x else x for x in want]}
        if failed:
            return {'status': 'confirmed', 'observed': o, 'failed': failed}
        return {'status': 'not-reproduced', 'observed': o}
    finally:
        shutil.rmtree(d, ignore_errors=True)


init.replay = init_replay


# ------------------------------------------------------------------------------ fetchChromosome: the per-record rule
# (loop-body contract: one arbitrary VCF record, arbitrary state left by earlier records)
class LocStore:
    """self.locationToAllele with its writes logged (ghost): chrom -> pos -> {base: set(samples)}"""

    def __init__(self, ghost):
        self.ghost = ghost

    def vc_getitem(self, eng, chrom, node=None):
        outer = self

        class Chrom:
            def vc_getitem(s, e, pos, node=None):
                return externals.DefaultDict(eng.builtins()['set'])

            def vc_setitem(s, e, pos, value, node=None):
                outer.ghost['stored'].append((chrom, pos, value))
        return Chrom()

    def vc_havoc_inplace(self, eng, name):
        self.ghost['stored'] = []       # whatever earlier records stored is irrelevant for this record

    def vc_snapshot(self):
        return self


def record_case(none_pattern, select, ignore, phased=True):
    """two samples x two alleles; none_pattern: which alleles are missing (None)"""
    def setup(eng):
        eng.ghost.clear()
        eng.ghost['stored'] = []
        eng.spec_env['GHOST'] = eng.ghost
        eng.spec_env['SELECT'] = select
        eng.spec_env['IGNORE'] = ignore

        def record(e, nm, a=None, k=None):
            alleles = []
            for si, s in enumerate(('s1', 's2')):
                al = []
                for ai in range(2):
                    if none_pattern[si * 2 + ai]:
                        al.append(None)
                    else:
                        v = named(STR, 'allele_%s_%d' % (s, ai))
                        e.assume(z3.Length(v.z) >= 1)       # A7: VCF allele strings are not empty
                        al.append(v)
                alleles.append((s, tuple(al)))
            e.spec_env['ALLELES'] = alleles
            ref = named(STR, 'ref')
            e.spec_env['REF'] = ref
            e.spec_env['POS'] = named(INT, 'pos')
            e.spec_env['CHROM'] = named(STR, 'rec_chrom')

            class Samples:
                def vc_len(s_, e2):
                    return 2

                def vc_getattr(s_, e2, attr, node=None):
                    return BoundMethod('items', lambda e3, a_, k_: [(s, Obj('SampleData', {'alleles': al})) for s, al in alleles])
            alt = named(STR, 'alt0')
            e.assume(z3.And(z3.Length(ref.z) >= 1, z3.Length(alt.z) >= 1))      # A7
            e.spec_env['ALT'] = alt
            pos = e.spec_env['POS']
            # pysam: rlen is the length of REF on the reference, start = pos - 1, stop = start + rlen (A4)
            return Obj('VariantRecord', {'chrom': e.spec_env['CHROM'], 'pos': pos, 'ref': ref, 'alts': (alt,),
                                         'alleles': (ref, alt), 'samples': Samples(),
                                         'rlen': Sym(z3.Length(ref.z), INT), 'start': Sym(pos.z - 1, INT),
                                         'stop': Sym(pos.z - 1 + z3.Length(ref.z), INT)})

        class VF:
            def vc_enter(self, e):
                return self

            def vc_exit(self, e, exc):
                return None

            def vc_getattr(self, e, attr, node=None):
                return BoundMethod('fetch', lambda e2, a, k: stubs.ObjSeq(record, 'records'))
        externals.EXTRA['pysam.VariantFile'] = lambda e, a, k, n: VF()
    return setup


def fetch_self(select, ignore, phased):
    def mk(eng, name):
        return Obj('AlleleResolver', {'use_cache': False, 'verbose': False, 'phased': phased, 'select_samples': select,
                                      'ignore_conversions': ignore, 'region_start': None, 'region_end': None,
                                      'locationToAllele': LocStore(eng.ghost)},
                   info=eng.loader.classref(FA, 'AlleleResolver'))
    return mk


SEL = '(SELECT is None or s in SELECT)'
CALLS = '[(s, a) for s, al in ALLELES if %s for a in al if a is not None]' % SEL
USED = 'any(len(a) == 1 for s, a in %s)' % CALLS
MULTIBASE = 'any(len(a) != 1 for s, a in %s)' % CALLS
MISSING = 'any(a is None for s, al in ALLELES if %s for a in al)' % SEL
TWO_BASES = 'any(len(a) == 1 and len(b) == 1 and a != b for s, a in %s for t, b in %s)' % (CALLS, CALLS)
N_ASSIGNED = 'sum((1 if any(a is not None and len(a) == 1 for a in al) else 0) for s, al in ALLELES if %s)' % SEL
SELECTION_OK = '(SELECT is None or not %s or %s == len(SELECT))' % (USED, N_ASSIGNED)
IGNORED = '(IGNORE is not None and any(len(a) == 1 and (REF, a) in IGNORE for s, a in %s))' % CALLS
# a site is kept iff it is a single-nucleotide site (no multi-base allele) that is informative - two different bases, or a
# missing genotype next to a called one - with every selected sample called, and not an ignored conversion
KEEP = ('(%s and not %s and ((%s) if %s else (%s and %s)) and not %s)'
        % (USED, MULTIBASE, 'True', MISSING, TWO_BASES, SELECTION_OK, IGNORED))

RECORD_POST = {
    'site_kept_iff_informative_single_nucleotide_site': 'iff(len(GHOST["stored"]) == 1, %s)' % KEEP,
    'at_most_one_entry_per_record': 'len(GHOST["stored"]) <= 1',
    'entry_is_at_the_record_position':
        'all(e[0] == CHROM and e[1] == POS - 1 for e in GHOST["stored"])',
    # base -> exactly the selected samples whose genotype contains that base
    'every_called_sample_is_listed_under_its_base':
        'all(all(implies(len(a) == 1, any(k == a and s in v for k, v in e[2].items())) for s, a in %s) for e in GHOST["stored"])' % CALLS,
    'no_sample_is_listed_under_a_base_it_does_not_have':
        'all(all(all(any(s == t and a == k for s, a in %s) for t in v) for k, v in e[2].items()) for e in GHOST["stored"])' % CALLS,
}


def record_unit(none_pattern, select, ignore, tag):
    return Contract(
        PROP, FA + '::AlleleResolver.fetchChromosome', name='fetchChromosome.record[%s]' % tag,
        params={'self': fetch_self(select, ignore, True), 'vcffile': ('const', 'variants.vcf.gz'), 'chrom': 'str',
                'clear': ('const', False)},
        setup=record_case(none_pattern, select, ignore),
        loops={0: LoopSpec(inv={}, types={}, body_post=RECORD_POST)},
        raises={},
        bounded=None,
        assumptions=['2 samples x 2 alleles per record (symbolic allele strings; the pattern of missing alleles, the sample '
                     'selection and the ignored conversions are case parameters); phased mode; no cache',
                     'pysam.VariantFile.fetch yields the records of the contig (A4)'],
    )


# not phased: the site is keyed by allele rank (U = REF, V = first ALT) and kept iff REF and ALT are single bases and the
# conversion is not ignored
UNPHASED_POST = {
    'site_kept_iff_single_nucleotide_ref_and_alt':
        'iff(len(GHOST["stored"]) == 1, len(REF) == 1 and len(ALT) == 1 and not (IGNORE is not None and ((REF, REF) in IGNORE or (REF, ALT) in IGNORE)))',
    'at_most_one_entry_per_record': 'len(GHOST["stored"]) <= 1',
    'entry_is_at_the_record_position': 'all(e[0] == CHROM and e[1] == POS - 1 for e in GHOST["stored"])',
    'ref_is_U_and_alt_is_V':
        'all(any(k == REF and "U" in v for k, v in e[2].items()) and any(k == ALT and "V" in v for k, v in e[2].items()) and '
        'all((k == REF or k == ALT) and all((t == "U" and k == REF) or (t == "V" and k == ALT) for t in v) for k, v in e[2].items()) '
        'for e in GHOST["stored"])',
}


def unphased_unit(ignore, tag):
    return Contract(
        PROP, FA + '::AlleleResolver.fetchChromosome', name='fetchChromosome.record[not phased; %s]' % tag,
        params={'self': fetch_self(None, ignore, False), 'vcffile': ('const', 'variants.vcf.gz'), 'chrom': 'str',
                'clear': ('const', False)},
        setup=record_case((0, 0, 0, 0), None, ignore),
        loops={0: LoopSpec(inv={}, types={}, body_post=UNPHASED_POST)},
        raises={},
        bounded=None,
        assumptions=['one REF and one ALT allele per record (symbolic strings); not phased; no cache',
                     'pysam.VariantFile.fetch yields the records of the contig; rlen = len(REF) (A4)'],
    )


RECORD_UNITS = [unphased_unit(None, 'no ignore'), unphased_unit({('C', 'T')}, 'ignore C>T')]
for pat, ptag in (((0, 0, 0, 0), 'all called'), ((1, 1, 0, 0), 's1 missing'), ((1, 0, 0, 0), 's1 half missing'),
                  ((0, 0, 1, 1), 's2 missing'), ((1, 1, 1, 1), 'all missing')):
    for sel, stag in ((None, 'all samples'), ({'s1', 's2'}, 'select s1,s2'), ({'s2'}, 'select s2')):
        for ign, itag in ((None, 'no ignore'), ({('C', 'T')}, 'ignore C>T')):
            RECORD_UNITS.append(record_unit(pat, sel, ign, '%s; %s; %s' % (ptag, stag, itag)))
UNITS += RECORD_UNITS


def record_replay(inputs, clause):
    """One-record VCF realising the model's genotypes, through the real AlleleResolver (eager load of that contig)."""
    import shutil
    import tempfile
    import os
    import pysam
    from pyvc.contract import import_real
    g = inputs.get('ghost', {})
    alleles = g.get('ALLELES')
    select, ignore, ref = g.get('SELECT'), g.get('IGNORE'), g.get('REF')
    # distinct model strings -> distinct nucleotide strings of the same length (equalities preserved)
    pool1 = ['A', 'C', 'G', 'T']
    mapping = {}

    def real(a):
        if a is None:
            return None
        if a not in mapping:
            if len(a) == 1:
                if a in 'ACGT' and a not in mapping.values():
                    mapping[a] = a
                else:
                    free = [x for x in pool1 if x not in mapping.values()]
                    if not free:
                        raise RuntimeError('too many distinct single-base alleles')
                    mapping[a] = free[0]
            else:
                n = max(2, len(a))
                k = len([v for v in mapping.values() if len(v) > 1])
                mapping[a] = ('ACGT' * 8)[k:k + n]
        return mapping[a]
    try:
        ref_r = real(ref) if ref else None
        gts = [(s, tuple(real(a) for a in al)) for s, al in alleles]
    except RuntimeError as e:
        return {'status': 'no-input', 'note': str(e)}
    strings = [ref_r] if ref_r else []
    for s, al in gts:
        for a in al:
            if a is not None and a not in strings:
                strings.append(a)
    if not strings:
        strings = ['A']
    if len(strings) < 2:
        strings.append('G' if strings[0] != 'G' else 'T')
    REF, ALTS = strings[0], strings[1:]

    def gt(al):
        return '|'.join('.' if a is None else str(strings.index(a)) for a in al)
    d = tempfile.mkdtemp(prefix='c18r_')
    try:
        p = os.path.join(d, 'v.vcf')
        with open(p, 'w') as f:
            f.write('##fileformat=VCFv4.0\n##contig=<ID=1,length=1000>\n'
                    '##FORMAT=<ID=GT,Number=1,Type=String,Description="Genotype">\n'
                    '#CHROM\tPOS\tID\tREF\tALT\tQUAL\tFILTER\tINFO\tFORMAT\ts1\ts2\n')
            f.write('1\t100\t.\t%s\t%s\t42\tPASS\t.\tGT\t%s\t%s\n' % (REF, ','.join(ALTS), gt(gts[0][1]), gt(gts[1][1])))
        path = pysam.tabix_index(p, preset='vcf', force=True)
        cls = import_real(FA, 'AlleleResolver')
        ign = set(tuple(real(x) for x in pair) for pair in ignore) if ignore else None
        r = cls(vcffile=path, select_samples=set(select) if select else None, ignore_conversions=ign, phased=True)
        stored = dict(r.locationToAllele['1'].get(99, {})) if 99 in r.locationToAllele['1'] else None
        sel = [(s, al) for s, al in gts if (not select or s in select)]
        calls = [(s, a) for s, al in sel for a in al if a is not None]
        used = any(len(a) == 1 for s, a in calls)
        multibase = any(len(a) != 1 for s, a in calls)
        missing = any(a is None for s, al in sel for a in al)
        two = len({a for s, a in calls if len(a) == 1}) >= 2
        n_assigned = sum(1 for s, al in sel if any(a is not None and len(a) == 1 for a in al))
        sel_ok = (not select) or (not used) or n_assigned == len(select)
        ignored = bool(ign) and any(len(a) == 1 and (REF, a) in ign for s, a in calls)
        keep = used and not multibase and (True if missing else (two and sel_ok)) and not ignored
        obs = {'outcome': 'return', 'value': {'vcf_record': [REF, ALTS, gt(gts[0][1]), gt(gts[1][1])],
                                              'stored': {k: sorted(v) for k, v in stored.items()} if stored else None,
                                              'expected_kept': keep}}
        if (stored is not None and len(stored) > 0) != keep:
            return {'status': 'confirmed', 'observed': obs,
                    'failed': [{'clause': 'site_kept_iff_informative_single_nucleotide_site',
                                'why': 'site stored although it has a multi-base allele' if multibase else 'kept/dropped wrongly'}]}
        if stored:
            expect = {}
            for s, a in calls:
                if len(a) == 1:
                    expect.setdefault(a, set()).add(s)
            if {k: set(v) for k, v in stored.items()} != expect:
                return {'status': 'confirmed', 'observed': obs, 'failed': [{'clause': 'base -> samples map', 'expected': {k: sorted(v) for k, v in expect.items()}}]}
        return {'status': 'not-reproduced', 'observed': obs}
    finally:
        shutil.rmtree(d, ignore_errors=True)


def unphased_replay(inputs, clause):
    """One-record VCF with the model's REF/ALT lengths (distinct nucleotide strings), real AlleleResolver(phased=False)."""
    import shutil
    import tempfile
    import os
    import pysam
    from pyvc.contract import import_real
    g = inputs.get('ghost', {})
    ref, alt, ignore = g.get('REF') or 'A', g.get('ALT') or 'C', g.get('IGNORE')

    def real(x, pool):
        if len(x) == 1:
            return x if x in 'ACGT' else pool
        return ('ACGT' * 8)[1:1 + len(x)] if pool == 'C' else ('TGCA' * 8)[:len(x)]
    REF, ALT = real(ref, 'C'), real(alt, 'T')
    if REF == ALT and ref != alt:
        ALT = 'G' if REF != 'G' else 'A'
    ign = set(tuple(x) for x in ignore) if ignore else None
    d = tempfile.mkdtemp(prefix='c18u_')
    try:
        p = os.path.join(d, 'v.vcf')
        with open(p, 'w') as f:
            f.write('##fileformat=VCFv4.0\n##contig=<ID=1,length=1000>\n'
                    '##FORMAT=<ID=GT,Number=1,Type=String,Description="Genotype">\n'
                    '#CHROM\tPOS\tID\tREF\tALT\tQUAL\tFILTER\tINFO\tFORMAT\ts1\ts2\n')
            f.write('1\t100\t.\t%s\t%s\t42\tPASS\t.\tGT\t0/0\t0/1\n' % (REF, ALT))
        path = pysam.tabix_index(p, preset='vcf', force=True)
        r = import_real(FA, 'AlleleResolver')(vcffile=path, phased=False, ignore_conversions=ign)
        stored = r.locationToAllele['1'].get(99) if 99 in r.locationToAllele['1'] else None
        stored = {k: sorted(v) for k, v in stored.items()} if stored else None
        keep = len(REF) == 1 and len(ALT) == 1 and not (ign and ((REF, REF) in ign or (REF, ALT) in ign))
        expect = None
        if keep:
            expect = {}
            expect.setdefault(REF, []).append('U')
            expect.setdefault(ALT, []).append('V')
        obs = {'outcome': 'return', 'value': {'vcf_record': [REF, ALT], 'stored': stored, 'expected': expect}}
        if stored != expect:
            return {'status': 'confirmed', 'observed': obs, 'failed': [{'clause': clause}]}
        return {'status': 'not-reproduced', 'observed': obs}
    finally:
        shutil.rmtree(d, ignore_errors=True)


for _u in RECORD_UNITS:
    _u.replay = unphased_replay if 'not phased' in _u.name else record_replay


# ------------------------------------------------------------------------------ write_cache: atomic publication
# "later runs reading it ... identical answers": a cache file that exists under its final name is complete.  Typestate
# monitor evaluated after every statement and on every exceptional edge (a write or the rename may fail at any call):
# the final path is absent or holds every line.
CACHE_PATH = 'vcf_allele_cache/chr1.tsv.gz'
CACHE_CONTENT = {5: {'A': {'s1', 's2'}}, 9: {'C': {'s1'}, 'T': {'s2'}}, 12: {'G': {'s3'}}}
N_LINES = sum(len(v) for v in CACHE_CONTENT.values())


def wc_monitor(eng, node, fr):
    fs = eng.ghost['fs']
    ok = CACHE_PATH not in fs or (len(fs[CACHE_PATH]) == N_LINES and eng.ghost['closed'].get(CACHE_PATH, False))
    eng.check('monitor.cache_file_under_its_final_name_is_complete', bool(ok), kind='monitor',
              info={'line': getattr(node, 'lineno', None), 'lines_at_final_path': len(fs.get(CACHE_PATH, []))})


def wc_setup(eng):
    from pyvc import externals
    eng.ghost = {'fs': {}, 'closed': {}}
    eng.spec_env['GHOST'] = eng.ghost
    eng.monitor = wc_monitor

    def fail(e, label):
        if e.branch(fresh(BOOL, 'fails_' + label).z):
            raise PyRaise('OSError', 'injected failure at ' + label)

    def gz_open(e, a, k, n):
        path = a[0]
        fail(e, 'open')
        e.ghost['fs'][path] = []
        e.ghost['closed'][path] = False
        o = Obj('GzWriter', {'path': path})
        o.vc_immutable = True
        return o

    def write(e, o, data):
        fail(e, 'write')
        e.ghost['fs'][o.attrs['path']].append(data)

    def close(e, o, *a):
        e.ghost['closed'][o.attrs['path']] = True

    def rename(e, a, k, n):
        fail(e, 'rename')
        fs, cl = e.ghost['fs'], e.ghost['closed']
        fs[a[1]] = fs.pop(a[0])
        cl[a[1]] = cl.pop(a[0])
    stubs.STUBS['GzWriter'] = {'methods': {'write': write, '__enter__': lambda e, o: o, '__exit__': close, 'close': close},
                               'props': {}, 'setters': {}}
    externals.EXTRA['gzip.open'] = gz_open
    externals.EXTRA['os.rename'] = rename


def wc_self(eng, name):
    return Obj('AlleleResolver', {'locationToAllele': {'chr1': {p: {b: set(s) for b, s in d.items()} for p, d in CACHE_CONTENT.items()}}},
               info=eng.loader.classref(FA, 'AlleleResolver'))


write_cache = Contract(
    PROP, FA + '::AlleleResolver.write_cache', name='AlleleResolver.write_cache[atomic publication]',
    params={'self': wc_self, 'path': ('const', CACHE_PATH), 'chrom': ('const', 'chr1')},
    setup=wc_setup,
    ensures={'published_complete': 'len(GHOST["fs"][path]) == %d and GHOST["closed"][path]' % N_LINES,
             'no_temporary_file_left': 'len(GHOST["fs"]) == 1'},
    raises={'OSError': 'True'},
    max_paths=400,
    assumptions=['gzip.open(path, "wt") creates/truncates the file, write appends a line, leaving the with-block closes it; '
                 'os.rename is atomic (A4); every open / write / rename may fail; a fixed table of 4 lines (the control '
                 'flow does not depend on the values)'],
)
UNITS.append(write_cache)


def wc_replay(inputs, clause):
    """real AlleleResolver.write_cache, the third line write fails (disk full): is there a file under the final name?"""
    import gzip
    import importlib
    import os
    import shutil
    import tempfile
    mod = importlib.import_module('singlecellmultiomics.alleleTools.alleleTools')
    base = os.path.join(os.path.dirname(os.path.dirname(os.path.abspath(__file__))), '.scratch')
    os.makedirs(base, exist_ok=True)
    d = tempfile.mkdtemp(prefix='c18w_', dir=base)
    real_open = gzip.open

    class Failing:
        def __init__(self, f):
            self.f, self.n = f, 0

        def write(self, s):
            self.n += 1
            if self.n == 3:
                raise OSError(28, 'No space left on device (injected)')
            return self.f.write(s)

        def __enter__(self):
            return self

        def __exit__(self, *a):
            self.f.close()
            return False
    try:
        r = mod.AlleleResolver.__new__(mod.AlleleResolver)
        r.locationToAllele = {'chr1': {p: {b: set(s) for b, s in dd.items()} for p, dd in CACHE_CONTENT.items()}}
        path = os.path.join(d, 'chr1.tsv.gz')
        mod.gzip.open = lambda p, m='rt', *a, **k: Failing(real_open(p, m, *a, **k)) if 'w' in m else real_open(p, m, *a, **k)
        raised = None
        try:
            r.write_cache(path, 'chr1')
        except OSError as e:
            raised = str(e)
        finally:
            mod.gzip.open = real_open
        exists = os.path.exists(path)
        lines = None
        if exists:
            try:
                lines = len(real_open(path, 'rt').read().splitlines())
            except Exception:      # noqa
                lines = -1
        obs = {'outcome': 'raise' if raised else 'return', 'value': {'error': raised, 'final_path_exists': exists,
                                                                     'lines_readable_at_final_path': lines, 'expected_lines': N_LINES}}
        if exists and lines != N_LINES:
            return {'status': 'confirmed', 'observed': obs, 'failed': [{'clause': 'monitor.cache_file_under_its_final_name_is_complete'}]}
        return {'status': 'not-reproduced', 'observed': obs}
    finally:
        mod.gzip.open = real_open
        shutil.rmtree(d, ignore_errors=True)


write_cache.replay = wc_replay


# ------------------------------------------------------------------------------ cache codec: write_cache then read_cached restores the
# table (bounded: a fixed shape of positions/bases, symbolic sample names)
SAMPLE_UNSAFE = ',\t\n\r\x0b\x0c '


def codec_setup(eng):
    from pyvc import segstr
    wc_setup(eng)
    eng.monitor = None
    eng.ghost['no_faults'] = True
    x, y = (segstr.register_atom(eng, named(STR, n), SAMPLE_UNSAFE) for n in ('sample_x', 'sample_y'))
    eng.assume(z3.And(z3.Length(x.z) >= 1, z3.Length(y.z) >= 1, x.z != y.z, x.z != z3.StringVal('s1'), y.z != z3.StringVal('s1')))
    # position 0 is the first base of the contig (VCF POS 1); -1 is fetchChromosome's placeholder entry and is written too
    table = {0: {'T': {y}}, 5: {'A': {'s1', x}}, 9: {'C': {x}, 'T': {y}}, 120: {'G': {'s1'}}}
    eng.spec_env['TABLE'] = table
    eng.spec_env['RESOLVER'] = Builtin('RESOLVER', lambda e, a, k, n: Obj(
        'AlleleResolver', {'locationToAllele': a[0], 'region_start': None, 'region_end': None}, info=e.loader.classref(FA, 'AlleleResolver')))

    def gz_open(e, a, k, n):
        path, mode = a[0], (a[1] if len(a) > 1 else 'rb')
        if 'w' in mode:
            e.ghost['fs'][path] = []
            e.ghost['closed'][path] = False
            o = Obj('GzWriter', {'path': path})
        else:
            o = Obj('GzReader', {'path': path})
        o.vc_immutable = True
        return o
    stubs.STUBS['GzReader'] = {'methods': {'__enter__': lambda e, o: o, '__exit__': lambda e, o, *a: None,
                                           '__iter__': lambda e, o: list(e.ghost['fs'][o.attrs['path']])}, 'props': {}, 'setters': {}}
    stubs.STUBS['GzWriter']['methods']['write'] = lambda e, o, data: e.ghost['fs'][o.attrs['path']].append(data)
    externals.EXTRA['gzip.open'] = gz_open
    externals.EXTRA['os.rename'] = lambda e, a, k, n: (e.ghost['fs'].__setitem__(a[1], e.ghost['fs'].pop(a[0])),
                                                       e.ghost['closed'].__setitem__(a[1], e.ghost['closed'].pop(a[0])))[0]


cache_codec = Contract(
    PROP, FA + '::AlleleResolver', name='cache codec[write_cache then read_cached]',
    harness='''
w = RESOLVER({'chr1': TABLE})
w.write_cache('cache/chr1.tsv.gz', 'chr1')
r = RESOLVER(get_allele_dict())
r.read_cached('cache/chr1.tsv.gz', 'chr1')
return r.locationToAllele['chr1']
''',
    params={}, setup=codec_setup,
    ensures={
        'same_positions_and_bases': 'sorted(list(result.keys())) == [0, 5, 9, 120] and all(sorted(list(result[p].keys())) == sorted(list(TABLE[p].keys())) for p in TABLE)',
        'same_samples_under_every_base':
            'all(len(result[p][b]) == len(TABLE[p][b]) and all((x in result[p][b]) for x in TABLE[p][b]) for p in TABLE for b in TABLE[p])',
    },
    raises={},
    bounded='a table of 4 positions (the first base of the contig among them) / 5 bases with 1-2 samples each; two symbolic sample names (no comma / whitespace), no region limits',
    assumptions=['gzip text files: written lines are read back line by line (A4); sample names contain no comma, tab or other '
                 'whitespace (VCF sample names)'],
)
UNITS.append(cache_codec)


# ------------------------------------------------------------------------------ the molecule-level consumer of the lookups (DA tag)
# Molecule.calculate_allele_likelihoods reads the table through getAllelesAt; it must credit the sample that owns the base
# and leave the resolver's table as it found it (a later lookup of the same site must give the same answer).
FMOL = 'singlecellmultiomics/molecule/molecule.py'
PROB = {('chr1', 10): None}


def like_setup(eng):
    import copy
    lookup_setup(eng)
    p, q = named(INT, 'likelihood_A'), named(INT, 'likelihood_G')
    eng.assume(z3.And(p.z >= 1, q.z >= 1))
    eng.spec_env.update({'PA': p, 'PG': q})
    res = Obj('AlleleResolver', {'lazyLoad': False, 'vcffile': 'variants.vcf.gz', 'locationToAllele': copy.deepcopy(LOADED)},
              info=eng.loader.classref(FA, 'AlleleResolver'))
    eng.spec_env['RES'] = res
    eng.spec_env['LOADED'] = copy.deepcopy(LOADED)


def like_self(which):
    def mk(eng, name):
        probs = {'A only': {('chr1', 10): {'A': eng.spec_env['PA'], 'N': 1}},
                 'A and G': {('chr1', 10): {'A': eng.spec_env['PA'], 'G': eng.spec_env['PG']}},
                 'other base': {('chr1', 10): {'T': eng.spec_env['PA']}, ('chr1', 11): {'A': eng.spec_env['PG']}}}[which]
        return Obj('Molecule', {'allele_resolver': eng.spec_env['RES'], 'allele_informative_base_probabilities': probs},
                   info=eng.loader.classref(FMOL, 'Molecule'))
    return mk


def like_unit(which, credited):
    return Contract(
        PROP, FMOL + '::Molecule.calculate_allele_likelihoods', name='Molecule.calculate_allele_likelihoods[%s]' % which,
        params={'self': like_self(which)}, setup=like_setup,
        ensures={
            'the_sample_owning_the_base_is_credited': credited,
            'lookups_leave_the_table_unchanged': 'RES.locationToAllele == LOADED',
            'a_second_lookup_gives_the_same_answer':
                'RES.getAllelesAt("chr1", 10, "A") == {"s1"} and RES.getAllelesAt("chr1", 10, "G") == {"s2"}',
        },
        raises={},
        bounded='one informative site of the table (chr1:10 A->s1, G->s2), symbolic likelihoods',
        assumptions=['allele_informative_base_probabilities given (its own loop reads has_location, contract above)'],
    )


def like_replay(which):
    def replay(inputs, clause):
        """real Molecule.calculate_allele_likelihoods on an object carrying a real AlleleResolver table"""
        import copy
        from pyvc.contract import import_real
        M, AR = import_real(FMOL, 'Molecule'), import_real(FA, 'AlleleResolver')
        g = inputs.get('ghost') or {}
        pa, pg = float(g.get('PA') or 1), float(g.get('PG') or 1)
        r = object.__new__(AR)
        r.lazyLoad, r.vcffile, r.locationToAllele = False, 'variants.vcf.gz', copy.deepcopy(LOADED)
        m = object.__new__(M)
        m.allele_resolver = r
        m.__dict__['allele_informative_base_probabilities'] = {
            'A only': {('chr1', 10): {'A': pa, 'N': 1}}, 'A and G': {('chr1', 10): {'A': pa, 'G': pg}},
            'other base': {('chr1', 10): {'T': pa}, ('chr1', 11): {'A': pg}}}[which]
        try:
            m.calculate_allele_likelihoods()
        except Exception as e:      # noqa: BLE001
            return {'status': 'confirmed', 'observed': {'outcome': 'raise', 'exception': type(e).__name__, 'message': str(e)[:200]},
                    'failed': [{'clause': clause}]}
        want = {'A only': {'s1': pa}, 'A and G': {'s1': pa, 's2': pg}, 'other base': {}}[which]
        got = dict(m.obtained_allele_likelihoods)
        again = [r.getAllelesAt('chr1', 10, 'A'), r.getAllelesAt('chr1', 10, 'G')]
        obs = {'outcome': 'return', 'value': {'likelihoods': got, 'expected': want,
                                              'second_lookup': [sorted(x) if x is not None else None for x in again],
                                              'table_after': {c: {p_: {b: sorted(v) for b, v in bs.items()} for p_, bs in ps.items()}
                                                              for c, ps in r.locationToAllele.items()}}}
        if got != want or r.locationToAllele != LOADED or again != [{'s1'}, {'s2'}]:
            return {'status': 'confirmed', 'observed': obs, 'failed': [{'clause': clause}]}
        return {'status': 'not-reproduced', 'observed': obs}
    return replay


_like_unit = like_unit


def like_unit(which, credited):       # noqa: F811
    u = _like_unit(which, credited)
    u.replay = like_replay(which)
    return u


UNITS += [
    like_unit('A only', 'len(self.obtained_allele_likelihoods) == 1 and self.obtained_allele_likelihoods["s1"] == PA'),
    like_unit('A and G', 'len(self.obtained_allele_likelihoods) == 2 and self.obtained_allele_likelihoods["s1"] == PA and '
              'self.obtained_allele_likelihoods["s2"] == PG'),
    like_unit('other base', 'len(self.obtained_allele_likelihoods) == 0'),
]
