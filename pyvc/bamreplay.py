"""pyvc.bamreplay - build tiny synthetic BAM files from counter-model witnesses (replay on real code)."""
import os
import re
import shutil
import tempfile

FLAG_BITS = {'is_paired': 0x1, 'is_proper_pair': 0x2, 'is_unmapped': 0x4, 'mate_is_unmapped': 0x8, 'is_reverse': 0x10,
             'mate_is_reverse': 0x20, 'is_read1': 0x40, 'is_read2': 0x80, 'is_secondary': 0x100, 'is_qcfail': 0x200,
             'is_duplicate': 0x400, 'is_supplementary': 0x800}


def scratch(prefix='replay'):
    base = os.path.join(os.path.dirname(os.path.dirname(os.path.abspath(__file__))), '.scratch')
    os.makedirs(base, exist_ok=True)
    return tempfile.mkdtemp(prefix=prefix, dir=base)


def safe_name(s, default):
    s = s if isinstance(s, str) else ''
    return s if re.fullmatch(r'[A-Za-z0-9_.]+', s or '') else default


def witness_read(w):
    """model witness of stubs.make_read -> plain dict of fields and present tags."""
    a = w['attrs'] if 'attrs' in w else w
    out = {k: a.get(k) for k in list(FLAG_BITS) + ['mapping_quality', 'reference_start', 'reference_end',
                                                     'reference_name', 'query_name', 'cigarstring']}
    out['tags'] = {t: v for t, (p, v) in (a.get('_vc_tags') or {}).items() if p}
    return out


def make_segment(header, r, contig, name='q'):
    import pysam
    seg = pysam.AlignedSegment(header)
    seg.query_name = safe_name(r.get('query_name'), name)
    flag = 0
    for f, bit in FLAG_BITS.items():
        if r.get(f):
            flag |= bit
    seg.flag = flag
    if r.get('reference_start') is not None and not r.get('is_unmapped'):
        start, end = int(r['reference_start']), int(r['reference_end'])
        span = max(1, end - start)
        seg.reference_id = header.get_tid(contig)
        seg.reference_start = start
        if r.get('cigartuples'):
            seg.cigartuples = r['cigartuples']
            qlen = sum(l for op, l in r['cigartuples'] if op in (0, 1, 4, 7, 8))
        elif span <= 60:
            seg.cigartuples = [(0, span)]
            qlen = span
        else:
            seg.cigartuples = [(0, 1), (3, span - 2), (0, 1)]
            qlen = 2
        seq = r.get('query_sequence') or 'A' * qlen
        seg.query_sequence = seq
        seg.query_qualities = pysam.qualitystring_to_array(r.get('qual') or 'I' * len(seq))
        seg.mapping_quality = max(0, min(255, int(r.get('mapping_quality') or 0)))
    else:
        seq = r.get('query_sequence') or 'ACGT'
        seg.query_sequence = seq
        seg.query_qualities = pysam.qualitystring_to_array('I' * len(seq))
    for t, v in (r.get('tags') or {}).items():
        seg.set_tag(t, v)
    return seg


def write_bam(path, contigs, reads, sort=True):
    """contigs: [(name, length)], reads: list of (contig, read-dict)."""
    import pysam
    header = pysam.AlignmentHeader.from_dict({'HD': {'VN': '1.6', 'SO': 'coordinate' if sort else 'unsorted'},
                                              'SQ': [{'SN': n, 'LN': int(l)} for n, l in contigs]})
    tmp = path + '.unsorted.bam'
    with pysam.AlignmentFile(tmp, 'wb', header=header) as out:
        for i, (contig, r) in enumerate(reads):
            out.write(make_segment(header, r, contig, 'q%d' % i))
    if sort:
        pysam.sort('-o', path, tmp)
        os.unlink(tmp)
        pysam.index(path)
    else:
        os.rename(tmp, path)
    return path


def cleanup(d):
    shutil.rmtree(d, ignore_errors=True)
