"""pyvc.blockreplay - run a block of a real function natively (replay of block contracts): the statements are
taken from the current /repo AST (same selector as the proof), wrapped in a function whose parameters are the
block's free variables, compiled and executed with the real module's globals."""
import ast
import importlib
import sys

from .loader import Loader, REPO


def run_block(relpath, qualname, selector, env):
    """-> (yields list or None, final locals dict, exception or None)"""
    loader = Loader()
    m, fnode, cls = loader.find(relpath, qualname)
    stmts = selector(fnode)
    if not stmts:
        raise RuntimeError('block anchor not found')
    if REPO not in sys.path:
        sys.path.insert(0, REPO)
    mod = importlib.import_module(relpath[:-3].replace('/', '.'))
    is_gen = any(isinstance(n, (ast.Yield, ast.YieldFrom)) for st in stmts for n in ast.walk(st))
    names = sorted(env)
    has_loop_ctl = any(isinstance(n, (ast.Continue, ast.Break)) for st in stmts for n in ast.walk(st))
    if has_loop_ctl:
        stmts = [ast.For(target=ast.Name(id='__once__', ctx=ast.Store()), iter=ast.Tuple(elts=[ast.Constant(0)], ctx=ast.Load()),
                         body=list(stmts), orelse=[], type_comment=None)]
    body = [ast.Try(body=list(stmts),
                    handlers=[],
                    orelse=[],
                    finalbody=[ast.parse('__final__.update(locals())').body[0]])]
    fdef = ast.FunctionDef(name='__blk', args=ast.arguments(posonlyargs=[], args=[ast.arg(arg=n) for n in names],
                                                             kwonlyargs=[], kw_defaults=[], defaults=[]),
                           body=body, decorator_list=[], type_params=[])
    module = ast.Module(body=[fdef], type_ignores=[])
    ast.fix_missing_locations(module)
    g = dict(mod.__dict__)
    final = {}
    g['__final__'] = final
    exec(compile(module, '<block of %s::%s>' % (relpath, qualname), 'exec'), g)
    exc = None
    ys = None
    try:
        r = g['__blk'](*[env[n] for n in names])
        if is_gen:
            ys = list(r)
    except Exception as e:      # noqa
        exc = e
    return ys, final, exc
