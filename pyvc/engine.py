"""pyvc.engine - symbolic executor / VC generator for a subset of Python ("PyV").

The executor interprets the *real* AST of functions in /repo (re-read on every run) over
values that are either native Python values (concrete) or `Sym` (a z3 term with a Python
type).  A symbolic branch is resolved by a decision schedule; the driver re-executes the
function once per feasible path (replay-based DFS), so the interpreter is written in
direct style and uses native Python objects for the heap of one path.

Obligations are recorded with `check(name, goal)`: (path condition, goal) pairs that the
driver discharges with z3 (and cvc5 for `unknown`).  Semantics assumed are listed in
DESIGN.md section 2.2 / 4 (A2, A3).
"""
import ast
import itertools
import operator
from fractions import Fraction

import z3

# ----------------------------------------------------------------------------- values

INT, BOOL, REAL, STR = 'int', 'bool', 'real', 'str'
_SORT = {INT: z3.IntSort, BOOL: z3.BoolSort, REAL: z3.RealSort, STR: z3.StringSort}


class Sym:
    """Immutable symbolic scalar: z3 term + python type tag."""
    __slots__ = ('z', 't', 'ratio', 'src', 'parts')

    def __init__(self, z, t, ratio=None, src=None):
        self.z = z
        self.t = t
        self.ratio = ratio      # (int numerator, int denominator) when this real is a quotient of two ints
        self.src = src          # for str(int): the integer term it was formatted from (int(str(i)) == i exactly)
        self.parts = None       # segment representation of a concatenated string (pyvc.segstr)

    def __repr__(self):
        return 'Sym<%s:%s>' % (self.t, self.z)

    def __deepcopy__(self, memo):
        return self

    def __hash__(self):
        return hash((self.t, self.z.get_id()))

    def __bool__(self):
        raise Unsupported('python truth value of a symbolic term taken outside branch()')


_fresh_counter = itertools.count()


def fresh(t, name='v'):
    n = '%s!%d' % (name, next(_fresh_counter))
    return Sym(z3.Const(n, _SORT[t]()), t)


def named(t, name):
    return Sym(z3.Const(name, _SORT[t]()), t)


class Unsupported(Exception):
    pass


class PyRaise(Exception):
    """A Python exception raised by the interpreted program."""

    def __init__(self, etype, msg=None, node=None):
        Exception.__init__(self, etype)
        self.etype = etype
        self.msg = msg
        self.node = node


class _Return(Exception):
    def __init__(self, value):
        self.value = value


class _Break(Exception):
    pass


class _Continue(Exception):
    pass


class PathEnd(Exception):
    """Path ends silently (infeasible, or inductive loop step finished)."""


ANY_ERROR_CLASSES = ('ValueError', 'OSError', 'IOError', 'RuntimeError', 'KeyError', 'IndexError', 'LookupError', 'TypeError',
                     'ArithmeticError', 'AttributeError', 'AssertionError')
EXC_PARENTS = {
    'AnyError': 'Exception', 'TimeoutError': 'OSError',
    'Exception': 'BaseException', 'ArithmeticError': 'Exception', 'ZeroDivisionError': 'ArithmeticError',
    'OverflowError': 'ArithmeticError', 'LookupError': 'Exception', 'IndexError': 'LookupError',
    'KeyError': 'LookupError', 'ValueError': 'Exception', 'TypeError': 'Exception',
    'AttributeError': 'Exception', 'StopIteration': 'Exception', 'OSError': 'Exception',
    'IOError': 'OSError', 'FileNotFoundError': 'OSError', 'AssertionError': 'Exception',
    'NotImplementedError': 'RuntimeError', 'RuntimeError': 'Exception', 'NameError': 'Exception',
    'UnboundLocalError': 'NameError', 'KeyboardInterrupt': 'BaseException', 'SystemExit': 'BaseException',
    'UnicodeDecodeError': 'ValueError',
}


def exc_isa(etype, cls, extra=None):
    seen = 0
    par = dict(EXC_PARENTS)
    if extra:
        par.update(extra)
    while etype is not None and seen < 20:
        if etype == cls:
            return True
        etype = par.get(etype)
        seen += 1
    return False


class Obj:
    """Heap object: class name (+ ClassInfo when it is a repo class) and attribute table."""

    def __init__(self, cls, attrs=None, info=None):
        self.cls = cls
        self.attrs = attrs if attrs is not None else {}
        self.info = info

    def __repr__(self):
        return 'Obj<%s %s>' % (self.cls, sorted(self.attrs))


class SymSeq:
    """Sequence of unbounded symbolic length: length term + one z3 array per column.
    arity None -> scalar elements (one column); arity n -> tuples of n scalars."""

    def __init__(self, n, cols, types, arity=None):
        self.n = n
        self.cols = list(cols)
        self.types = list(types)
        self.arity = arity

    @staticmethod
    def fresh(types, arity=None, name='seq', n=None):
        k = next(_fresh_counter)
        cols = [z3.Array('%s!%d.%d' % (name, k, i), z3.IntSort(), _SORT[t]()) for i, t in enumerate(types)]
        if n is None:
            n = z3.Int('%s!%d.len' % (name, k))
        return SymSeq(n, cols, types, arity)

    @staticmethod
    def empty(types, arity=None, name='Y'):
        s = SymSeq.fresh(types, arity, name, n=z3.IntVal(0))
        return s

    def get(self, k):
        kz = k.z if isinstance(k, Sym) else z3.IntVal(k) if isinstance(k, int) else k
        vals = [Sym(z3.Select(c, kz), t) for c, t in zip(self.cols, self.types)]
        if self.arity is None:
            return vals[0]
        return tuple(vals)

    def concat(self, other):
        if self.types != other.types or self.arity != other.arity:
            raise Unsupported('concatenation of sequences with different element shapes')
        k = z3.Int('k!cat%d' % next(_fresh_counter))
        cols = [z3.Lambda([k], z3.If(k < self.n, z3.Select(a, k), z3.Select(b, k - self.n)))
                for a, b in zip(self.cols, other.cols)]
        return SymSeq(self.n + other.n, cols, self.types, self.arity)

    def vc_sorted(self, eng, kwargs):
        """sorted(seq): assumed contract (A4) - a permutation of seq in non-decreasing (lexicographic) order,
        stated for all pairs i < j; permutation through a bijection pi with inverse."""
        if kwargs:
            raise Unsupported('sorted() with key/reverse on an unbounded sequence')
        res = SymSeq.fresh(self.types, self.arity, 'sorted', n=self.n)
        k = next(_fresh_counter)
        pi = z3.Function('pi!%d' % k, z3.IntSort(), z3.IntSort())
        inv = z3.Function('pi_inv!%d' % k, z3.IntSort(), z3.IntSort())
        i, j = z3.Ints('i!s%d j!s%d' % (k, k))
        rng = lambda x: z3.And(x >= 0, x < self.n)
        same = z3.And(*[z3.Select(a, i) == z3.Select(b, pi(i)) for a, b in zip(res.cols, self.cols)])
        eng.assume(z3.ForAll([i], z3.Implies(rng(i), z3.And(rng(pi(i)), inv(pi(i)) == i, same))))
        eng.assume(z3.ForAll([i], z3.Implies(rng(i), z3.And(rng(inv(i)), pi(inv(i)) == i))))

        def le(a_idx, b_idx):
            # lexicographic <= over the leading numeric columns; the order among elements that tie on them is left
            # unspecified (a weaker assumption than python's full tuple order: sound, and free of string comparisons)
            cols = []
            for c, t in zip(res.cols, res.types):
                if t == STR:
                    break
                cols.append(c)
            expr = z3.BoolVal(True)
            for c in reversed(cols):
                x, y = z3.Select(c, a_idx), z3.Select(c, b_idx)
                expr = z3.Or(x < y, z3.And(x == y, expr))
            return expr
        eng.assume(z3.ForAll([i, j], z3.Implies(z3.And(rng(i), rng(j), i < j), le(i, j))))
        eng.trusted_used.add('sorted (permutation, ascending)')
        return res

    def append(self, v):
        vals = [v] if self.arity is None else list(v)
        if len(vals) != len(self.cols):
            raise Unsupported('yield/append arity mismatch on SymSeq')
        cols = [z3.Store(c, self.n, zterm(x, t)) for c, x, t in zip(self.cols, vals, self.types)]
        return SymSeq(self.n + 1, cols, self.types, self.arity)


class DiscardYields:
    """Generator output that is only observed through per-yield checks (objects are not stored); when a counting
    abstraction key X is set (spec_env['X']) the number of yielded task tuples equal to X is tracked (ycount())."""

    def __init__(self):
        self.count = 0
        self.keycount = z3.IntVal(0)

    def vc_havoc_inplace(self, eng, name):
        self.keycount = z3.Int('ycount!%d' % next(_fresh_counter))
        eng.assume(self.keycount >= 0)


class ModRef:
    """Reference to an external (non-repo) module or a dotted attribute of it."""

    def __init__(self, dotted):
        self.dotted = dotted

    def __repr__(self):
        return 'ModRef<%s>' % self.dotted


class FuncRef:
    """A repo function (module info + FunctionDef) optionally bound to self."""

    def __init__(self, mod, node, qualname, bound=None, cls=None, closure=None):
        self.mod = mod
        self.node = node
        self.qualname = qualname
        self.bound = bound
        self.cls = cls
        self.closure = closure


class ClassRef:
    def __init__(self, mod, node, qualname):
        self.mod = mod
        self.node = node
        self.qualname = qualname
        self.name = node.name


class Builtin:
    def __init__(self, name, fn):
        self.name = name
        self.fn = fn


class BoundMethod:
    """Method of a native/stub value: callable(engine, args, kwargs)."""

    def __init__(self, name, fn):
        self.name = name
        self.fn = fn


class SuperProxy:
    """super() of a method frame: (the instance, the class whose method is running)"""

    def __init__(self, obj, after):
        self.obj, self.after = obj, after


class GenResult:
    """Result of calling a generator function that was executed eagerly: its yields."""

    def __init__(self, items):
        self.items = items   # python list or SymSeq


# ----------------------------------------------------------------------------- z3 helpers

def is_sym(v):
    return isinstance(v, Sym)


def pytype(v):
    if isinstance(v, Sym):
        return v.t
    if isinstance(v, bool):
        return BOOL
    if isinstance(v, int):
        return INT
    if isinstance(v, (float, Fraction)):
        return REAL
    if isinstance(v, str):
        return STR
    if v is None:
        return 'none'
    return type(v).__name__


def zterm(v, t=None):
    """z3 term for a scalar value (concrete or symbolic), coerced to type t if given."""
    if isinstance(v, Sym):
        z = v.z
        vt = v.t
    elif isinstance(v, bool):
        z, vt = z3.BoolVal(v), BOOL
    elif isinstance(v, int):
        z, vt = z3.IntVal(v), INT
    elif isinstance(v, Fraction):
        z, vt = z3.RealVal(v), REAL
    elif isinstance(v, float):
        z, vt = z3.RealVal(Fraction(v)), REAL
    elif isinstance(v, str):
        z, vt = z3.StringVal(v), STR
    else:
        raise Unsupported('no z3 term for %r' % (v,))
    if t is None or t == vt:
        return z
    if t == REAL and vt == INT:
        return z3.ToReal(z)
    if t == REAL and vt == BOOL:
        return z3.If(z, z3.RealVal(1), z3.RealVal(0))
    if t == INT and vt == BOOL:
        return z3.If(z, z3.IntVal(1), z3.IntVal(0))
    if t == BOOL and vt == INT:
        return z != 0
    raise Unsupported('cannot coerce %s to %s' % (vt, t))


def zfloor(r):
    return z3.ToInt(r)


def zceil(r):
    return -z3.ToInt(-r)


def ztrunc(r):
    return z3.If(r >= 0, z3.ToInt(r), -z3.ToInt(-r))


def ratio_floor(v):
    a, b = v.ratio
    return zfloordiv(a, b)


def ratio_ceil(v):
    a, b = v.ratio
    return -zfloordiv(-a, b)


def ratio_trunc(v):
    a, b = v.ratio
    nonneg = z3.Or(z3.And(a >= 0, b > 0), z3.And(a <= 0, b < 0))
    return z3.If(nonneg, zfloordiv(a, b), -zfloordiv(-a, b))


def zfloordiv(a, b):
    # python floor division on ints; z3 div is floor for positive divisors
    return z3.If(b > 0, a / b, (-a) / (-b))


def zmod(a, b):
    return a - b * zfloordiv(a, b)


def simp_bool(c):
    c = z3.simplify(c)
    if z3.is_true(c):
        return True
    if z3.is_false(c):
        return False
    return c


def concretize(v):
    """Sym with a literal value -> python value (else unchanged)."""
    if isinstance(v, Sym):
        z = z3.simplify(v.z)
        if v.t == INT and z3.is_int_value(z):
            return z.as_long()
        if v.t == BOOL and (z3.is_true(z) or z3.is_false(z)):
            return z3.is_true(z)
        if v.t == STR and z3.is_string_value(z):
            return z.as_string()
        if v.t == REAL and z3.is_rational_value(z):
            return Fraction(z.numerator_as_long(), z.denominator_as_long())
        r = Sym(z, v.t, v.ratio, v.src)
        r.parts = v.parts
        return r
    return v


# ----------------------------------------------------------------------------- obligations

class Obligation:
    def __init__(self, name, pc, goal, kind, info=None):
        self.name = name
        self.pc = pc
        self.goal = goal
        self.kind = kind
        self.info = info or {}


# ----------------------------------------------------------------------------- engine

class Unknown:
    """an arbitrary value of unknown shape (loop-carried container without invariant): comparisons and len() are arbitrary,
    looking inside is unsupported"""

    def __init__(self, name):
        self.name = name

    def vc_eq(self, eng, other):
        return fresh(BOOL, 'eq_' + self.name).z

    def vc_len(self, eng):
        n = fresh(INT, 'len_' + self.name)
        eng.assume(n.z >= 0)
        return n

    def vc_snapshot(self):
        return self

    def vc_getattr(self, eng, attr, node=None):
        raise Unsupported('attribute %s of the loop-carried value %s (declare it in LoopSpec.types)' % (attr, self.name))

    def vc_iter(self, eng):
        raise Unsupported('iteration over the loop-carried value %s (declare it in LoopSpec.types)' % self.name)


class LoopSpec:
    """Inductive loop contract.  inv: list of (name, expr-string); k: name of the ghost
    iteration counter visible to the invariants; types: types for variables first
    assigned inside the loop {name: 'int'|...}; extra_havoc: names to havoc in addition to
    the syntactically assigned ones."""

    def __init__(self, inv, k='k', types=None, extra_havoc=(), facts=(), exit=None, body_post=None, hints=None,
                 head_hook=None, peel=False, body_post_on_break=True, it=None, must_exhaust=False):
        self.must_exhaust = must_exhaust         # the property needs every element to be visited: a feasible `break` is a failure
        self.it = it                             # spec-level name of the loop's iterable (e.g. 'BINS')
        self.body_post_on_break = body_post_on_break   # an iteration that ends in `break` is an iteration: body_post is owed
        self.inv = list(inv.items()) if isinstance(inv, dict) else list(inv)
        self.exit = dict(exit or {})
        self.body_post = dict(body_post or {})   # checked at the end of every iteration (Y0 = output at loop head)
        self.hints = dict(hints or {})           # proved (own obligation) right after the invariant is assumed, then used
        self.head_hook = head_hook               # fn(engine, frame): ghost bookkeeping at the head of the arbitrary iteration
        self.peel = peel                         # run the first iteration from the real entry state (variables that are None
        #                                          before the loop), the inductive step then covers k >= 1 only
        self.k = k
        self.types = types or {}
        self.extra_havoc = tuple(extra_havoc)
        self.facts = tuple(facts)


class Frame:
    def __init__(self, func, mod, env, closure=None):
        self.func = func
        self.mod = mod
        self.env = env
        self.closure = closure
        self.yields = None      # SymSeq when the function is a generator
        self.loop_ordinal = 0
        self.loopspecs = {}
        self.is_top = False


class Engine:
    def __init__(self, loader, stubs=None, feas_timeout_ms=600):
        self.loader = loader
        self.stubs = stubs or {}
        self.feas_timeout_ms = feas_timeout_ms
        self.solver = z3.Solver()
        self.solver.set('timeout', feas_timeout_ms)
        self.reset_path([])
        self.pure = 0
        self.callee_contracts = {}    # qualname -> contract used at call sites
        self.inline = set()
        self.trusted_used = set()
        self.extra_exc = {}
        self.spec_env = {}
        self.depth = 0
        self.ghost = {}
        self.witness = {}         # named arbitrary objects/values created by stubs (reported in counter-models)

    # ---- path management
    def reset_path(self, schedule):
        self.schedule = list(schedule)
        self.alts = getattr(self, 'alts', [])[:len(self.schedule)]
        while len(self.alts) < len(self.schedule):
            self.alts.append(False)
        self.pos = 0
        self.pc = []
        self.obligations = []
        self.solver.reset()
        self.solver.set('timeout', self.feas_timeout_ms)
        self.notes = []

    def feasible(self, c):
        self.solver.push()
        self.solver.add(c)
        r = self.solver.check()
        self.solver.pop()
        return r != z3.unsat

    def fixed_length(self, p, limit=64):
        """the length of a symbolic string when the path condition determines it (bounded units), else None"""
        if self.solver.check() != z3.sat:
            return None
        v = self.solver.model().eval(z3.Length(p.z), model_completion=True)
        if not z3.is_int_value(v) or v.as_long() > limit:
            return None
        n = v.as_long()
        return n if not self.feasible(z3.Length(p.z) != n) else None

    def assume(self, c):
        if isinstance(c, Sym):
            c = zterm(c, BOOL)
        if c is True:
            return
        if c is False:
            raise PathEnd()
        s = simp_bool(c)
        if s is True:
            return
        if s is False:
            raise PathEnd()
        self.pc.append(c)
        self.solver.add(c)

    def assume_feasible(self, c):
        self.assume(c)
        if self.solver.check() == z3.unsat:
            raise PathEnd()

    def branch(self, c):
        """Decide a (possibly symbolic) condition on this path."""
        if isinstance(c, Sym):
            c = zterm(c, BOOL)
        if isinstance(c, bool):
            return c
        s = simp_bool(c)
        if isinstance(s, bool):
            return s
        if self.pure:
            raise Unsupported('branch on symbolic condition in pure (spec) mode')
        if self.pos < len(self.schedule):
            d = self.schedule[self.pos]
        else:
            t_ok = self.feasible(s)
            f_ok = self.feasible(z3.Not(s))
            if t_ok and f_ok:
                d = True
                self.schedule.append(True)
                self.alts.append(True)
            elif t_ok:
                d = True
                self.schedule.append(True)
                self.alts.append(False)
            elif f_ok:
                d = False
                self.schedule.append(False)
                self.alts.append(False)
            else:
                raise PathEnd()
        self.pos += 1
        lit = s if d else z3.Not(s)
        self.pc.append(lit)
        self.solver.add(lit)
        return d

    def next_schedule(self):
        """Backtrack: flip the deepest decision that still has an unexplored alternative."""
        i = len(self.schedule) - 1
        while i >= 0:
            if self.alts[i] and self.schedule[i] is True:
                self.schedule = self.schedule[:i] + [False]
                self.alts = self.alts[:i] + [False]
                return True
            i -= 1
        return False

    def check(self, name, goal, kind='assert', info=None):
        """Record an obligation pc => goal, then assume goal."""
        if isinstance(goal, Sym):
            goal = zterm(goal, BOOL)
        if isinstance(goal, bool):
            goal = z3.BoolVal(goal)
        self.obligations.append(Obligation(name, list(self.pc), goal, kind, info))
        try:
            self.assume(goal)
        except PathEnd:
            # goal is literally False under pc: obligation recorded; path cannot continue
            raise

    # ---- truthiness and scalar ops
    def truth(self, v):
        """python truth value as python bool or z3 Bool."""
        if isinstance(v, Sym):
            if v.t == BOOL:
                return v.z
            if v.t == INT:
                return v.z != 0
            if v.t == REAL:
                return v.z != 0
            if v.t == STR:
                return z3.Length(v.z) > 0
        if isinstance(v, SymSeq):
            return v.n > 0
        if hasattr(v, 'vc_truth'):
            return v.vc_truth()
        if isinstance(v, Obj):
            if v.info is not None and self.find_method(v, '__len__') is not None:
                return self.truth(self.call_method(v, '__len__', [], {}))
            return True
        if isinstance(v, (FuncRef, ClassRef, ModRef, Builtin, BoundMethod)):
            return True
        if isinstance(v, GenResult):
            return True
        return bool(v)

    def test(self, v):
        """Truth test of a value in code mode -> python bool (branching if needed)."""
        return self.branch(self.truth(v))

    def ztruth(self, v):
        t = self.truth(v)
        return z3.BoolVal(t) if isinstance(t, bool) else t

    def binop(self, op, a, b, node=None):
        a = concretize(a)
        b = concretize(b)
        if hasattr(a, 'vc_binop'):
            return a.vc_binop(self, op, b, False, node)
        if hasattr(b, 'vc_binop'):
            return b.vc_binop(self, op, a, True, node)
        if not is_sym(a) and not is_sym(b) and not isinstance(a, (SymSeq, Obj)) and not isinstance(b, (SymSeq, Obj)):
            return self.native_binop(op, a, b, node)
        ta, tb = pytype(a), pytype(b)
        if isinstance(op, ast.Add) and (isinstance(a, (tuple, list)) and isinstance(b, (tuple, list))):
            return a + b
        if isinstance(op, ast.Mult) and isinstance(a, (list, tuple)) and ta in ('list', 'tuple'):
            raise Unsupported('sequence repetition with symbolic count')
        if ta == STR or tb == STR:
            return self.str_binop(op, a, b, node)
        num = {INT, BOOL, REAL}
        if ta in num and tb in num:
            if ta == REAL or tb == REAL or isinstance(op, ast.Div):
                rt = REAL
            else:
                rt = INT
            if isinstance(op, (ast.FloorDiv, ast.Mod)) and rt == INT:
                za, zb = zterm(a, INT), zterm(b, INT)
                if self.zero_check(zb):
                    raise PyRaise('ZeroDivisionError', node=node)
                return Sym(zfloordiv(za, zb) if isinstance(op, ast.FloorDiv) else zmod(za, zb), INT)
            za, zb = zterm(a, rt), zterm(b, rt)
            if isinstance(op, ast.Add):
                return Sym(za + zb, rt)
            if isinstance(op, ast.Sub):
                return Sym(za - zb, rt)
            if isinstance(op, ast.Mult):
                return Sym(za * zb, rt)
            if isinstance(op, ast.Div):
                if self.zero_check(zb):
                    raise PyRaise('ZeroDivisionError', node=node)
                ratio = None
                if ta in (INT, BOOL) and tb in (INT, BOOL):
                    ratio = (zterm(a, INT), zterm(b, INT))
                return Sym(za / zb, REAL, ratio)
            if isinstance(op, ast.FloorDiv):
                if self.zero_check(zb):
                    raise PyRaise('ZeroDivisionError', node=node)
                return Sym(z3.ToReal(z3.ToInt(za / zb)), REAL)
            if isinstance(op, ast.Pow) and isinstance(b, int) and 0 <= b <= 4:
                r = zterm(1, rt)
                for _ in range(b):
                    r = r * za
                return Sym(r, rt)
        raise Unsupported('binop %s on %s,%s' % (type(op).__name__, ta, tb))

    def zero_check(self, zb):
        """True when the divisor is zero on this path (caller raises ZeroDivisionError)."""
        if self.strict:
            self.guarded_must_hold(zb != 0)
            return False
        if self.pure:
            return False
        return self.branch(zb == 0)

    def native_binop(self, op, a, b, node=None):
        fn = {ast.Add: operator.add, ast.Sub: operator.sub, ast.Mult: operator.mul, ast.Div: None,
              ast.FloorDiv: operator.floordiv, ast.Mod: operator.mod, ast.Pow: operator.pow,
              ast.BitAnd: operator.and_, ast.BitOr: operator.or_, ast.BitXor: operator.xor,
              ast.LShift: operator.lshift, ast.RShift: operator.rshift}[type(op)]
        try:
            if isinstance(op, ast.Div):
                if isinstance(a, (int, Fraction)) and isinstance(b, (int, Fraction)) and not isinstance(a, bool):
                    if b == 0:
                        raise ZeroDivisionError()
                    return Fraction(a) / Fraction(b)
                if isinstance(a, float) or isinstance(b, float):
                    return Fraction(a) / Fraction(b)
                return a / b
            if isinstance(a, float):
                a = Fraction(a)
            if isinstance(b, float):
                b = Fraction(b)
            return fn(a, b)
        except ZeroDivisionError:
            raise PyRaise('ZeroDivisionError', node=node)
        except TypeError as e:
            raise PyRaise('TypeError', str(e), node=node)

    def str_binop(self, op, a, b, node=None):
        ta, tb = pytype(a), pytype(b)
        if isinstance(op, ast.Add) and ta == STR and tb == STR:
            from . import segstr
            return segstr.concat(a, b)
        if isinstance(op, ast.Add):
            raise PyRaise('TypeError', 'str + %s' % tb, node=node)
        if isinstance(op, ast.Mult) and isinstance(a, str) and tb in (INT, BOOL) and len(a) >= 1:
            # 'lit' * n for a symbolic n: a fresh string of the right length and content (lit)*
            n = zterm(b, INT)
            r = fresh(STR, 'repeat')
            self.assume(z3.Length(r.z) == z3.If(n > 0, n, 0) * len(a))
            self.assume(z3.InRe(r.z, z3.Star(z3.Re(z3.StringVal(a)))))
            return r
        raise Unsupported('string binop %s' % type(op).__name__)

    def compare(self, op, a, b, node=None):
        """-> python bool or z3 Bool"""
        a = concretize(a)
        b = concretize(b)
        if isinstance(op, (ast.Is, ast.IsNot)):
            r = self.is_same(a, b)
            if isinstance(op, ast.IsNot):
                r = (not r) if isinstance(r, bool) else z3.Not(r)
            return r
        if isinstance(op, (ast.In, ast.NotIn)):
            r = self.contains(b, a, node)
            if isinstance(op, ast.NotIn):
                r = (not r) if isinstance(r, bool) else z3.Not(r)
            return r
        if isinstance(op, (ast.Eq, ast.NotEq)):
            r = self.equals(a, b)
            if isinstance(op, ast.NotEq):
                r = (not r) if isinstance(r, bool) else z3.Not(r)
            return r
        return self.order(op, a, b, node)

    def is_same(self, a, b):
        if a is None or b is None:
            if a is None and b is None:
                return True
            return False   # a Sym is never None (optional inputs are split into cases)
        if is_sym(a) or is_sym(b):
            if pytype(a) == BOOL and pytype(b) == BOOL:
                return zterm(a, BOOL) == zterm(b, BOOL)
            raise Unsupported('`is` on symbolic non-bool values')
        # type(<stub object of an external class X>) is <module>.X
        for x, y in ((a, b), (b, a)):
            tags = getattr(x, 'tags', None)
            if tags and isinstance(tags, tuple) and isinstance(tags[0], str) and tags[0].startswith('stub:'):
                if isinstance(y, ModRef):
                    return y.dotted.split('.')[-1] == tags[0][5:]
                if isinstance(y, Builtin) and not getattr(y, 'tags', None) and '.' in getattr(y, 'name', ''):
                    return y.name.split('.')[-1] == tags[0][5:]
        return a is b or (isinstance(a, (bool, int, str)) and type(a) is type(b) and a == b and isinstance(a, bool))

    def equals(self, a, b):
        if hasattr(a, 'vc_eq'):
            return a.vc_eq(self, b)
        if hasattr(b, 'vc_eq'):
            return b.vc_eq(self, a)
        if not self._has_sym(a) and not self._has_sym(b):
            if isinstance(a, Obj) or isinstance(b, Obj):
                return self.obj_equals(a, b)
            if isinstance(a, float):
                a = Fraction(a)
            if isinstance(b, float):
                b = Fraction(b)
            return a == b
        ta, tb = pytype(a), pytype(b)
        if ta in ('tuple', 'list') and tb == ta:
            if len(a) != len(b):
                return False
            parts = [self.equals(x, y) for x, y in zip(a, b)]
            if any(p is False for p in parts):
                return False
            parts = [p for p in parts if p is not True]
            if not parts:
                return True
            return z3.And(*parts) if len(parts) > 1 else parts[0]
        if ta in ('tuple', 'list') or tb in ('tuple', 'list'):
            return False
        if a is None or b is None:
            return False
        if isinstance(a, Obj) or isinstance(b, Obj):
            return self.obj_equals(a, b)
        num = {INT, BOOL, REAL}
        if ta in num and tb in num:
            rt = REAL if REAL in (ta, tb) else (INT if INT in (ta, tb) else BOOL)
            return zterm(a, rt) == zterm(b, rt)
        if ta == STR and tb == STR:
            return zterm(a, STR) == zterm(b, STR)
        if (ta == STR) != (tb == STR):
            return False
        raise Unsupported('== on %s,%s' % (ta, tb))

    def obj_equals(self, a, b):
        if isinstance(a, Obj) and a.info is not None and self.find_method(a, '__eq__') is not None:
            return self.truth(self.call_method(a, '__eq__', [b], {}))
        if isinstance(b, Obj) and b.info is not None and self.find_method(b, '__eq__') is not None:
            return self.truth(self.call_method(b, '__eq__', [a], {}))
        return a is b

    def _has_sym(self, v):
        if isinstance(v, (Sym, SymSeq)):
            return True
        if isinstance(v, (tuple, list)):
            return any(self._has_sym(x) for x in v)
        return False

    def order(self, op, a, b, node=None):
        if hasattr(a, 'vc_order'):
            return a.vc_order(self, op, b, False, node)
        if hasattr(b, 'vc_order'):
            return b.vc_order(self, op, a, True, node)
        if not self._has_sym(a) and not self._has_sym(b):
            if a is None or b is None:
                raise PyRaise('TypeError', 'ordering with None', node=node)
            fn = {ast.Lt: operator.lt, ast.LtE: operator.le, ast.Gt: operator.gt, ast.GtE: operator.ge}[type(op)]
            if isinstance(a, float):
                a = Fraction(a)
            if isinstance(b, float):
                b = Fraction(b)
            try:
                return fn(a, b)
            except TypeError as e:
                raise PyRaise('TypeError', str(e), node=node)
        ta, tb = pytype(a), pytype(b)
        if a is None or b is None:
            raise PyRaise('TypeError', 'ordering with None', node=node)
        num = {INT, BOOL, REAL}
        if ta in num and tb in num:
            rt = REAL if REAL in (ta, tb) else INT
            za, zb = zterm(a, rt), zterm(b, rt)
            return {ast.Lt: za < zb, ast.LtE: za <= zb, ast.Gt: za > zb, ast.GtE: za >= zb}[type(op)]
        if ta == STR and tb == STR:
            za, zb = zterm(a, STR), zterm(b, STR)
            return {ast.Lt: za < zb, ast.LtE: za <= zb, ast.Gt: zb < za, ast.GtE: zb <= za}[type(op)]
        if ta == 'tuple' and tb == 'tuple':
            # lexicographic, evaluated lazily: later components are only compared when the earlier ones can be equal
            strict_lt = ast.Lt() if isinstance(op, (ast.Lt, ast.LtE)) else ast.Gt()

            def lex(i):
                if i >= len(a) or i >= len(b):
                    r = (len(a) < len(b)) if isinstance(op, ast.Lt) else (len(a) <= len(b)) if isinstance(op, ast.LtE) \
                        else (len(a) > len(b)) if isinstance(op, ast.Gt) else (len(a) >= len(b))
                    return r
                e = self.equals(a[i], b[i])
                if e is True:
                    return lex(i + 1)
                l = self.order(strict_lt, a[i], b[i], node)
                if e is False:
                    return l
                rest = lex(i + 1)
                l = z3.BoolVal(l) if isinstance(l, bool) else l
                rest = z3.BoolVal(rest) if isinstance(rest, bool) else rest
                return z3.Or(l, z3.And(e, rest))
            return lex(0)
        raise Unsupported('ordering on %s,%s' % (ta, tb))

    def contains(self, container, item, node=None):
        if container is None:
            raise PyRaise('TypeError', "argument of type 'NoneType' is not iterable", node=node)
        if isinstance(container, (list, tuple, set, frozenset)):
            if not self._has_sym(item) and not any(self._has_sym(x) for x in container):
                try:
                    return item in container
                except TypeError:
                    raise PyRaise('TypeError', node=node)
            parts = []
            for x in container:
                e = self.equals(x, item)
                if e is True:
                    return True
                if e is not False:
                    parts.append(e)
            return z3.Or(*parts) if parts else False
        if isinstance(container, dict):
            if is_sym(item):
                parts = []
                for k in container:
                    e = self.equals(k, item)
                    if e is True:
                        return True
                    if e is not False:
                        parts.append(e)
                return z3.Or(*parts) if parts else False
            try:
                return item in container
            except TypeError:
                raise PyRaise('TypeError', node=node)
        if pytype(container) == STR:
            if pytype(item) != STR:
                raise PyRaise('TypeError', 'in <string> requires string', node=node)
            if not is_sym(container) and not is_sym(item):
                return item in container
            return z3.Contains(zterm(container, STR), zterm(item, STR))
        if isinstance(container, Obj):
            m = self.find_method(container, '__contains__')
            if m is not None:
                return self.truth(self.call_method(container, '__contains__', [item], {}))
            h = self.stub_method(container, '__contains__')
            if h is not None:
                return self.truth(h(self, [item], {}))
        if hasattr(container, 'vc_contains'):
            return container.vc_contains(self, item)
        if isinstance(container, GenResult) and isinstance(container.items, list):
            # `x in <generator>` consumes the generator up to and including the first match (all of it without one)
            items = container.items
            for i, y in enumerate(items):
                e = self.equals(y, item)
                if e is True or (e is not False and self.branch(e)):
                    container.items = items[i + 1:]
                    return True
            container.items = []
            return False
        # (membership consumes in specifications as well: a clause that asks twice sees what a caller asking twice sees)
        raise Unsupported('`in` on %s' % pytype(container))

    # ---- ite on values
    def ite(self, c, a, b):
        if isinstance(c, bool):
            return a if c else b
        if a is b or (a is None and b is None):
            return a
        if not is_sym(a) and not is_sym(b) and isinstance(a, (int, str, bool)) and type(a) is type(b) and a == b:
            return a
        ta, tb = pytype(a), pytype(b)
        if ta == 'tuple' and tb == 'tuple' and len(a) == len(b):
            return tuple(self.ite(c, x, y) for x, y in zip(a, b))
        num = {INT, BOOL, REAL}
        if ta in num and tb in num:
            rt = ta if ta == tb else (REAL if REAL in (ta, tb) else INT)
            return Sym(z3.If(c, zterm(a, rt), zterm(b, rt)), rt)
        if ta == STR and tb == STR:
            return Sym(z3.If(c, zterm(a, STR), zterm(b, STR)), STR)
        # fall back to branching
        return a if self.branch(c) else b

    # ---- names
    def lookup(self, name, frame, node=None):
        if name in frame.env:
            return frame.env[name]
        cl = frame.closure
        while cl is not None:
            if name in cl.env:
                return cl.env[name]
            cl = cl.closure
        if name in self.spec_env:
            return self.spec_env[name]
        v = frame.mod.resolve_global(name, self)
        if v is not _MISSING:
            return v
        if name in self.builtins():
            return self.builtins()[name]
        if name == '__file__':
            return getattr(frame.mod, 'path', None) or '<module>'
        if name == '__name__':
            return getattr(frame.mod, 'dotted', '<module>')
        raise Unsupported('unresolved name %r in %s' % (name, frame.func))

    _builtins = None

    def builtins(self):
        if Engine._builtins is None:
            from . import builtins as B
            Engine._builtins = B.make_builtins()
        return Engine._builtins

    def rebind(self, fr, name, value):
        f = fr
        while f is not None:
            if name in f.env:
                f.env[name] = value
                return
            f = f.closure
        fr.env[name] = value

    def lookup_or_missing(self, name, fr):
        try:
            return self.lookup(name, fr)
        except Unsupported:
            return _MISSING

    # ---- expression evaluation
    def eval(self, node, fr):
        m = getattr(self, 'e_' + type(node).__name__, None)
        if m is None:
            raise Unsupported('expression %s at line %s' % (type(node).__name__, getattr(node, 'lineno', '?')))
        return m(node, fr)

    def e_Constant(self, node, fr):
        v = node.value
        if isinstance(v, float):
            return Fraction(v)
        return v

    def e_Name(self, node, fr):
        return self.lookup(node.id, fr, node)

    def e_Tuple(self, node, fr):
        out = []
        for e in node.elts:
            if isinstance(e, ast.Starred):
                out.extend(self.iterate_concrete(self.eval(e.value, fr)))
            else:
                out.append(self.eval(e, fr))
        return tuple(out)

    def e_List(self, node, fr):
        return list(self.e_Tuple(node, fr))

    def e_Set(self, node, fr):
        return set(self.e_Tuple(node, fr))

    def e_Dict(self, node, fr):
        d = {}
        for k, v in zip(node.keys, node.values):
            if k is None:
                d.update(self.eval(v, fr))
            else:
                d[self.hashable(self.eval(k, fr))] = self.eval(v, fr)
        return d

    def hashable(self, k):
        k = concretize(k)
        if isinstance(k, list):
            raise PyRaise('TypeError', 'unhashable list')
        return k

    def e_JoinedStr(self, node, fr):
        parts = []
        for v in node.values:
            if isinstance(v, ast.Constant):
                parts.append(v.value)
            else:
                x = self.eval(v.value, fr)
                parts.append(self.to_str(x))
        res = ''
        for p in parts:
            res = self.binop(ast.Add(), res, p)
        return res

    def to_str(self, x):
        x = concretize(x)
        if is_sym(x):
            if x.t == STR:
                return x
            if x.t == INT:
                # str(int): z3 int.to.str is only defined for non-negative ints
                return Sym(z3.If(x.z >= 0, z3.IntToStr(x.z), z3.Concat(z3.StringVal('-'), z3.IntToStr(-x.z))), STR, src=x.z)
            raise Unsupported('str() of symbolic %s' % x.t)
        if isinstance(x, Fraction):
            return str(float(x))
        if isinstance(x, (tuple, list)) and self._has_sym(x):
            raise Unsupported('str() of container with symbolic members')
        if isinstance(x, PyRaise):
            return self.to_str(x.msg) if x.msg is not None else ''
        if isinstance(x, Obj):
            m = self.find_method(x, '__str__') or self.find_method(x, '__repr__')
            if m is not None:
                return self.call_function(m, [], {})
            sm = self.stub_method(x, '__str__')
            if sm is not None:
                return sm(self, [], {})
            if getattr(x, 'vc_fields', None):
                # a namedtuple: "Name(field=repr(value), ...)" - the repr of symbolic field values is not modelled, the
                # text is an arbitrary string that starts with the type name
                r = fresh(STR, 'repr_of_' + x.cls)
                self.assume(z3.PrefixOf(z3.StringVal(x.cls + '('), r.z))
                return r
            raise Unsupported('str() of object')
        return str(x)

    def e_BinOp(self, node, fr):
        a = self.eval(node.left, fr)
        b = self.eval(node.right, fr)
        if isinstance(node.op, ast.Mod) and pytype(a) == STR:
            return self.str_format_percent(a, b, node)
        return self.binop(node.op, a, b, node)

    def str_format_percent(self, a, b, node):
        if is_sym(a):
            raise Unsupported('% formatting with symbolic format')
        args = b if isinstance(b, tuple) else (b,)
        if not self._has_sym(args):
            try:
                return a % tuple(float(x) if isinstance(x, Fraction) else x for x in args)
            except (TypeError, ValueError) as e:
                raise PyRaise(type(e).__name__, str(e), node=node)
        # split on %s / %d only
        import re
        pieces = re.split(r'(%[sd])', a)
        res = ''
        ai = 0
        for p in pieces:
            if p in ('%s', '%d'):
                res = self.binop(ast.Add(), res, self.to_str(args[ai]))
                ai += 1
            else:
                if '%' in p:
                    raise Unsupported('% format spec ' + p)
                res = self.binop(ast.Add(), res, p)
        return res

    def e_UnaryOp(self, node, fr):
        v = concretize(self.eval(node.operand, fr))
        if isinstance(node.op, ast.Not):
            t = self.truth(v)
            if isinstance(t, bool):
                return not t
            if self.pure:
                return Sym(z3.Not(t), BOOL)
            return not self.branch(t)
        if isinstance(node.op, ast.USub):
            if is_sym(v):
                if v.t == BOOL:
                    v = Sym(zterm(v, INT), INT)
                return Sym(-v.z, v.t)
            return -v
        if isinstance(node.op, ast.UAdd):
            return v
        raise Unsupported('unary op')

    def e_BoolOp(self, node, fr):
        is_and = isinstance(node.op, ast.And)
        if self.pure:
            # python semantics while operands have concrete truth values; formula once symbolic
            acc = []
            for i, v in enumerate(node.values):
                val = self.eval(v, fr)
                t = self.truth(val)
                if isinstance(t, bool) and not acc:
                    if i == len(node.values) - 1:
                        return val
                    if is_and and not t:
                        return val
                    if (not is_and) and t:
                        return val
                    continue
                acc.append(z3.BoolVal(t) if isinstance(t, bool) else t)
            return concretize(Sym(z3.And(*acc) if is_and else z3.Or(*acc), BOOL))
        last = None
        for i, v in enumerate(node.values):
            last = self.eval(v, fr)
            if i == len(node.values) - 1:
                return last
            t = self.test(last)
            if is_and and not t:
                return last
            if (not is_and) and t:
                return last
        return last

    def e_Compare(self, node, fr):
        left = self.eval(node.left, fr)
        if self.pure:
            parts = []
            for op, c in zip(node.ops, node.comparators):
                right = self.eval(c, fr)
                r = self.compare(op, left, right, node)
                parts.append(z3.BoolVal(r) if isinstance(r, bool) else r)
                left = right
            return concretize(Sym(z3.And(*parts) if len(parts) > 1 else parts[0], BOOL))
        res = True
        for i, (op, c) in enumerate(zip(node.ops, node.comparators)):
            right = self.eval(c, fr)
            r = self.compare(op, left, right, node)
            if i == len(node.ops) - 1:
                if isinstance(r, bool):
                    return r
                if not z3.is_expr(r):
                    return r        # elementwise comparison of arrays
                return concretize(Sym(r, BOOL))
            if not self.branch(r):
                return False
            left = right
        return res

    def e_IfExp(self, node, fr):
        c = self.truth(self.eval(node.test, fr))
        if isinstance(c, bool):
            return self.eval(node.body if c else node.orelse, fr)
        if self.pure:
            return self.ite(c, self.eval(node.body, fr), self.eval(node.orelse, fr))
        if self.branch(c):
            return self.eval(node.body, fr)
        return self.eval(node.orelse, fr)

    def e_Attribute(self, node, fr):
        base = self.eval(node.value, fr)
        return self.getattr(base, node.attr, node)

    def e_Subscript(self, node, fr):
        base = self.eval(node.value, fr)
        if isinstance(node.slice, ast.Slice):
            lo = self.eval(node.slice.lower, fr) if node.slice.lower is not None else None
            hi = self.eval(node.slice.upper, fr) if node.slice.upper is not None else None
            st = self.eval(node.slice.step, fr) if node.slice.step is not None else None
            return self.getslice(base, lo, hi, st, node)
        idx = self.eval(node.slice, fr)
        return self.getitem(base, idx, node)

    def e_Slice(self, node, fr):
        lo = self.eval(node.lower, fr) if node.lower is not None else None
        hi = self.eval(node.upper, fr) if node.upper is not None else None
        st = self.eval(node.step, fr) if node.step is not None else None
        return slice(lo, hi, st)

    def e_Lambda(self, node, fr):
        return FuncRef(fr.mod, node, '<lambda>', closure=fr)

    def e_Starred(self, node, fr):
        raise Unsupported('starred outside call/tuple')

    def e_ListComp(self, node, fr):
        if len(node.generators) == 1 and not node.generators[0].ifs:
            it = self.eval(node.generators[0].iter, fr)
            src = it.items if isinstance(it, GenResult) else it
            symbolic = (isinstance(src, SymRange) and src.concrete() is None) or \
                (isinstance(src, SymSeq) and not z3.is_int_value(z3.simplify(src.n)))
            if symbolic:
                saved_pure = self.pure
                try:
                    return self.symbolic_listcomp(node, src, fr)
                except Unsupported:
                    self.pure = saved_pure
                    if self.pure or not isinstance(src, SymRange):
                        raise
                    # elements that are not scalars (objects, None ...): unroll by case split instead
        out = []
        self._comp(node.generators, 0, fr, lambda f: out.append(self.eval(node.elt, f)))
        return out

    def symbolic_listcomp(self, node, src, fr):
        """[elt for x in <symbolic range/sequence>] with a pure elt -> SymSeq defined by a z3 lambda."""
        seq = self.as_indexable(src)
        k = z3.Int('k!lc%d' % next(_fresh_counter))
        sub = Frame(fr.func, fr.mod, {}, closure=fr)
        self.assign(node.generators[0].target, seq.at(self, k), sub)
        self.pure += 1
        try:
            elt = self.eval(node.elt, sub)
        finally:
            self.pure -= 1
        if isinstance(src, SymRange):
            n = src.length()
        else:
            n = src.n
        if isinstance(elt, tuple):
            types = [pytype(x) for x in elt]
            cols = [z3.Lambda([k], zterm(x, t)) for x, t in zip(elt, types)]
            return SymSeq(n, cols, types, arity=len(elt))
        t = pytype(elt)
        return SymSeq(n, [z3.Lambda([k], zterm(elt, t))], [t], None)

    def e_GeneratorExp(self, node, fr):
        return GenResult(self.e_ListComp(node, fr))

    def e_SetComp(self, node, fr):
        out = set()
        self._comp(node.generators, 0, fr, lambda f: out.add(self.hashable(self.eval(node.elt, f))))
        return out

    def e_DictComp(self, node, fr):
        out = {}

        def add(f):
            k = self.hashable(self.eval(node.key, f))
            out[k] = self.eval(node.value, f)
        self._comp(node.generators, 0, fr, add)
        return out

    def _comp(self, gens, i, fr, emit):
        if i == len(gens):
            emit(fr)
            return
        g = gens[i]
        it = self.eval(g.iter, fr)
        sub = Frame(fr.func, fr.mod, {}, closure=fr)
        sub.is_top = False
        for x in self.iterate_concrete(it):
            self.assign(g.target, x, sub)
            ok = True
            for cond in g.ifs:
                if not self.test(self.eval(cond, sub)):
                    ok = False
                    break
            if ok:
                self._comp(gens, i + 1, sub, emit)

    def e_Call(self, node, fr):
        # spec special forms
        if isinstance(node.func, ast.Name) and node.func.id in SPEC_FORMS and node.func.id not in fr.env:
            return SPEC_FORMS[node.func.id](self, node, fr)
        if isinstance(node.func, ast.Name) and node.func.id == 'locals' and not node.args:
            return {k: v for k, v in fr.env.items() if '!' not in k}
        if isinstance(node.func, ast.Name) and node.func.id == 'super' and not node.args and 'super' not in fr.env:
            # zero-argument super() inside a method: attribute lookups continue in the MRO of type(self) behind the class
            # that defines the running method
            me, cls = fr.env.get('self'), getattr(fr, 'cls', None)
            if isinstance(me, Obj) and me.info is not None and cls is not None:
                return SuperProxy(me, cls)
            raise Unsupported('super() outside a method of a repository class')
        fn = self.eval(node.func, fr)
        args = []
        for a in node.args:
            if isinstance(a, ast.Starred):
                args.extend(self.iterate_concrete(self.eval(a.value, fr)))
            else:
                args.append(self.eval(a, fr))
        kwargs = {}
        for k in node.keywords:
            if k.arg is None:
                kwargs.update(self.eval(k.value, fr))
            else:
                kwargs[k.arg] = self.eval(k.value, fr)
        return self.call(fn, args, kwargs, node, fr)

    # ---- attribute / item access
    def getattr(self, base, attr, node=None):
        if isinstance(base, SuperProxy):
            v = self.loader.class_member(base.obj.info, attr, self, bind=base.obj, after=base.after)
            if v is _MISSING or v is None:
                raise PyRaise('AttributeError', "'super' object has no attribute '%s'" % attr, node=node)
            return v
        if isinstance(base, Obj):
            if attr in base.attrs:
                return base.attrs[attr]
            m = self.find_method(base, attr)
            if m is not None:
                return m
            h = self.stub_method(base, attr)
            if h is not None:
                return BoundMethod(attr, h)
            ca = self.class_attr(base, attr)
            if ca is not _MISSING:
                return ca
            sa = self.stub_attr(base, attr)
            if sa is not _MISSING:
                return sa
            raise PyRaise('AttributeError', '%s has no attribute %s' % (base.cls, attr), node=node)
        if type(base).__name__ == 'TypeObj' and base.name == 'str' and attr == 'maketrans':
            return Builtin('str.maketrans', lambda e, a, k, n: str.maketrans(*a))
        if isinstance(base, FuncRef):
            if attr == 'cache_clear' and getattr(base, 'cached', False):
                def clear(eng_, args, kwargs, _q=base.qualname):
                    eng_.ghost.setdefault('lru', {})[_q] = []
                return BoundMethod('cache_clear', clear)
            raise PyRaise('AttributeError', "function has no attribute '%s'" % attr, node=node)
        if isinstance(base, ModRef):
            return self.loader.resolve_external(base.dotted + '.' + attr, self)
        if isinstance(base, Builtin) and '.' in base.name:
            # an attribute of an external callable (itertools.chain.from_iterable): resolved like a dotted external name
            from . import externals as _ext
            if (base.name + '.' + attr) in _ext.TABLE or (base.name + '.' + attr) in _ext.EXTRA:
                return self.loader.resolve_external(base.name + '.' + attr, self)
        if type(base).__name__ == 'RepoModRef':
            return self.loader.repomod_getattr(base, attr, self)
        if isinstance(base, ClassRef):
            info = base
            v = self.loader.class_member(base, attr, self)
            if v is not _MISSING:
                return v
            raise PyRaise('AttributeError', attr, node=node)
        if base is None:
            raise PyRaise('AttributeError', "'NoneType' object has no attribute '%s'" % attr, node=node)
        from . import builtins as B
        return B.value_method(self, base, attr, node)

    def class_attr(self, obj, attr):
        if obj.info is None:
            return _MISSING
        return self.loader.class_member(obj.info, attr, self, bind=obj)

    def find_method(self, obj, name):
        if not isinstance(obj, Obj) or obj.info is None:
            return None
        v = self.loader.class_member(obj.info, name, self, bind=obj)
        if isinstance(v, FuncRef):
            return v
        return None

    def stub_method(self, obj, name):
        tab = self.stubs.get(obj.cls)
        if tab and name in tab.get('methods', {}):
            fn = tab['methods'][name]
            self.trusted_used.add('%s.%s' % (obj.cls, name))
            return lambda eng, args, kwargs, _fn=fn, _o=obj: _fn(eng, _o, *args, **kwargs)
        return None

    def stub_attr(self, obj, name):
        tab = self.stubs.get(obj.cls)
        if tab and name in tab.get('props', {}):
            self.trusted_used.add('%s.%s' % (obj.cls, name))
            return tab['props'][name](self, obj)
        return _MISSING

    def call_method(self, obj, name, args, kwargs):
        m = self.find_method(obj, name)
        if m is None:
            raise Unsupported('no method %s on %s' % (name, obj.cls))
        return self.call_function(m, args, kwargs)

    def getitem(self, base, idx, node=None):
        idx = concretize(idx)
        if base is None:
            raise PyRaise('TypeError', "'NoneType' object is not subscriptable", node=node)
        if isinstance(idx, slice):
            return self.getslice(base, idx.start, idx.stop, idx.step, node)
        if isinstance(base, GenResult):
            raise PyRaise('TypeError', 'generator not subscriptable', node=node)
        if isinstance(base, (list, tuple)):
            if is_sym(idx):
                if idx.t not in (INT, BOOL):
                    raise PyRaise('TypeError', 'index type', node=node)
                n = len(base)
                iz = zterm(idx, INT)
                if self.strict:
                    self.guarded_must_hold(z3.And(iz >= -n, iz < n))
                elif self.pure:
                    if n == 0:
                        raise Unsupported('spec indexes an empty list with a symbolic index')
                elif not self.branch(z3.And(iz >= -n, iz < n)):
                    raise PyRaise('IndexError', node=node)
                if n == 0:
                    raise PyRaise('IndexError', node=node)
                norm = z3.If(iz < 0, iz + n, iz)
                res = base[n - 1]
                for j in range(n - 2, -1, -1):
                    res = self.ite(norm == j, base[j], res)
                return res
            if isinstance(idx, bool) or not isinstance(idx, int):
                raise PyRaise('TypeError', 'list indices must be integers', node=node)
            try:
                return base[idx]
            except IndexError:
                raise PyRaise('IndexError', node=node)
        if isinstance(base, dict):
            k = self.hashable(idx)
            if is_sym(k):
                # symbolic key into a dict with concrete keys: a key that is syntactically the same term is the entry
                for kk in list(base.keys()):
                    if kk is k or (is_sym(kk) and kk.z.eq(k.z)):
                        return base[kk]
                for kk in list(base.keys()):
                    e = self.equals(kk, k)
                    if e is True or (e is not False and self.branch(e)):
                        return base[kk]
                return self.dict_missing(base, k, node)
            try:
                if k in base:
                    return base[k]
            except TypeError:
                raise PyRaise('TypeError', 'unhashable', node=node)
            return self.dict_missing(base, k, node)
        if isinstance(base, SymSeq):
            iz = zterm(idx, INT)
            if self.strict:
                self.guarded_must_hold(z3.And(iz >= -base.n, iz < base.n))
                return base.get(z3.If(iz < 0, iz + base.n, iz))
            if not self.pure:
                if not self.branch(z3.And(iz >= -base.n, iz < base.n)):
                    raise PyRaise('IndexError', node=node)
                return base.get(z3.If(iz < 0, iz + base.n, iz))
            return base.get(iz)
        if pytype(base) == STR:
            return self.str_index(base, idx, node)
        if isinstance(base, Obj):
            m = self.find_method(base, '__getitem__')
            if m is not None:
                return self.call_function(m, [idx], {})
            h = self.stub_method(base, '__getitem__')
            if h is not None:
                return h(self, [idx], {})
        if hasattr(base, 'vc_getitem'):
            return base.vc_getitem(self, idx, node)
        raise Unsupported('subscript on %s' % pytype(base))

    def dict_missing(self, d, k, node):
        df = getattr(d, 'default_factory', None)
        if df is not None:
            v = self.call(df, [], {}, node, None)
            d[k] = v
            return v
        if hasattr(d, 'vc_missing'):
            return d.vc_missing(self, k)
        raise PyRaise('KeyError', repr(k), node=node)

    def str_index(self, s, idx, node):
        if not is_sym(s) and not is_sym(idx):
            try:
                return s[idx]
            except IndexError:
                raise PyRaise('IndexError', node=node)
            except TypeError:
                raise PyRaise('TypeError', node=node)
        sz = zterm(s, STR)
        iz = zterm(idx, INT)
        n = z3.Length(sz)
        if self.strict:
            self.guarded_must_hold(z3.And(iz >= -n, iz < n))
        elif not self.pure:
            if not self.branch(z3.And(iz >= -n, iz < n)):
                raise PyRaise('IndexError', 'string index out of range', node=node)
        return Sym(z3.SubString(sz, z3.If(iz < 0, iz + n, iz), 1), STR)

    def getslice(self, base, lo, hi, step, node=None):
        lo, hi, step = concretize(lo), concretize(hi), concretize(step)
        if base is None:
            raise PyRaise('TypeError', "'NoneType' object is not subscriptable", node=node)
        if step is not None and step != 1:
            if not self._has_sym(base) and not is_sym(lo) and not is_sym(hi) and not is_sym(step) \
                    and isinstance(base, (str, list, tuple)):
                return base[lo:hi:step]
            if isinstance(base, (list, tuple)) and not is_sym(lo) and not is_sym(hi) and not is_sym(step):
                return base[lo:hi:step]
            raise Unsupported('slice with step on symbolic value')
        if isinstance(base, (list, tuple)):
            if is_sym(lo) or is_sym(hi):
                if self.pure:
                    raise Unsupported('symbolic slice bounds on list in a spec')
                n = len(base)

                def decide(b, default):
                    # concrete clamped position of a symbolic slice bound, by case split
                    if b is None:
                        return default
                    if not is_sym(b):
                        return max(0, n + b) if b < 0 else min(b, n)
                    bz = zterm(b, INT)
                    pos = z3.If(bz < 0, z3.If(n + bz < 0, 0, n + bz), z3.If(bz > n, n, bz))
                    for j in range(n + 1):
                        if self.branch(pos == j):
                            return j
                    raise PathEnd()
                a_ = decide(lo, 0)
                b_ = decide(hi, n)
                return base[a_:b_]
            return base[lo:hi]
        if pytype(base) == STR:
            if not is_sym(base) and not is_sym(lo) and not is_sym(hi):
                return base[lo:hi]
            if hi is None and isinstance(lo, int) and lo >= 0 and getattr(base, 'parts', None):
                from . import segstr
                r = segstr.drop_prefix(self, base, lo)
                if r is not None:
                    return r
            sz = zterm(base, STR)
            n = z3.Length(sz)

            def norm(b, default):
                if b is None:
                    return default
                bz = zterm(b, INT)
                if not is_sym(b):
                    if b >= 0:
                        return z3.If(bz > n, n, bz)
                    return z3.If(n + bz < 0, z3.IntVal(0), n + bz)
                return z3.If(bz < 0, z3.If(n + bz < 0, z3.IntVal(0), n + bz), z3.If(bz > n, n, bz))
            a = norm(lo, z3.IntVal(0))
            b = norm(hi, n)
            ln = z3.If(b - a < 0, z3.IntVal(0), b - a)
            return Sym(z3.simplify(z3.SubString(sz, a, ln)), STR)
        if hasattr(base, 'vc_getslice'):
            return base.vc_getslice(self, lo, hi, node)
        raise Unsupported('slice on %s' % pytype(base))

    # ---- iteration
    def iterate_concrete(self, it):
        """Python list of the elements of an iterable with a concrete spine."""
        if isinstance(it, GenResult):
            gen, it = it, it.items
            if isinstance(it, list) and not self.pure:
                gen.items = []        # a generator is exhausted by iterating over it: a second pass sees nothing
                #                       (specifications look at the yielded values without consuming them)
        if isinstance(it, (list, tuple)):
            return list(it)
        if isinstance(it, (set, frozenset)):
            return list(it)
        if isinstance(it, dict):
            return list(it.keys())
        if isinstance(it, range):
            return list(it)
        if isinstance(it, str):
            return list(it)
        if isinstance(it, SymSeq):
            n = z3.simplify(it.n)
            if z3.is_int_value(n):
                return [it.get(i) for i in range(n.as_long())]
            if not self.pure:
                # the path condition may fix the length (e.g. a callee contract "exactly one element")
                self.solver.set('timeout', 200)
                try:
                    for c in range(0, 4):
                        if not self.feasible(it.n != c):
                            return [it.get(i) for i in range(c)]
                finally:
                    self.solver.set('timeout', self.feas_timeout_ms)
            raise Unsupported('iteration over a symbolic-length sequence needs a loop invariant')
        if isinstance(it, SymRange):
            c = it.concrete()
            if c is not None:
                return list(c)
            if self.pure:
                raise Unsupported('iteration over a symbolic range in a spec')
            # bounded unrolling by case split on "has a k-th element"; the unwinding bound is an error, not a cut
            items = []
            k = 0
            while self.branch(it.has(z3.IntVal(k))):
                items.append(concretize(it.at(self, z3.IntVal(k))))
                k += 1
                if k > self.max_unroll:
                    raise Unsupported('symbolic range unrolled more than %d times' % self.max_unroll)
            return items
        if it is None:
            raise PyRaise('TypeError', "'NoneType' object is not iterable")
        if hasattr(it, 'vc_iter'):
            return it.vc_iter(self)
        if isinstance(it, Obj):
            m = self.find_method(it, '__iter__')
            if m is not None:
                return self.iterate_concrete(self.call_function(m, [], {}))
            h = self.stub_method(it, '__iter__')
            if h is not None:
                return self.iterate_concrete(h(self, [], {}))
        if is_sym(it) and it.t == STR:
            parts = getattr(it, 'parts', None) or [it]
            chars = []
            for p in parts:
                if isinstance(p, str):
                    chars.extend(list(p))
                elif not self.pure and not self.feasible(z3.Length(p.z) != 1):
                    chars.append(p)       # an atom that is known to be exactly one character
                else:
                    n = None if self.pure else self.fixed_length(p)
                    if n is None:
                        raise Unsupported('iteration over a symbolic string of unknown length')
                    chars.extend(Sym(z3.SubString(p.z, i, 1), STR) for i in range(n))
            return chars
        raise Unsupported('iteration over %s' % pytype(it))

    # ---- calls
    def call(self, fn, args, kwargs, node=None, fr=None):
        if isinstance(fn, Builtin):
            return fn.fn(self, args, kwargs, node)
        if isinstance(fn, BoundMethod):
            return fn.fn(self, args, kwargs)
        if isinstance(fn, FuncRef):
            return self.call_function(fn, args, kwargs, node)
        if isinstance(fn, ClassRef):
            return self.instantiate(fn, args, kwargs, node)
        if isinstance(fn, ModRef):
            return self.loader.call_external(fn.dotted, self, args, kwargs, node)
        if type(fn).__name__ == 'NamedTupleType':
            from .externals import make_namedtuple
            return make_namedtuple(self, fn, args, kwargs)
        if isinstance(fn, type) and fn in (list, dict, set, tuple):
            return fn()
        if hasattr(fn, 'vc_call'):
            return fn.vc_call(self, args, kwargs)
        if isinstance(fn, Obj):
            m = self.find_method(fn, '__call__')
            if m is not None:
                return self.call_function(m, args, kwargs, node)
        raise Unsupported('call of %r' % (fn,))

    def instantiate(self, cref, args, kwargs, node=None):
        hook = self.loader.instantiate_hook(cref)
        if hook is not None:
            return hook(self, cref, args, kwargs)
        obj = Obj(cref.name, {}, info=cref)
        init = self.loader.class_member(cref, '__init__', self, bind=obj)
        if isinstance(init, FuncRef):
            self.call_function(init, args, kwargs, node)
        elif exc_isa(cref.name, 'Exception', self.extra_exc) or self.loader.is_exception_class(cref):
            obj.attrs['args'] = tuple(args)
        return obj

    def bind_args(self, fnode, args, kwargs, bound, mod, closure):
        a = fnode.args
        params = [p.arg for p in a.posonlyargs + a.args]
        env = {}
        args = list(args)
        if bound is not None:
            args = [bound] + args
        defaults = a.defaults
        ndef = len(defaults)
        for i, p in enumerate(params):
            if i < len(args):
                env[p] = args[i]
            elif p in kwargs:
                env[p] = kwargs.pop(p)
            else:
                di = i - (len(params) - ndef)
                if di >= 0:
                    env[p] = self.default_value(defaults[di], mod, closure)
                else:
                    raise PyRaise('TypeError', 'missing argument %s' % p)
        if len(args) > len(params):
            if a.vararg is None:
                raise PyRaise('TypeError', 'too many positional arguments')
            env[a.vararg.arg] = tuple(args[len(params):])
        elif a.vararg is not None:
            env[a.vararg.arg] = ()
        for p, d in zip(a.kwonlyargs, a.kw_defaults):
            if p.arg in kwargs:
                env[p.arg] = kwargs.pop(p.arg)
            elif d is not None:
                env[p.arg] = self.default_value(d, mod, closure)
            else:
                raise PyRaise('TypeError', 'missing kw-only argument %s' % p.arg)
        if a.kwarg is not None:
            env[a.kwarg.arg] = dict(kwargs)
        elif kwargs:
            raise PyRaise('TypeError', 'unexpected keyword arguments %s' % sorted(kwargs))
        return env

    def default_value(self, dnode, mod, closure):
        """a default argument is evaluated once, when the `def` is executed: every call without that argument gets the same
        object (one evaluation per explored path = per program run)"""
        cache = getattr(self, 'module_value_cache', None)
        key = ('default', id(dnode))
        if cache is not None and key in cache:
            return cache[key]
        v = self.eval(dnode, Frame('<default>', mod, {}, closure=closure))
        if cache is not None and isinstance(v, (list, dict, set, Obj)):
            cache[key] = v
        return v

    def call_function(self, f, args, kwargs, node=None):
        kwargs = dict(kwargs)
        # contract at call site?
        con = self.callee_contracts.get(f.qualname)
        if con is not None and self.depth >= 0:
            return con.apply_at_callsite(self, f, args, kwargs, node)
        hook = self.loader.call_hook(f)
        if hook is not None:
            return hook(self, f, args, kwargs, node)
        if getattr(f, 'cached', False) and not getattr(f, '_bypass_cache', False):
            return self.call_cached(f, args, kwargs, node)
        fnode = f.node
        if isinstance(fnode, ast.Lambda):
            env = self.bind_args(fnode, args, kwargs, None, f.mod, f.closure)
            fr = Frame('<lambda>', f.mod, env, closure=f.closure)
            return self.eval(fnode.body, fr)
        env = self.bind_args(fnode, args, kwargs, f.bound, f.mod, f.closure)
        fr = Frame(f.qualname, f.mod, env, closure=f.closure)
        fr.cls = f.cls
        self.loader.note_interpreted(f)
        if self.depth > 60:
            raise Unsupported('call depth exceeded in %s' % f.qualname)
        is_gen = self.loader.is_generator(fnode)
        if is_gen:
            fr.yields = []
        self.depth += 1
        try:
            self.exec_block(fnode.body, fr)
            ret = None
        except _Return as r:
            ret = r.value
        finally:
            self.depth -= 1
        if is_gen:
            return GenResult(fr.yields)
        return ret

    def call_cached(self, f, args, kwargs, node):
        """functools.lru_cache on a repo function: ghost memo table keyed by (self, args, kwargs); a hit returns the
        stored object (as CPython does); eviction is not modelled (it only forgets entries)."""
        table = self.ghost.setdefault('lru', {}).setdefault(f.qualname, [])
        env = self.bind_args(f.node, list(args), dict(kwargs), f.bound, f.mod, f.closure)
        key = tuple(env[p.arg] for p in f.node.args.posonlyargs + f.node.args.args)
        for k, v in table:
            if len(k) != len(key):
                continue
            same = True
            for a, b in zip(k, key):
                if isinstance(a, Obj) or isinstance(b, Obj):
                    e = a is b
                else:
                    e = self.equals(a, b)
                if e is True:
                    continue
                if e is False or not self.branch(e):
                    same = False
                    break
            if same:
                self.ghost.setdefault('lru_hits', []).append(f.qualname)
                return v
        g = FuncRef(f.mod, f.node, f.qualname, bound=f.bound, cls=f.cls, closure=f.closure)
        g._bypass_cache = True
        v = self.call_function(g, args, kwargs, node)
        table.append((key, v))
        return v

    # ---- statements
    def exec_block(self, stmts, fr):
        for s in stmts:
            self.exec(s, fr)

    monitor = None     # fn(engine, node, frame): ghost-state monitor evaluated after every statement (typestate properties)

    def exec(self, node, fr):
        m = getattr(self, 's_' + type(node).__name__, None)
        if m is None:
            raise Unsupported('statement %s at line %s' % (type(node).__name__, getattr(node, 'lineno', '?')))
        if self.monitor is None:
            return m(node, fr)
        try:
            r = m(node, fr)
        except (PyRaise, _Return, _Break, _Continue):
            self.monitor(self, node, fr)
            raise
        self.monitor(self, node, fr)
        return r

    def s_Expr(self, node, fr):
        v = node.value
        if isinstance(v, ast.Constant):
            return
        if isinstance(v, (ast.Yield, ast.YieldFrom)):
            return self.do_yield(v, fr)
        if isinstance(v, ast.Call) and self.is_dropped_call(v):
            return
        self.eval(v, fr)

    def is_dropped_call(self, call):
        """print / logging / sys.stderr.write are dropped (A5)."""
        f = call.func
        if isinstance(f, ast.Name) and f.id == 'print':
            return True
        try:
            d = ast.unparse(f)
        except Exception:
            return False
        return d.startswith('logging.') or d.startswith('sys.stderr.') or d.startswith('sys.stdout.') or d.startswith('warnings.')

    def do_yield(self, v, fr):
        cb = getattr(fr, 'ctx_yield', None)
        if cb is not None:
            val = self.eval(v.value, fr) if getattr(v, 'value', None) is not None else None
            cb(val)
            return None
        if fr.yields is None:
            raise Unsupported('yield in non-generator frame')
        if isinstance(v, ast.YieldFrom):
            src = self.eval(v.value, fr)
            if isinstance(src, GenResult):
                src = src.items
            if isinstance(src, SymSeq) and isinstance(fr.yields, SymSeq) and not z3.is_int_value(z3.simplify(src.n)):
                if fr.is_top and self.on_yield is not None:
                    raise Unsupported('yield from a symbolic sequence with per-yield checks')
                fr.yields = fr.yields.concat(src)
                return None
            items = self.iterate_concrete(src)
            for x in items:
                self.emit_yield(x, fr)
            return None
        val = self.eval(v.value, fr) if v.value is not None else None
        self.emit_yield(val, fr)
        return None

    def emit_yield(self, val, fr):
        if fr.is_top and self.on_yield is not None:
            self.on_yield(self, val, fr)
        if isinstance(fr.yields, DiscardYields):
            fr.yields.count += 1
            if 'X' in self.spec_env:
                from .bags import count_key
                try:
                    fr.yields.keycount = fr.yields.keycount + count_key(self, val, self.spec_env['X'])
                except Unsupported:
                    pass
        elif isinstance(fr.yields, SymSeq):
            fr.yields = fr.yields.append(val)
        else:
            fr.yields.append(val)

    on_yield = None

    def e_Yield(self, node, fr):
        return self.do_yield(node, fr)

    def s_Pass(self, node, fr):
        pass

    def s_Global(self, node, fr):
        pass

    def s_Nonlocal(self, node, fr):
        raise Unsupported('nonlocal')

    def s_Import(self, node, fr):
        for a in node.names:
            fr.env[a.asname or a.name.split('.')[0]] = self.loader.import_module(a.name, self, asname=a.asname)

    def s_ImportFrom(self, node, fr):
        for a in node.names:
            fr.env[a.asname or a.name] = self.loader.import_from(node.module, a.name, self, level=node.level, mod=fr.mod)

    def s_Assign(self, node, fr):
        v = self.eval(node.value, fr)
        for t in node.targets:
            self.assign(t, v, fr)

    def s_AnnAssign(self, node, fr):
        if node.value is not None:
            self.assign(node.target, self.eval(node.value, fr), fr)

    def s_AugAssign(self, node, fr):
        t = node.target
        if isinstance(t, ast.Name):
            cur = self.lookup(t.id, fr, node)
            new = self.aug(node.op, cur, self.eval(node.value, fr), node)
            fr.env[t.id] = new
        elif isinstance(t, ast.Attribute):
            base = self.eval(t.value, fr)
            cur = self.getattr(base, t.attr, node)
            new = self.aug(node.op, cur, self.eval(node.value, fr), node)
            self.setattr(base, t.attr, new, node)
        elif isinstance(t, ast.Subscript):
            base = self.eval(t.value, fr)
            idx = self.eval(t.slice, fr)
            cur = self.getitem(base, idx, node)
            new = self.aug(node.op, cur, self.eval(node.value, fr), node)
            self.setitem(base, idx, new, node)
        else:
            raise Unsupported('augassign target')

    def aug(self, op, cur, val, node):
        if isinstance(cur, list) and isinstance(op, ast.Add):
            cur.extend(self.iterate_concrete(val))
            return cur
        if isinstance(cur, set) and isinstance(op, ast.BitOr):
            cur |= val
            return cur
        return self.binop(op, cur, val, node)

    def assign(self, target, v, fr):
        if isinstance(target, ast.Name):
            fr.env[target.id] = v
        elif isinstance(target, (ast.Tuple, ast.List)):
            items = self.iterate_concrete(v)
            star = [i for i, e in enumerate(target.elts) if isinstance(e, ast.Starred)]
            if star:
                si = star[0]
                after = len(target.elts) - si - 1
                if len(items) < len(target.elts) - 1:
                    raise PyRaise('ValueError', 'not enough values to unpack')
                for e, x in zip(target.elts[:si], items[:si]):
                    self.assign(e, x, fr)
                self.assign(target.elts[si].value, list(items[si:len(items) - after]), fr)
                for e, x in zip(target.elts[si + 1:], items[len(items) - after:]):
                    self.assign(e, x, fr)
                return
            if len(items) != len(target.elts):
                raise PyRaise('ValueError', 'unpack: expected %d values, got %d' % (len(target.elts), len(items)))
            for e, x in zip(target.elts, items):
                self.assign(e, x, fr)
        elif isinstance(target, ast.Attribute):
            base = self.eval(target.value, fr)
            self.setattr(base, target.attr, v, target)
        elif isinstance(target, ast.Subscript):
            base = self.eval(target.value, fr)
            if isinstance(target.slice, ast.Slice):
                if hasattr(base, 'vc_setslice'):
                    lo = self.eval(target.slice.lower, fr) if target.slice.lower is not None else None
                    hi = self.eval(target.slice.upper, fr) if target.slice.upper is not None else None
                    return base.vc_setslice(self, lo, hi, v, target)
                if isinstance(base, list) and target.slice.lower is None and target.slice.upper is None:
                    base[:] = self.iterate_concrete(v)
                    return
                raise Unsupported('slice assignment')
            idx = self.eval(target.slice, fr)
            self.setitem(base, idx, v, target)
        else:
            raise Unsupported('assignment target %s' % type(target).__name__)

    def setattr(self, base, attr, v, node=None):
        if isinstance(base, Obj):
            tab = self.stubs.get(base.cls)
            if tab and attr in tab.get('setters', {}):
                self.trusted_used.add('%s.%s=' % (base.cls, attr))
                return tab['setters'][attr](self, base, v)
            base.attrs[attr] = v
            return
        if base is None:
            raise PyRaise('AttributeError', "'NoneType' object has no attribute '%s'" % attr, node=node)
        raise Unsupported('setattr on %s' % pytype(base))

    def setitem(self, base, idx, v, node=None):
        idx = concretize(idx)
        if isinstance(base, list):
            if is_sym(idx):
                n = len(base)
                iz = zterm(idx, INT)
                if not self.branch(z3.And(iz >= -n, iz < n)):
                    raise PyRaise('IndexError', node=node)
                norm = z3.If(iz < 0, iz + n, iz)
                for j in range(n):
                    base[j] = self.ite(norm == j, v, base[j])
                return
            try:
                base[idx] = v
            except IndexError:
                raise PyRaise('IndexError', node=node)
            return
        if isinstance(base, dict):
            k = self.hashable(idx)
            if is_sym(k):
                for kk in list(base.keys()):
                    e = self.equals(kk, k)
                    if e is True or (e is not False and self.branch(e)):
                        base[kk] = v
                        return
                base[k] = v
                return
            base[k] = v
            return
        if isinstance(base, Obj):
            m = self.find_method(base, '__setitem__')
            if m is not None:
                return self.call_function(m, [idx, v], {})
            h = self.stub_method(base, '__setitem__')
            if h is not None:
                return h(self, [idx, v], {})
        if hasattr(base, 'vc_setitem'):
            return base.vc_setitem(self, idx, v, node)
        if base is None:
            raise PyRaise('TypeError', "'NoneType' object does not support item assignment", node=node)
        if isinstance(base, tuple) or pytype(base) == STR:
            raise PyRaise('TypeError', 'object does not support item assignment', node=node)
        raise Unsupported('setitem on %s' % pytype(base))

    def s_Delete(self, node, fr):
        for t in node.targets:
            if isinstance(t, ast.Name):
                fr.env.pop(t.id, None)
            elif isinstance(t, ast.Subscript):
                base = self.eval(t.value, fr)
                idx = concretize(self.eval(t.slice, fr))
                if isinstance(base, dict):
                    if is_sym(idx):
                        raise Unsupported('del dict[symbolic]')
                    if idx not in base:
                        raise PyRaise('KeyError', repr(idx), node=node)
                    del base[idx]
                elif isinstance(base, list) and not is_sym(idx):
                    try:
                        del base[idx]
                    except IndexError:
                        raise PyRaise('IndexError', node=node)
                else:
                    raise Unsupported('del subscript')
            elif isinstance(t, ast.Attribute):
                base = self.eval(t.value, fr)
                if isinstance(base, Obj) and t.attr in base.attrs:
                    del base.attrs[t.attr]
                else:
                    raise PyRaise('AttributeError', t.attr, node=node)
            else:
                raise Unsupported('del target')

    def s_Return(self, node, fr):
        raise _Return(self.eval(node.value, fr) if node.value is not None else None)

    def s_Break(self, node, fr):
        raise _Break()

    def s_Continue(self, node, fr):
        raise _Continue()

    MERGE_CALLS = {'has_tag', 'get_tag', 'startswith', 'endswith', 'int', 'len', 'str', 'float', 'abs', 'min', 'max',
                   'isinstance', 'get'}

    def mergeable_test(self, node):
        """side-effect free boolean test that may be evaluated as ONE formula (no path split per operand)"""
        for n in ast.walk(node):
            if isinstance(n, (ast.BoolOp, ast.Compare, ast.UnaryOp, ast.Name, ast.Attribute, ast.Constant, ast.Load,
                              ast.And, ast.Or, ast.Not, ast.cmpop, ast.Subscript, ast.BinOp, ast.operator, ast.unaryop,
                              ast.Tuple, ast.List)):
                continue
            if isinstance(n, ast.Call):
                f = n.func
                name = f.attr if isinstance(f, ast.Attribute) else f.id if isinstance(f, ast.Name) else None
                if name in self.MERGE_CALLS and not n.keywords:
                    continue
            return False
        return isinstance(node, ast.BoolOp)

    def eval_test(self, node, fr):
        """truth of an if/while test.  A compound side-effect-free test is turned into one formula (python's
        short-circuit guards are kept as assumptions while the guarded operand is evaluated, so a guarded operation that
        could raise - get_tag of an absent tag, None attribute - makes the merge fall back to operand-wise branching)."""
        if self.pure or not self.mergeable_test(node):
            return self.test(self.eval(node, fr))
        saved = (len(self.pc), self.pos, list(self.schedule), list(self.alts))
        self.pure += 1
        self.strict += 1
        pushed = 0
        try:
            val = self._merged(node, fr)
            ok = True
        except (Unsupported, PyRaise):
            ok = False
        finally:
            self.pure -= 1
            self.strict -= 1
            while self._guards:
                self._guards.pop()
        if not ok:
            return self.test(self.eval(node, fr))
        return self.branch(val)

    strict = 0
    _guards = []

    def _merged(self, node, fr):
        if isinstance(node, ast.BoolOp):
            is_and = isinstance(node.op, ast.And)
            parts = []
            n_pushed = 0
            for v in node.values:
                t = self._merged(v, fr)
                t = z3.BoolVal(t) if isinstance(t, bool) else t
                parts.append(t)
                self._guards.append(t if is_and else z3.Not(t))
                n_pushed += 1
            for _ in range(n_pushed):
                self._guards.pop()
            return z3.And(*parts) if is_and else z3.Or(*parts)
        if isinstance(node, ast.UnaryOp) and isinstance(node.op, ast.Not):
            t = self._merged(node.operand, fr)
            return (not t) if isinstance(t, bool) else z3.Not(t)
        return self.truth(self.eval(node, fr))

    def guarded_must_hold(self, cond):
        """in a merged test: the condition under which a guarded operation is defined must follow from the path
        condition and the short-circuit guards; otherwise the merge is abandoned"""
        if isinstance(cond, bool):
            if not cond:
                raise Unsupported('guarded operation undefined')
            return
        self.solver.push()
        for g in self._guards:
            self.solver.add(g)
        self.solver.add(z3.Not(cond))
        self.solver.set('timeout', 150)       # a valid guard is refuted at once; anything slower abandons the merge
        r = self.solver.check()
        self.solver.set('timeout', self.feas_timeout_ms)
        self.solver.pop()
        if r != z3.unsat:
            raise Unsupported('guarded operation may be undefined')

    def s_If(self, node, fr):
        if self.eval_test(node.test, fr):
            self.exec_block(node.body, fr)
        else:
            self.exec_block(node.orelse, fr)

    def s_Assert(self, node, fr):
        if not self.test(self.eval(node.test, fr)):
            raise PyRaise('AssertionError', node=node)

    def s_Raise(self, node, fr):
        if node.exc is None:
            cur = getattr(fr, 'handling', None)
            if cur is None:
                raise PyRaise('RuntimeError', 'no active exception', node=node)
            raise cur
        exc = node.exc
        if isinstance(exc, ast.Call):
            name = ast.unparse(exc.func).split('.')[-1]
            msg = None
            try:
                if exc.args:
                    msg = self.eval(exc.args[0], fr)
            except Unsupported:
                msg = None
            raise PyRaise(name, msg, node=node)
        if isinstance(exc, ast.Name):
            v = fr.env.get(exc.id)
            if isinstance(v, PyRaise):
                raise v
            if isinstance(v, Obj):
                raise PyRaise(v.cls, v.attrs.get('args'), node=node)
            raise PyRaise(exc.id, node=node)
        raise Unsupported('raise form')

    def s_Try(self, node, fr):
        pending = None
        try:
            try:
                self.exec_block(node.body, fr)
            except PyRaise as e:
                for h in node.handlers:
                    if self.handler_matches(h, e, fr):
                        if h.name:
                            fr.env[h.name] = e
                        prev = getattr(fr, 'handling', None)
                        fr.handling = e
                        try:
                            self.exec_block(h.body, fr)
                        finally:
                            fr.handling = prev
                        break
                else:
                    raise
            else:
                self.exec_block(node.orelse, fr)
        except (PyRaise, _Return, _Break, _Continue) as ex:
            pending = ex
        # finally runs on every python-level exit; PathEnd/Unsupported propagate untouched
        if node.finalbody:
            self.exec_block(node.finalbody, fr)
        if pending is not None:
            raise pending

    def handler_matches(self, h, e, fr):
        if h.type is None:
            return True
        names = []
        t = h.type
        elts = t.elts if isinstance(t, ast.Tuple) else [t]
        for x in elts:
            names.append(ast.unparse(x).split('.')[-1])
        if e.etype == 'AnyError':
            # an injected failure of unknown class (contracts with failure injection): an `except Exception` / bare handler
            # catches it; a handler for one of the common specific classes catches it on one path and not on another
            for n in names:
                if n in ('Exception', 'BaseException'):
                    return True
                if n in ANY_ERROR_CLASSES:
                    known = e.__dict__.setdefault('any_classes', {})
                    if n not in known:
                        known[n] = bool(self.branch(fresh(BOOL, 'the_failure_is_a_' + n).z))
                    if known[n]:
                        return True
            return False
        return any(exc_isa(e.etype, n, self.extra_exc) for n in names)

    def s_With(self, node, fr):
        return self.loader.exec_with(self, node, fr)

    def s_FunctionDef(self, node, fr):
        fr.env[node.name] = FuncRef(fr.mod, node, fr.func + '.<locals>.' + node.name, closure=fr)

    def s_ClassDef(self, node, fr):
        raise Unsupported('nested class definition')

    # ---- loops
    def loop_ordinal_of(self, node, fr):
        ids = getattr(fr, 'loop_ids', None)
        if ids is not None and id(node) in ids:
            return ids[id(node)]
        o = fr.loop_ordinal
        fr.loop_ordinal += 1
        return o

    def s_While(self, node, fr):
        ordinal = self.loop_ordinal_of(node, fr)
        spec = fr.loopspecs.get(ordinal) if fr.is_top else None
        if spec is None:
            n = 0
            while True:
                if not self.test(self.eval(node.test, fr)):
                    self.exec_block(node.orelse, fr)
                    return
                n += 1
                if n > self.max_unroll:
                    raise Unsupported('while loop #%d in %s exceeds unroll bound without invariant' % (ordinal, fr.func))
                try:
                    self.exec_block(node.body, fr)
                except _Break:
                    return
                except _Continue:
                    continue
        # inductive treatment
        self.loop_entry(spec, ordinal, fr, node, None)
        if self.test(self.eval(node.test, fr)):
            try:
                self.exec_block(node.body, fr)
            except _Continue:
                pass
            except _Break:
                self.loop_break(spec, ordinal, fr, self.binop(ast.Add(), fr.env[spec.k], 1))
                return
            self.loop_step(spec, ordinal, fr, node)
            raise PathEnd()
        self.loop_exit(spec, ordinal, fr)
        self.exec_block(node.orelse, fr)

    max_unroll = 64

    def s_For(self, node, fr):
        ordinal = self.loop_ordinal_of(node, fr)
        spec = fr.loopspecs.get(ordinal) if fr.is_top else None
        it = self.eval(node.iter, fr)
        if spec is not None:
            fr.env['IT%d' % ordinal] = it
            if spec.it:
                fr.env[spec.it] = it.items if isinstance(it, GenResult) else it
        if spec is None:
            saved = fr.loop_ordinal
            items = self.iterate_concrete(it)
            for ii, x in enumerate(items):
                if ii > self.max_unroll * 8:
                    raise Unsupported('for loop unrolled more than %d times' % (self.max_unroll * 8))
                fr.loop_ordinal = saved
                self.assign(node.target, x, fr)
                try:
                    self.exec_block(node.body, fr)
                except _Break:
                    return
                except _Continue:
                    continue
            self.exec_block(node.orelse, fr)
            return
        # inductive treatment over a symbolic range / sequence
        seq = self.as_indexable(it)
        kname = spec.k
        if spec.peel:
            fr.env[kname] = 0
            for iname, itext in spec.inv:
                self.check('inv.init/loop%d/%s' % (ordinal, iname), self.spec_eval(itext, fr), kind='inv.init')
            if not self.branch(seq.has(z3.IntVal(0))):
                self.exec_block(node.orelse, fr)        # empty sequence: the loop is skipped with the entry state
                return
            if self.branch(fresh(BOOL, 'first_iteration').z):
                # the first iteration, from the real entry state
                self.assign(node.target, seq.at(self, z3.IntVal(0)), fr)
                try:
                    self.exec_block(node.body, fr)
                except _Continue:
                    pass
                except _Break:
                    return
                fr.env[kname] = 1
                for iname, itext in spec.inv:
                    self.check('inv.first/loop%d/%s' % (ordinal, iname), self.spec_eval(itext, fr), kind='inv.step')
                raise PathEnd()
        self.loop_entry(spec, ordinal, fr, node, seq)
        k = fr.env[kname]
        kz = zterm(k, INT)
        if self.branch(seq.has(kz)):
            self.assign(node.target, seq.at(self, kz), fr)
            broke = False
            try:
                self.exec_block(node.body, fr)
            except _Continue:
                pass
            except _Break:
                broke = True
            if broke:
                self.loop_break(spec, ordinal, fr, Sym(kz + 1, INT))
                return
            fr.env[kname] = Sym(kz + 1, INT)
            self.loop_step(spec, ordinal, fr, node)
            raise PathEnd()
        # exit: k is the exact number of iterations performed
        self.assume(seq.exhausted(kz))
        self.loop_exit(spec, ordinal, fr)
        self.exec_block(node.orelse, fr)

    def as_indexable(self, it):
        if isinstance(it, GenResult):
            it = it.items
        if isinstance(it, SymRange):
            return it
        if isinstance(it, range):
            return SymRange(it.start, it.stop, it.step)
        if isinstance(it, SymSeq):
            return SeqIndexable(it)
        if isinstance(it, (list, tuple)):
            raise Unsupported('loop invariant given for a loop over a concrete sequence')
        if hasattr(it, 'vc_indexable'):
            return it.vc_indexable(self)
        if isinstance(it, Obj):
            m = self.find_method(it, '__iter__')
            if m is not None:
                return self.as_indexable(self.call_function(m, [], {}))
        raise Unsupported('inductive loop over %s' % pytype(it))

    MUTATORS = {'append', 'extend', 'insert', 'pop', 'remove', 'clear', 'update', 'add', 'discard', 'setdefault',
                'sort', 'reverse', 'popitem', 'write'}

    def assigned_names(self, stmts):
        """names (re)bound in the statements, plus names whose object is mutated in place
        (subscript/attribute stores, mutating method calls) - the latter are havocked only when the
        object supports it (vc_havoc), otherwise the loop is rejected as unsupported."""
        names = set()
        mutated = set()

        attr_muts = set()

        def base_name(n, record=True):
            first_attr = None
            while isinstance(n, (ast.Subscript, ast.Attribute)):
                if isinstance(n, ast.Attribute):
                    first_attr = n.attr
                n = n.value
            if isinstance(n, ast.Name):
                if first_attr is not None and record:
                    attr_muts.add((n.id, first_attr))
                    return None
                return n.id
            return None

        class V(ast.NodeVisitor):
            def visit_Name(s, n):
                if isinstance(n.ctx, (ast.Store, ast.Del)):
                    names.add(n.id)

            def visit_Subscript(s, n):
                if isinstance(n.ctx, (ast.Store, ast.Del)):
                    b = base_name(n)
                    if b:
                        mutated.add(b)
                s.generic_visit(n)

            def visit_Attribute(s, n):
                if isinstance(n.ctx, (ast.Store, ast.Del)):
                    b = base_name(n)
                    if b:
                        mutated.add(b)
                s.generic_visit(n)

            def visit_Call(s, n):
                if isinstance(n.func, ast.Attribute) and n.func.attr in Engine.MUTATORS:
                    b = base_name(n.func.value)
                    if b:
                        mutated.add(b)
                elif isinstance(n.func, ast.Attribute) and isinstance(n.func.value, ast.Name) and n.func.value.id == 'self':
                    self_calls.add(n.func.attr)
                s.generic_visit(n)

            def visit_FunctionDef(s, n):
                names.add(n.name)

            def visit_Lambda(s, n):
                pass
        self_calls = set()
        for st in stmts:
            V().visit(st)
        self._last_mutated = mutated - names
        self._last_attr_muts = attr_muts
        self._last_self_calls = self_calls
        return names

    def self_method_mutations(self, fr, method_names, depth=0, seen=None):
        """attributes of self stored/mutated by methods of self called in a loop body (transitively)."""
        seen = seen if seen is not None else set()
        out = set()
        selfobj = fr.env.get('self')
        if not isinstance(selfobj, Obj) or selfobj.info is None or depth > 4:
            return out
        for m in method_names:
            if m in seen:
                continue
            seen.add(m)
            f = self.loader.class_member(selfobj.info, m, self)
            if not isinstance(f, FuncRef):
                continue
            saved = (self._last_mutated, self._last_attr_muts, self._last_self_calls)
            self.assigned_names(f.node.body)
            out |= {(b, a) for (b, a) in self._last_attr_muts if b == 'self'}
            calls = set(self._last_self_calls)
            self._last_mutated, self._last_attr_muts, self._last_self_calls = saved
            out |= self.self_method_mutations(fr, calls, depth + 1, seen)
        return out

    def loop_entry(self, spec, ordinal, fr, node, seq):
        """Inductive loop: snapshot, check invariant at entry, havoc everything the body may change
        (rebound names, containers mutated in place, attributes of objects - also through methods of
        self called in the body), assume the invariant for an arbitrary iteration k."""
        kname = spec.k
        fr.env[kname] = 0
        target_stmt = [ast.Assign(targets=[node.target], value=ast.Constant(0))] if isinstance(node, ast.For) else []
        mods = self.assigned_names(node.body + target_stmt)
        mods |= set(spec.extra_havoc)
        mutated = set(self._last_mutated)
        attr_muts = set(self._last_attr_muts) | self.self_method_mutations(fr, set(self._last_self_calls))

        def snap(v):
            return v.vc_snapshot() if hasattr(v, 'vc_snapshot') else v

        def snapshot_all(prefix):
            for name, v in list(fr.env.items()):
                if '!' in name:
                    continue
                if hasattr(v, 'vc_snapshot') or name in mods:
                    fr.env['%s%d!%s' % (prefix, ordinal, name)] = snap(v)
                if isinstance(v, Obj) and not getattr(v, 'vc_immutable', False):
                    for a, av in v.attrs.items():
                        if hasattr(av, 'vc_snapshot') or (name, a) in attr_muts:
                            fr.env['%s%d!%s.%s' % (prefix, ordinal, name, a)] = snap(av)

        # ---- convert declared concrete containers into symbolic ones (before snapshots)
        for name in sorted(mutated):
            cur = self.lookup_or_missing(name, fr)
            t = spec.types.get(name)
            if isinstance(t, tuple) and t and t[0] == 'countbag' and isinstance(cur, list):
                from .bags import CountBag
                self.rebind(fr, name, CountBag.from_concrete(self, cur, self.spec_env[t[1]], name))
            elif isinstance(t, tuple) and t and t[0] == 'symlist' and isinstance(cur, list):
                from .symlist import SymList
                self.rebind(fr, name, SymList.from_concrete(cur, t[1], t[2] if len(t) > 2 else None, name))
            elif isinstance(t, tuple) and t and t[0] == 'symdict' and isinstance(cur, dict):
                from .symdict import SymDict
                if len(cur):
                    raise Unsupported('conversion of a non-empty concrete dict to a symbolic dict')
                sd = SymDict.empty(t[1], t[2], name=name, default=t[3] if len(t) > 3 else None)
                if type(cur).__name__ == 'DefaultDict':
                    sd.autoviv = True      # collections.defaultdict(<mapping>): a missing outer key reads as an empty inner mapping
                self.rebind(fr, name, sd)
        for b, a in sorted(attr_muts):
            obj = self.lookup_or_missing(b, fr)
            t = spec.types.get('%s.%s' % (b, a))
            if isinstance(obj, Obj) and isinstance(t, tuple) and t and t[0] == 'symlist' and isinstance(obj.attrs.get(a), list):
                from .symlist import SymList
                obj.attrs[a] = SymList.from_concrete(obj.attrs[a], t[1], t[2] if len(t) > 2 else None, '%s.%s' % (b, a))

        snapshot_all('entry')
        if not spec.peel:
            for iname, itext in spec.inv:
                g = self.spec_eval(itext, fr)
                self.check('inv.init/loop%d/%s' % (ordinal, iname), g, kind='inv.init')

        # ---- havoc rebound names
        for name in sorted(mods):
            cur = fr.env.get(name, _MISSING)
            t = spec.types.get(name)
            if cur is _MISSING and t is None:
                continue   # first assigned inside the loop and not live after: leave unbound
            if t == 'frame':
                continue   # contract: per-iteration temporary, not observed after the loop
            fr.env[name] = self.havoc_like(cur, t, name)

        # ---- havoc containers mutated in place
        def havoc_container(cur, label, t):
            if t == 'frame':
                return True
            if hasattr(cur, 'vc_havoc_inplace'):
                cur.vc_havoc_inplace(self, label)
                return True
            if isinstance(cur, dict) and cur and all(hasattr(v, 'vc_havoc_inplace') for v in cur.values()):
                for kk, v in cur.items():
                    v.vc_havoc_inplace(self, '%s[%s]' % (label, kk))
                return True
            return False

        for name in sorted(mutated):
            cur = self.lookup_or_missing(name, fr)
            if cur is _MISSING:
                continue
            if havoc_container(cur, name, spec.types.get(name)):
                continue
            if isinstance(cur, (list, dict, set)) or (isinstance(cur, Obj) and not getattr(cur, 'vc_immutable', False)
                                                       and cur.cls not in self.stubs):
                raise Unsupported('inductive loop mutates %r (a concrete %s) - declare a symbolic container in LoopSpec.types'
                                  % (name, pytype(cur)))
        for b, a in sorted(attr_muts):
            obj = self.lookup_or_missing(b, fr)
            if not isinstance(obj, Obj):
                if obj is _MISSING or obj is None or isinstance(obj, (Sym, int, str)) or hasattr(obj, 'vc_havoc_inplace'):
                    continue
                raise Unsupported('inductive loop mutates %s.%s of a %s' % (b, a, pytype(obj)))
            if getattr(obj, 'vc_immutable', False):
                continue
            key = '%s.%s' % (b, a)
            cur = obj.attrs.get(a, _MISSING)
            t = spec.types.get(key)
            if cur is _MISSING:
                if t is None or t == 'frame':
                    continue
                obj.attrs[a] = self.havoc_like(None, t, key)
                continue
            if havoc_container(cur, key, t):
                continue
            if isinstance(cur, (list, dict, set)) and t is None:
                raise Unsupported('inductive loop mutates %s (a concrete %s) - declare LoopSpec.types[%r]' % (key, pytype(cur), key))
            if isinstance(cur, (Obj, FuncRef, ClassRef, ModRef, Builtin, BoundMethod)) or cur is None and t is None:
                if t is None:
                    raise Unsupported('inductive loop rebinds %s (an object/None) - declare LoopSpec.types[%r]' % (key, key))
            obj.attrs[a] = self.havoc_like(cur, t, key)

        if fr.yields is not None and self.contains_yield(node.body):
            if isinstance(fr.yields, DiscardYields):
                fr.yields.vc_havoc_inplace(self, 'Y')
            elif not isinstance(fr.yields, SymSeq):
                raise Unsupported('generator with inductive loop must use a SymSeq output (declare yields=...)')
            else:
                y = fr.yields
                fr.yields = SymSeq.fresh(y.types, y.arity, 'Y')
        kk = fresh(INT, kname)
        fr.env[kname] = kk
        self.assume(kk.z >= (1 if spec.peel else 0))
        if seq is not None:
            self.assume(seq.reached(kk.z))
        for iname, itext in spec.inv:
            self.assume(self.ztruth(self.spec_eval(itext, fr)))
        for ftext in spec.facts:
            self.assume(self.ztruth(self.spec_eval(ftext, fr)))
        for hname, htext in spec.hints.items():
            self.check('hint/loop%d/%s' % (ordinal, hname), self.spec_eval(htext, fr), kind='hint')
        if fr.yields is not None and not isinstance(fr.yields, DiscardYields):
            fr.env['Y0'] = fr.yields
        snapshot_all('head')
        if spec.head_hook is not None:
            spec.head_hook(self, fr)

    def loop_step(self, spec, ordinal, fr, node):
        if isinstance(node, ast.While):
            k = fr.env[spec.k]
            fr.env[spec.k] = self.binop(ast.Add(), k, 1)
        for bname, btext in spec.body_post.items():
            self.check('body.post/loop%d/%s' % (ordinal, bname), self.spec_eval(btext, fr), kind='body.post')
        for iname, itext in spec.inv:
            g = self.spec_eval(itext, fr)
            self.check('inv.step/loop%d/%s' % (ordinal, iname), g, kind='inv.step')

    def loop_break(self, spec, ordinal, fr, k_after):
        """the iteration ended in `break`: the per-iteration postcondition is still owed (k counts this iteration)"""
        if spec.must_exhaust:
            # recorded without assuming it (the path goes on: the clauses after the loop are still examined on it)
            self.obligations.append(Obligation('loop.visits_every_element/loop%d' % ordinal, list(self.pc), z3.BoolVal(False),
                                               'body.post', None))
        if not spec.body_post or not spec.body_post_on_break:
            return
        saved = fr.env.get(spec.k)
        fr.env[spec.k] = k_after
        try:
            for bname, btext in spec.body_post.items():
                self.check('body.post/loop%d/%s' % (ordinal, bname), self.spec_eval(btext, fr), kind='body.post')
        finally:
            fr.env[spec.k] = saved

    def loop_exit(self, spec, ordinal, fr):
        for nm, text in spec.exit.items():
            self.check('loop.exit/loop%d/%s' % (ordinal, nm), self.spec_eval(text, fr), kind='loop.exit')

    def contains_yield(self, stmts):
        for st in stmts:
            for n in ast.walk(st):
                if isinstance(n, (ast.Yield, ast.YieldFrom)):
                    return True
        return False

    def havoc_like(self, cur, t, name):
        if t is not None:
            if isinstance(t, tuple) and t and t[0] == 'countbag':
                from .bags import CountBag
                b = CountBag(self.spec_env[t[1]], None, None, name)
                b.vc_havoc_inplace(self, name)
                return b
            if isinstance(t, tuple):
                return tuple(fresh(x, name) for x in t)
            if callable(t):
                return t(self, name)
            return fresh(t, name)
        if hasattr(cur, 'vc_havoc'):
            return cur.vc_havoc(self, name)
        if cur is None:
            raise Unsupported('cannot havoc loop variable %s whose value is None at loop entry (declare LoopSpec.types)' % name)
        if isinstance(cur, Sym):
            return fresh(cur.t, name)
        if isinstance(cur, bool):
            return fresh(BOOL, name)
        if isinstance(cur, int):
            return fresh(INT, name)
        if isinstance(cur, Fraction):
            return fresh(REAL, name)
        if isinstance(cur, str):
            return fresh(STR, name)
        if isinstance(cur, tuple):
            return tuple(self.havoc_like(x, None, name) for x in cur)
        if isinstance(cur, (list, dict, set)):
            # a container rebound inside the loop and not described by the loop contract: at an arbitrary iteration it is an
            # arbitrary value (sound over-approximation) - whatever a clause says about it cannot be proved
            return Unknown(name)
        raise Unsupported('cannot havoc loop variable %s of type %s (declare it in LoopSpec.types)' % (name, pytype(cur)))

    # ---- specs
    def spec_eval(self, text, fr, extra=None):
        """Evaluate a specification expression (python text) in pure mode."""
        tree = self.loader.parse_spec(text)
        sub = Frame(fr.func, fr.mod, dict(extra or {}), closure=fr)
        sub.yields = None
        if fr.yields is not None:
            sub.env.setdefault('Y', fr.yields)
        self.pure += 1
        try:
            return self.eval(tree, sub)
        finally:
            self.pure -= 1


_MISSING = object()


class SymRange:
    """range(start, stop, step) with possibly symbolic bounds."""

    def __init__(self, start, stop, step=1):
        self.start, self.stop, self.step = concretize(start), concretize(stop), concretize(step)

    def concrete(self):
        if any(is_sym(x) for x in (self.start, self.stop, self.step)):
            return None
        return range(self.start, self.stop, self.step)

    def _z(self):
        return zterm(self.start, INT), zterm(self.stop, INT), zterm(self.step, INT)

    def at(self, eng, k):
        a, b, c = self._z()
        return Sym(a + k * c, INT)

    def has(self, k):
        a, b, c = self._z()
        v = a + k * c
        if not is_sym(self.step):
            return v < b if self.step > 0 else v > b
        return z3.If(c > 0, v < b, v > b)

    def reached(self, k):
        """k iterations have been performed (k >= 0): the (k-1)-th element existed."""
        a, b, c = self._z()
        prev = a + (k - 1) * c
        if not is_sym(self.step):
            ok = prev < b if self.step > 0 else prev > b
        else:
            ok = z3.If(c > 0, prev < b, prev > b)
        return z3.Or(k == 0, ok)

    def exhausted(self, k):
        return z3.Not(self.has(k))

    def length(self):
        a, b, c = self._z()
        # for c > 0: max(0, ceil((b-a)/c))
        n = z3.If(b > a, (b - a + c - 1) / c, z3.IntVal(0))
        return n


class SeqIndexable:
    def __init__(self, seq):
        self.seq = seq

    def at(self, eng, k):
        return self.seq.get(k)

    def has(self, k):
        return k < self.seq.n

    def reached(self, k):
        return k <= self.seq.n

    def exhausted(self, k):
        return k >= self.seq.n


# ----------------------------------------------------------------------------- spec special forms

def _sf_forall(eng, node, fr, exists=False):
    # forall(i, body) / forall((i, j), body): names are bound to fresh integer constants
    names = node.args[0]
    types = None
    if isinstance(names, ast.Constant) and isinstance(names.value, str):
        # "c:str a b s:str" - typed bound variables
        parts = [p.split(':') for p in names.value.split()]
        names = [p[0] for p in parts]
        types = [p[1] if len(p) > 1 else INT for p in parts]
    elif isinstance(names, ast.Name):
        names = [names.id]
    else:
        names = [e.id for e in names.elts]
    types = types or [INT] * len(names)
    consts = [z3.Const('%s!q%d' % (n, next(_fresh_counter)), _SORT[t]()) for n, t in zip(names, types)]
    sub = Frame(fr.func, fr.mod, {n: Sym(c, t) for n, c, t in zip(names, consts, types)}, closure=fr)
    eng.pure += 1
    try:
        body = eng.ztruth(eng.eval(node.args[1], sub))
    finally:
        eng.pure -= 1
    q = z3.Exists(consts, body) if exists else z3.ForAll(consts, body)
    return Sym(q, BOOL)


def _sf_exists(eng, node, fr):
    return _sf_forall(eng, node, fr, exists=True)


def _quantified(e):
    todo, seen = [e], set()
    while todo:
        x = todo.pop()
        if x.get_id() in seen:
            continue
        seen.add(x.get_id())
        if z3.is_quantifier(x):
            return True
        todo.extend(x.children())
    return False


def _sf_implies(eng, node, fr):
    eng.pure += 1
    try:
        a = eng.ztruth(eng.eval(node.args[0], fr))
        if a is False or (not isinstance(a, bool) and z3.is_false(z3.simplify(a))):
            return True
        try:
            b = eng.ztruth(eng.eval(node.args[1], fr))
        except Unsupported:
            # the consequent is not even well-formed here (e.g. indexing an empty list): fine if the antecedent is
            # unsatisfiable under the path condition (0 <= j < len([]))
            if not isinstance(a, bool) and not _quantified(a) and not eng.feasible(a):
                return True
            raise
        except PyRaise:
            # the consequent raises (e.g. a tag that was never set): the clause is false wherever the antecedent holds
            if isinstance(a, bool):
                return not a
            return concretize(Sym(z3.Not(a), BOOL))
    finally:
        eng.pure -= 1
    return concretize(Sym(z3.Implies(a, b), BOOL))


def _sf_iff(eng, node, fr):
    eng.pure += 1
    try:
        a = eng.ztruth(eng.eval(node.args[0], fr))
        b = eng.ztruth(eng.eval(node.args[1], fr))
    finally:
        eng.pure -= 1
    return concretize(Sym(a == b, BOOL))


def _sf_ite(eng, node, fr):
    eng.pure += 1
    try:
        c = eng.ztruth(eng.eval(node.args[0], fr))
        a = eng.eval(node.args[1], fr)
        b = eng.eval(node.args[2], fr)
    finally:
        eng.pure -= 1
    return eng.ite(c, a, b)


def _sf_old(eng, node, fr):
    name = node.args[0].id
    return eng.lookup('old!' + name, fr)


def _sf_entry(eng, node, fr):
    """entry(x, n): value of local x when loop n was entered."""
    return eng.lookup('entry%d!%s' % (node.args[1].value, ast.unparse(node.args[0])), fr)


def _sf_head(eng, node, fr):
    """head(x, n): value of x at the head of the current iteration of loop n (after havoc)."""
    return eng.lookup('head%d!%s' % (node.args[1].value, ast.unparse(node.args[0])), fr)


def _sf_dget(eng, node, fr):
    """dget(d, k1, ..., kn, default): d[k1]...[kn] if every level exists else default."""
    d = eng.eval(node.args[0], fr)
    keys = [eng.eval(a, fr) for a in node.args[1:-1]]
    default = eng.eval(node.args[-1], fr)
    if hasattr(d, 'lookup_default'):
        return d.lookup_default(keys, default)
    cur = d
    for k in keys:
        if not isinstance(cur, dict) or k not in cur:
            return default
        cur = cur[k]
    return cur


def _sf_bagcount(eng, node, fr):
    """bagcount(x): occurrences of the abstraction key X in a (nested) task list."""
    from .bags import count_key
    v = eng.eval(node.args[0], fr)
    return concretize(Sym(count_key(eng, v, eng.spec_env['X']), INT))


def _sf_nsplit(eng, node, fr):
    from .strings import NSPLIT, zs
    return Sym(NSPLIT(zs(eng.eval(node.args[0], fr)), zs(eng.eval(node.args[1], fr))), INT)


def _sf_ycount(eng, node, fr):
    f = fr
    while f is not None:
        if isinstance(getattr(f, 'yields', None), DiscardYields):
            return concretize(Sym(f.yields.keycount, INT))
        f = f.closure
    raise Unsupported('ycount() outside a counting generator')


def _sf_seqlen(eng, node, fr):
    v = eng.eval(node.args[0], fr)
    if isinstance(v, GenResult):
        v = v.items
    if isinstance(v, SymSeq):
        return concretize(Sym(v.n, INT))
    return len(v)


def _sf_fdiv(eng, node, fr):
    """fdiv(a,b): mathematical floor(a/b) for b>0 (spec helper)."""
    a = eng.eval(node.args[0], fr)
    b = eng.eval(node.args[1], fr)
    return concretize(Sym(zfloordiv(zterm(a, INT), zterm(b, INT)), INT))


def _sf_cdiv(eng, node, fr):
    a = eng.eval(node.args[0], fr)
    b = eng.eval(node.args[1], fr)
    return concretize(Sym(-zfloordiv(-zterm(a, INT), zterm(b, INT)), INT))


SPEC_FORMS = {'forall': _sf_forall, 'exists': _sf_exists, 'implies': _sf_implies, 'iff': _sf_iff,
              'ite': _sf_ite, 'old': _sf_old, 'entry': _sf_entry, 'head': _sf_head, 'dget': _sf_dget, 'bagcount': _sf_bagcount, 'ycount': _sf_ycount, 'nsplit': _sf_nsplit, 'seqlen': _sf_seqlen, 'fdiv': _sf_fdiv, 'cdiv': _sf_cdiv}
