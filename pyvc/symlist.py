"""pyvc.symlist - mutable python list of unbounded symbolic length (wraps an immutable SymSeq value).
Elements are scalars/tuples of scalars, or objects represented by a scalar id through wrap/unwrap
(e.g. buffered molecules identified by their original index)."""
import z3

from .engine import (Sym, SymSeq, Obj, Unsupported, PyRaise, BoundMethod, INT, zterm, concretize, is_sym,
                     _fresh_counter)


class SymList:
    def __init__(self, seq, wrap=None, unwrap=None, name='lst'):
        self.seq = seq
        self.wrap = wrap
        self.unwrap = unwrap
        self.name = name

    @staticmethod
    def fresh(types, arity=None, name='lst', wrap=None, unwrap=None, eng=None):
        s = SymSeq.fresh(types, arity, name)
        if eng is not None:
            eng.assume(s.n >= 0)
        return SymList(s, wrap, unwrap, name)

    @staticmethod
    def from_concrete(items, types, arity=None, name='lst', wrap=None, unwrap=None):
        s = SymSeq.empty(types, arity, name)
        l = SymList(s, wrap, unwrap, name)
        for x in items:
            l.seq = l.seq.append(unwrap(x) if unwrap else x)
        return l

    def _elem(self, v):
        return self.wrap(v) if self.wrap else v

    # ---- engine protocol
    def vc_len(self, eng):
        return concretize(Sym(self.seq.n, INT))

    def vc_getitem(self, eng, idx, node=None):
        iz = zterm(idx, INT)
        n = self.seq.n
        if not eng.pure:
            if not eng.branch(z3.And(iz >= -n, iz < n)):
                raise PyRaise('IndexError', 'list index out of range', node=node)
            iz = z3.If(iz < 0, iz + n, iz)
        return self._elem(self.seq.get(iz))

    def vc_indexable(self, eng):
        outer = self

        class View:
            def at(s, eng_, k):
                return outer._elem(outer_seq.get(k))

            def has(s, k):
                return k < outer_seq.n

            def reached(s, k):
                return k <= outer_seq.n

            def exhausted(s, k):
                return k >= outer_seq.n
        outer_seq = self.seq      # iteration is over the list value at loop entry (mutation during iteration of the
        return View()             # same list is not modelled: rejected by the mutated-name check of the engine)

    def vc_iter(self, eng):
        n = z3.simplify(self.seq.n)
        if z3.is_int_value(n):
            return [self._elem(self.seq.get(i)) for i in range(n.as_long())]
        raise Unsupported('iteration over an unbounded list needs a loop contract')

    def vc_getattr(self, eng, attr, node=None):
        if attr == 'append':
            def append(eng_, args, kwargs):
                v = self.unwrap(args[0]) if self.unwrap else args[0]
                self.seq = self.seq.append(v)
            return BoundMethod('append', append)
        if attr == 'pop':
            def pop(eng_, args, kwargs):
                n = self.seq.n
                if args:
                    iz = zterm(args[0], INT)
                else:
                    iz = n - 1
                if not eng_.branch(z3.And(iz >= -n, iz < n)):
                    raise PyRaise('IndexError', 'pop index out of range', node=node)
                pos = z3.If(iz < 0, iz + n, iz)
                val = self.seq.get(pos)
                k = z3.Int('k!pop%d' % next(_fresh_counter))
                cols = [z3.Lambda([k], z3.If(k < pos, z3.Select(c, k), z3.Select(c, k + 1))) for c in self.seq.cols]
                self.seq = SymSeq(n - 1, cols, self.seq.types, self.seq.arity)
                return self._elem(val)
            return BoundMethod('pop', pop)
        raise Unsupported('list.%s on an unbounded list' % attr)

    def vc_havoc(self, eng, name):
        s = SymSeq.fresh(self.seq.types, self.seq.arity, name)
        eng.assume(s.n >= 0)
        return SymList(s, self.wrap, self.unwrap, name)

    def vc_havoc_inplace(self, eng, name):
        s = SymSeq.fresh(self.seq.types, self.seq.arity, name)
        eng.assume(s.n >= 0)
        self.seq = s

    def vc_snapshot(self):
        return SymList(self.seq, self.wrap, self.unwrap, self.name)

    def vc_truth(self):
        return self.seq.n > 0


class OpaqueList:
    """An unbounded list whose earlier contents are irrelevant to the function under contract: appends are logged
    (ghost) so that a postcondition can state exactly what was appended; reading it is unsupported."""

    def __init__(self, name='lst'):
        self.name = name
        self.appended = []

    def vc_getattr(self, eng, attr, node=None):
        if attr == 'append':
            return BoundMethod('append', lambda e, a, k: self.appended.append(a[0]))
        if attr == 'appended':
            return self.appended          # ghost log, for specifications
        raise Unsupported('%s on an opaque list' % attr)

    def vc_snapshot(self):
        o = OpaqueList(self.name)
        o.appended = list(self.appended)
        return o
