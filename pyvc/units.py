"""pyvc.units - unit kinds besides Contract: Lemma (SMT glue over contract clauses) and Bounded
(labelled bounded stand-ins, never counted as proved); and the per-unit entry point."""
import time
import traceback

import z3

from . import contract as C


class Lemma:
    """A lemma over contracts: build() -> list of (name, hypotheses[list of z3 Bool], goal z3 Bool).
    Hypotheses must be clauses of contracts (use pyvc.spec helpers) so that the lemma is a
    statement *about the contracts*, not about a model."""

    def __init__(self, prop, name, build, assumptions=(), timeout_ms=None):
        self.prop = prop
        self.name = name
        self.build = build
        self.assumptions = list(assumptions)
        self.timeout_ms = timeout_ms

    @property
    def uid(self):
        return '%s/%s' % (self.prop, self.name)


class Bounded:
    """Bounded stand-in: fn(tier, seed) -> dict(result='clean'|'violation'|'error', bound=..., tool=..., ...)."""

    def __init__(self, prop, name, fn, bound, tool):
        self.prop = prop
        self.name = name
        self.fn = fn
        self.bound = bound
        self.tool = tool

    @property
    def uid(self):
        return '%s/%s' % (self.prop, self.name)


def run_unit(u, tier, seed, registry, case=None):
    if isinstance(u, C.Contract):
        for k_ in C.RECHECK:
            C.RECHECK[k_] = 0
        r = C.Verifier(u, tier, seed, registry).run(cases=None if case is None else [case])
        r['cvc5_recheck'] = dict(C.RECHECK)
        if u.crosscheck is not None and case in (None, 0):
            try:
                from .crosscheck import crosscheck
                cc = crosscheck(u, tier, seed)
                r['crosscheck'] = cc
                seen_rv = set()
                for rv in cc.pop('real_violations', []):
                    if rv['clause'] in seen_rv:
                        continue
                    seen_rv.add(rv['clause'])
                    # CPython's own result breaks the postcondition on a sampled input (e.g. float rounding the exact
                    # arithmetic of the encoding does not see): a candidate that counts once the replay confirms it
                    r['obligations'].append({'id': '%s/crosscheck/%s' % (u.uid, rv['clause']), 'kind': 'post', 'result': 'candidate',
                                             'backend': 'cpython run', 'solver_s': 0.0, 'instances': 1, 'clause': rv['clause'],
                                             'cex': {'inputs': C.jsonable(rv['inputs']), '_raw_inputs': rv['inputs'], 'info': {}}})
                if cc.get('disagreements'):
                    r['errors'].append('engine/CPython cross-check disagreement: %s' % cc['disagreements'][:2])
            except Exception as e:
                r['errors'].append('cross-check crashed: %s\n%s' % (e, traceback.format_exc()))
        return r
    if isinstance(u, Lemma):
        t0 = time.time()
        res = {'unit': u.uid, 'obligations': [], 'errors': [], 'assumptions': list(u.assumptions), 'trusted': [],
               'sources': {}}
        try:
            items = u.build()
            for name, hyps, goal in items:
                v, model, be, dt = C.solve(hyps, goal, u.timeout_ms or (20000 if tier == 'quick' else 120000))
                rec = {'id': '%s/%s' % (u.uid, name), 'kind': 'lemma', 'backend': be, 'solver_s': round(dt, 3),
                       'instances': 1, 'clause': name,
                       'result': {'unsat': 'discharged', 'sat': 'refuted', 'unknown': 'unknown'}[v]}
                if v == 'sat':
                    rec['cex'] = {'inputs': None, 'note': 'lemma counter-model: %s' % (str(model)[:2000] if model is not None else None)}
                res['obligations'].append(rec)
            # vacuity: hypotheses of each lemma must be satisfiable
            for name, hyps, goal in items:
                s = z3.Solver()
                s.set('timeout', 10000)
                s.add(*hyps)
                r = s.check()
                res['obligations'].append({'id': '%s/%s/vac.hyps_sat' % (u.uid, name), 'kind': 'vacuity', 'backend': 'z3',
                                           'solver_s': 0.0, 'instances': 1,
                                           'result': 'discharged' if r != z3.unsat else 'failed'})
        except Exception as e:
            res['errors'].append('lemma crashed: %s\n%s' % (e, traceback.format_exc()))
        res['wall_s'] = round(time.time() - t0, 3)
        return res
    if isinstance(u, Bounded):
        t0 = time.time()
        try:
            b = u.fn(tier, seed)
        except Exception as e:
            b = {'result': 'error', 'note': '%s\n%s' % (e, traceback.format_exc())}
        b.update({'id': u.uid, 'bound': u.bound, 'tool': u.tool, 'label': 'bounded (not counted as proved)',
                  'wall_s': round(time.time() - t0, 2)})
        errs = ['bounded stand-in %s errored: %s' % (u.uid, b.get('note'))] if b.get('result') == 'error' else []
        return {'unit': u.uid, 'bounded': b, 'errors': errs, 'obligations': [], 'trusted': [], 'sources': {},
                'assumptions': []}
    raise TypeError(u)


def share(unit, prop, name=None):
    """the same contract unit claimed by another property that depends on the same function (re-verified there, its
    obligations are listed under that property's id)"""
    import copy
    v = copy.copy(unit)
    v.prop = prop
    if name:
        v.name = name
    return v
