"""pyvc.symdict - unbounded dictionaries as z3 arrays (nested dict-of-dict supported).

levels: list of key shapes, one per nesting level, each a tuple of scalar types, e.g.
  counts[(contig, bin_start, bin_end)][sample] -> int  is  levels=[(STR,INT,INT),(STR,)], vtype=INT.
present[i] : array over the key components of levels 0..i -> Bool   (key exists at level i)
value      : array over all key components -> vtype
A SymDict object is a *view* (prefix of fixed key components) on a shared store, so that
`d[k1][k2] += 1` mutates the root dictionary, as in python.
"""
import itertools

import z3

from .engine import (Sym, Unsupported, PyRaise, INT, BOOL, REAL, STR, zterm, pytype, is_sym, _SORT, BoundMethod,
                     concretize)

_ctr = itertools.count()


class _Store:
    def __init__(self, present, value):
        self.present = list(present)
        self.value = value


class SymDict:
    autoviv = False     # defaultdict of inner mappings: see vc_getitem

    def __init__(self, levels, vtype, store=None, prefix=(), name='d', default=None):
        self.levels = [tuple(l) for l in levels]
        self.vtype = vtype
        self.default = default     # collections.Counter-like: reading a missing key gives this value (no KeyError)
        self.prefix = tuple(prefix)
        self.name = name
        if store is None:
            k = next(_ctr)
            present = []
            dom = []
            for i, lv in enumerate(self.levels):
                dom += [_SORT[t]() for t in lv]
                present.append(z3.Array('%s!%d.present%d' % (name, k, i), *(dom + [z3.BoolSort()])))
            value = z3.Array('%s!%d.value' % (name, k), *(dom + [_SORT[vtype]()]))
            store = _Store(present, value)
        self.store = store

    # ---- helpers
    @property
    def depth(self):
        n, d = len(self.prefix), 0
        for lv in self.levels:
            if n == 0:
                break
            n -= len(lv)
            d += 1
        return d

    def _key(self, k):
        lv = self.levels[self.depth]
        comps = list(k) if isinstance(k, tuple) else [k]
        if len(comps) != len(lv):
            raise Unsupported('SymDict key arity mismatch: %r vs %r' % (comps, lv))
        out = []
        for c, t in zip(comps, lv):
            if c is None:
                raise Unsupported('None inside a SymDict key')
            out.append(zterm(c, t))
        return tuple(out)

    def present_at(self, key):
        idx = self.prefix + key
        return z3.Select(self.store.present[self.depth], *idx)

    @staticmethod
    def empty(levels, vtype, name='d', default=None):
        d = SymDict(levels, vtype, name=name, default=default)
        dom = []
        for i, lv in enumerate(d.levels):
            dom += [_SORT[t]() for t in lv]
            vars_ = [z3.Const('e!%d_%d' % (i, j), s) for j, s in enumerate(dom)]
            d.store.present[i] = z3.Lambda(vars_, z3.BoolVal(False))
        return d

    # ---- engine protocol
    def vc_contains(self, eng, k):
        return self.present_at(self._key(k))

    def vc_getitem(self, eng, k, node=None):
        key = self._key(k)
        idx = self.prefix + key
        if self.default is not None and self.depth == len(self.levels) - 1:
            return Sym(z3.If(self.present_at(key), z3.Select(self.store.value, *idx), zterm(self.default, self.vtype)), self.vtype)
        if self.autoviv and self.depth < len(self.levels) - 1:
            # collections.defaultdict(<inner mapping>): reading a missing key inserts an empty inner mapping
            if not eng.pure:
                was = self.present_at(key)
                d = self.depth
                self.store.present[d] = z3.Store(self.store.present[d], *(idx + (z3.BoolVal(True),)))
                dom = []
                for i, lv in enumerate(self.levels):
                    dom += [_SORT[t]() for t in lv]
                    if i <= d:
                        continue
                    vars_ = [z3.Const('v!%d_%d' % (i, j), srt) for j, srt in enumerate(dom)]
                    same = z3.And(*[vars_[j] == idx[j] for j in range(len(idx))])
                    old = z3.Select(self.store.present[i], *vars_)
                    self.store.present[i] = z3.Lambda(vars_, z3.If(z3.And(same, z3.Not(was)), z3.BoolVal(False), old))
            v = SymDict(self.levels, self.vtype, self.store, idx, self.name, self.default)
            v.autoviv = True
            return v
        if not eng.pure:
            if not eng.branch(self.present_at(key)):
                raise PyRaise('KeyError', node=node)
        if self.depth == len(self.levels) - 1:
            return Sym(z3.Select(self.store.value, *idx), self.vtype)
        v = SymDict(self.levels, self.vtype, self.store, idx, self.name, self.default)
        v.autoviv = self.autoviv
        return v

    def vc_setitem(self, eng, k, v, node=None):
        key = self._key(k)
        idx = self.prefix + key
        d = self.depth
        self.store.present[d] = z3.Store(self.store.present[d], *(idx + (z3.BoolVal(True),)))
        if d == len(self.levels) - 1:
            self.store.value = z3.Store(self.store.value, *(idx + (zterm(v, self.vtype),)))
            return
        # assigning a (new, empty) inner dict: clear the deeper levels under this prefix
        if isinstance(v, dict) and len(v) == 0:
            dom = []
            for i, lv in enumerate(self.levels):
                dom += [_SORT[t]() for t in lv]
                if i <= d:
                    continue
                vars_ = [z3.Const('s!%d_%d' % (i, j), s) for j, s in enumerate(dom)]
                same = z3.And(*[vars_[j] == idx[j] for j in range(len(idx))])
                old = z3.Select(self.store.present[i], *vars_)
                self.store.present[i] = z3.Lambda(vars_, z3.If(same, z3.BoolVal(False), old))
            return
        raise Unsupported('SymDict: assignment of a non-empty inner dict')

    def vc_getattr(self, eng, attr, node=None):
        if attr == 'get':
            def get(eng_, args, kwargs):
                key = self._key(args[0])
                default = args[1] if len(args) > 1 else None
                if self.depth != len(self.levels) - 1:
                    raise Unsupported('SymDict.get on a non-leaf level')
                idx = self.prefix + key
                if eng_.pure and default is not None:
                    return Sym(z3.If(self.present_at(key), z3.Select(self.store.value, *idx), zterm(default, self.vtype)), self.vtype)
                if eng_.branch(self.present_at(key)):
                    return Sym(z3.Select(self.store.value, *idx), self.vtype)
                return default
            return BoundMethod('get', get)
        raise Unsupported('SymDict.%s' % attr)

    def vc_havoc(self, eng, name):
        d = SymDict(self.levels, self.vtype, name=name, default=self.default)
        d.autoviv = self.autoviv
        return d

    def vc_havoc_inplace(self, eng, name):
        self.store = SymDict(self.levels, self.vtype, name=name).store

    def vc_snapshot(self):
        d = SymDict(self.levels, self.vtype, _Store(self.store.present, self.store.value), self.prefix, self.name,
                    self.default)
        d.autoviv = self.autoviv
        return d

    # ---- spec access
    def lookup_default(self, keys, default):
        """value at the full key path if every level is present, else default (spec helper dget)."""
        idx = ()
        conds = []
        view = SymDict(self.levels, self.vtype, self.store, self.prefix, self.name)
        for k in keys:
            key = view._key(k)
            conds.append(view.present_at(key))
            idx = view.prefix + key
            view = SymDict(self.levels, self.vtype, self.store, idx, self.name)
        if view.depth != len(self.levels):
            raise Unsupported('dget: key path does not reach the leaves')
        return Sym(z3.If(z3.And(*conds), z3.Select(self.store.value, *idx), zterm(default, self.vtype)), self.vtype)

    def to_python(self, model, keys):
        return None
