"""pyvc.externals - assumed contracts of non-repo functions (DESIGN appendix C, assumption A4).
Every name resolved here is recorded in engine.trusted_used and reported in the evidence."""
import ast
import itertools
import string
from fractions import Fraction

import z3

from .engine import (Sym, SymSeq, SymRange, GenResult, ModRef, Builtin, Obj, Unsupported, PyRaise, INT, BOOL, REAL,
                     STR, is_sym, pytype, zterm, zfloor, zceil, ztrunc, concretize)

ALIASES = {'np': 'numpy', 'pd': 'pandas'}


def module_ref(dotted):
    return ModRef(ALIASES.get(dotted, dotted))


def _real(eng, v):
    v = concretize(v)
    if is_sym(v):
        return zterm(v, REAL)
    return zterm(Fraction(v), REAL)


def np_ceil(eng, args, kwargs, node):
    v = concretize(args[0])
    if not is_sym(v):
        import math
        return Fraction(math.ceil(Fraction(v)))
    if v.t == REAL and v.ratio is not None:
        from .engine import ratio_ceil
        c = ratio_ceil(v)
        return Sym(z3.ToReal(c), REAL, (c, z3.IntVal(1)))
    return Sym(z3.ToReal(zceil(_real(eng, v))), REAL)


def np_floor(eng, args, kwargs, node):
    v = concretize(args[0])
    if not is_sym(v):
        import math
        return Fraction(math.floor(Fraction(v)))
    if v.t == REAL and v.ratio is not None:
        from .engine import ratio_floor
        c = ratio_floor(v)
        return Sym(z3.ToReal(c), REAL, (c, z3.IntVal(1)))
    return Sym(z3.ToReal(zfloor(_real(eng, v))), REAL)


def math_ceil(eng, args, kwargs, node):
    v = concretize(args[0])
    if not is_sym(v):
        import math
        return math.ceil(Fraction(v))
    if v.t == REAL and v.ratio is not None:
        from .engine import ratio_ceil
        return Sym(ratio_ceil(v), INT)
    return Sym(zceil(_real(eng, v)), INT)


def math_floor(eng, args, kwargs, node):
    v = concretize(args[0])
    if not is_sym(v):
        import math
        return math.floor(Fraction(v))
    if v.t == REAL and v.ratio is not None:
        from .engine import ratio_floor
        return Sym(ratio_floor(v), INT)
    return Sym(zfloor(_real(eng, v)), INT)


def it_chain(eng, args, kwargs, node):
    # chain of concrete-spine iterables, or a ChainView when one part is symbolic
    parts = []
    symbolic = False
    for a in args:
        if isinstance(a, GenResult):
            a = a.items
        if isinstance(a, SymSeq) and not z3.is_int_value(z3.simplify(a.n)):
            symbolic = True
        parts.append(a)
    if not symbolic:
        out = []
        for p in parts:
            out.extend(eng.iterate_concrete(p))
        return out
    return ChainView(eng, parts)


class ChainView:
    """chain(symseq, concrete tail...) as an indexable: used by inductive loops."""

    def __init__(self, eng, parts):
        if not isinstance(parts[0], SymSeq) or any(isinstance(p, SymSeq) for p in parts[1:]):
            raise Unsupported('chain(): only (symbolic sequence, concrete tails...) is modelled')
        self.head = parts[0]
        self.tail = []
        for p in parts[1:]:
            self.tail.extend(eng.iterate_concrete(p))

    def vc_indexable(self, eng):
        return self

    def at(self, eng, k):
        # k < n: head[k]; k == n+j: tail[j]
        n = self.head.n
        v = self.head.get(k)
        for j in reversed(range(len(self.tail))):
            v = eng.ite(k == n + j, self.tail[j], v)
        return v

    def has(self, k):
        return k < self.head.n + len(self.tail)

    def reached(self, k):
        return k <= self.head.n + len(self.tail)

    def exhausted(self, k):
        return k >= self.head.n + len(self.tail)

    def vc_iter(self, eng):
        raise Unsupported('iteration over chain(symbolic sequence, ...) needs a loop invariant')

    def vc_getitem(self, eng, idx, node=None):
        return self.at(eng, zterm(idx, INT))


def it_product(eng, args, kwargs, node):
    lists = [eng.iterate_concrete(a) for a in args]
    rep = kwargs.get('repeat', 1)
    return [tuple(t) for t in itertools.product(*lists, repeat=rep)]


def it_combinations(eng, args, kwargs, node):
    return [tuple(t) for t in itertools.combinations(eng.iterate_concrete(args[0]), args[1])]


def mi_windowed(eng, args, kwargs, node):
    seq = args[0]
    n = args[1]
    if isinstance(seq, GenResult):
        seq = seq.items
    items = eng.iterate_concrete(seq)
    if len(items) < n:
        return [tuple(items) + (None,) * (n - len(items))]
    return [tuple(items[i:i + n]) for i in range(len(items) - n + 1)]


class DefaultDict(dict):
    def __init__(self, factory=None):
        dict.__init__(self)
        self.default_factory = factory


class CounterDict(dict):
    """collections.Counter: missing keys read as 0 (not inserted)."""

    def vc_missing(self, eng, k):
        return 0

    def vc_binop(self, eng, op, other, reflected, node=None):
        """Counter + Counter (also `+=`): counts added key by key, keys whose sum is not positive are dropped (CPython)"""
        if not isinstance(op, ast.Add) or not isinstance(other, dict):
            raise Unsupported('Counter %s %s' % (type(op).__name__, type(other).__name__))
        a, b = (other, self) if reflected else (self, other)
        out = CounterDict()
        for k in list(a.keys()) + [k for k in b.keys() if k not in a]:
            v = eng.binop(ast.Add(), a.get(k, 0), b.get(k, 0))
            pos = eng.order(ast.Gt(), v, 0, None)
            if pos is True or (pos is not False and eng.branch(pos)):
                out[k] = v
        return out

    def vc_most_common(self, eng, args, kwargs):
        items = list(self.items())
        if any(is_sym(v) for _, v in items):
            # sorted(items, key=count, reverse=True): stable, ties keep insertion order.  Insertion sort deciding each
            # comparison on the path (at most n! paths; used for a handful of keys)
            if len(items) > 4:
                raise Unsupported('Counter.most_common with more than 4 symbolic counts')
            out = []
            for kv in items:
                pos = len(out)
                while pos > 0:
                    c = eng.order(ast.Gt(), kv[1], out[pos - 1][1], None)
                    if c is True or (c is not False and eng.branch(c)):
                        pos -= 1
                    else:
                        break
                out.insert(pos, kv)
            n = args[0] if args else None
            return out[:n] if n is not None else out
        items.sort(key=lambda kv: -kv[1])
        n = args[0] if args else None
        return items[:n] if n is not None else items


def it_groupby(eng, args, kwargs, node):
    """itertools.groupby: runs of consecutive elements with equal keys (the equalities between neighbouring keys are decided on
    the path); every group is an eager list here (CPython invalidates a group when the next one is requested - code that keeps
    groups beyond that is outside this model)"""
    items = eng.iterate_concrete(args[0])
    keyf = args[1] if len(args) > 1 else kwargs.get('key')
    out, cur_key, cur = [], None, None
    for x in items:
        k = eng.call(keyf, [x], {}, node) if keyf is not None else x
        same = False
        if cur is not None:
            e = eng.equals(cur_key, k)
            same = e is True or (e is not False and eng.branch(e))
        if same:
            cur.append(x)
        else:
            cur_key, cur = k, [x]
            out.append((k, GenResult(cur)))
    return GenResult(out)


def os_system(eng, args, kwargs, node):
    """os.system(<command>): an external program runs; its exit status is arbitrary, it changes nothing the model tracks"""
    from .engine import fresh, INT
    st = fresh(INT, 'exit_status')
    return st


def col_defaultdict(eng, args, kwargs, node):
    return DefaultDict(args[0] if args else None)


col_counter_factory = Builtin('collections.Counter', lambda e, a, k, n: CounterDict())


def col_counter(eng, args, kwargs, node):
    c = CounterDict()
    if args:
        src = args[0]
        if isinstance(src, dict):
            c.update(src)
        else:
            items = [eng.hashable(x) for x in eng.iterate_concrete(src)]
            if any(is_sym(x) for x in items):
                return SymCounter(items)
            for x in items:
                c[x] = c.get(x, 0) + 1
    return c


class SymCounter:
    """collections.Counter over a fixed number of symbolic elements: c[key] = number of elements equal to key"""

    def __init__(self, items):
        self.items = items

    def vc_getitem(self, eng, key, node=None):
        tot = 0
        for x in self.items:
            e = eng.equals(x, key)
            tot = eng.binop(ast.Add(), tot, int(e) if isinstance(e, bool) else Sym(z3.If(e, 1, 0), INT))
        return tot

    def _distinct(self, eng):
        """(key, count) per distinct element in first-occurrence order: decides the equalities between the elements
        (path split, at most 2^(n-1) paths for n elements)"""
        out = []
        for i, x in enumerate(self.items):
            dup = False
            for y, _ in out:
                e = eng.equals(x, y)
                if e is True or (e is not False and eng.branch(e)):
                    dup = True
                    break
            if not dup:
                out.append((x, None))
        return [(x, self.vc_getitem(eng, x)) for x, _ in out]

    def vc_getattr(self, eng, attr, node=None):
        from .engine import BoundMethod
        if attr == 'items':
            return BoundMethod('items', lambda e, a, k: self._distinct(e))
        if attr == 'keys':
            return BoundMethod('keys', lambda e, a, k: [x for x, _ in self._distinct(e)])
        if attr == 'values':
            return BoundMethod('values', lambda e, a, k: [c for _, c in self._distinct(e)])
        if attr == 'get':
            return BoundMethod('get', lambda e, a, k: self.vc_getitem(e, a[0]))
        raise Unsupported('attribute %s on SymCounter' % attr)


class NamedTupleType:
    """collections.namedtuple('Name', 'a b c'): instances are records with those fields (tuple indexing supported)"""

    def __init__(self, name, fields):
        self.name = name
        self.fields = fields


def col_namedtuple(eng, args, kwargs, node):
    fields = args[1].replace(',', ' ').split() if isinstance(args[1], str) else list(args[1])
    return NamedTupleType(args[0], fields)


def make_namedtuple(eng, nt, args, kwargs):
    vals = list(args) + [kwargs[f] for f in nt.fields[len(args):]]
    o = Obj(nt.name, dict(zip(nt.fields, vals)))
    o.vc_fields = nt.fields
    return o


TABLE = {
    'matplotlib.pyplot.get_cmap': lambda e, a, k, n: Obj('Colormap', {}),
    'copy.copy': lambda e, a, k, n: a[0],
    'numpy.mean': lambda e, a, k, n: 0,
    'traceback.format_exc': lambda e, a, k, n: 'traceback',
    'collections.namedtuple': col_namedtuple,
    'numpy.ceil': np_ceil, 'numpy.floor': np_floor, 'math.ceil': math_ceil, 'math.floor': math_floor,
    'itertools.chain': it_chain, 'itertools.chain.from_iterable': lambda e, a, k, n: it_chain(e, list(e.iterate_concrete(a[0])), {}, n),
    'itertools.product': it_product, 'itertools.groupby': it_groupby, 'os.system': os_system, 'itertools.combinations': it_combinations,
    'more_itertools.windowed': mi_windowed,
    'collections.defaultdict': col_defaultdict, 'collections.Counter': col_counter,
}

CONSTANTS = {
    'string.ascii_letters': string.ascii_letters, 'string.ascii_uppercase': string.ascii_uppercase,
    'string.ascii_lowercase': string.ascii_lowercase, 'string.digits': string.digits,
    'numpy.inf': None, 'math.inf': None, 'sys.argv': ['prog'], 're.UNICODE': 32,
}

EXTRA = {}      # contracts may register further externals: dotted -> fn(eng,args,kwargs,node)


def resolve(dotted, eng):
    head = dotted.split('.')[0]
    dotted = '.'.join([ALIASES.get(head, head)] + dotted.split('.')[1:])
    from . import nparr
    if dotted in nparr.CONST:
        return nparr.CONST[dotted]
    if dotted == 'object' or dotted.endswith('.object'):
        return 'object'
    if dotted in nparr.TABLE and dotted not in EXTRA:
        eng.trusted_used.add(dotted)
        return Builtin(dotted, nparr.TABLE[dotted])
    if dotted in CONSTANTS and CONSTANTS[dotted] is not None:
        eng.trusted_used.add(dotted)
        return CONSTANTS[dotted]
    if dotted in EXTRA or dotted in TABLE:
        fn = EXTRA.get(dotted) or TABLE[dotted]
        eng.trusted_used.add(dotted)
        return Builtin(dotted, fn)
    return ModRef(dotted)


def call(dotted, eng, args, kwargs, node):
    head = dotted.split('.')[0]
    dotted = '.'.join([ALIASES.get(head, head)] + dotted.split('.')[1:])
    fn = EXTRA.get(dotted) or TABLE.get(dotted)
    if fn is None:
        from . import nparr
        fn = nparr.TABLE.get(dotted)
    if fn is None:
        raise Unsupported('external %s has no assumed contract' % dotted)
    eng.trusted_used.add(dotted)
    return fn(eng, args, kwargs, node)


from . import regex as _regex      # noqa: E402  (re.fullmatch / re.match / re.search with constant patterns -> z3 InRe)
TABLE.update(_regex.TABLE)
_regex.install_stubs()
