"""pyvc.strings - str methods over symbolic strings (z3 sequence theory; cvc5 --strings-exp as
second back end).  Character-level helpers assume single-character strings where stated."""
import ast

import z3

from .engine import (Sym, BoundMethod, Unsupported, PyRaise, INT, BOOL, STR, is_sym, pytype, zterm, concretize)


def zs(v):
    return zterm(v, STR)


def str_to_int(eng, v, node):
    """int(s) for a symbolic string: defined for optional sign + digits (no whitespace handling:
    assumption recorded by the contract that uses it)."""
    if getattr(v, 'src', None) is not None:
        return Sym(v.src, INT)          # int(str(i)) == i
    s = v.z
    digits = z3.InRe(s, z3.Plus(z3.Range('0', '9')))
    if not eng.branch(digits):
        raise PyRaise('ValueError', 'invalid literal for int()', node=node)
    return Sym(z3.StrToInt(s), INT)


def sym_ord(eng, v, node):
    if v.t != STR:
        raise PyRaise('TypeError', 'ord() expected string', node=node)
    if not eng.branch(z3.Length(v.z) == 1):
        raise PyRaise('TypeError', 'ord() expected a character', node=node)
    return Sym(z3.StrToCode(v.z), INT)


def sym_chr(eng, v, node):
    if not eng.branch(z3.And(v.z >= 0, v.z < 0x110000)):
        raise PyRaise('ValueError', 'chr() arg not in range', node=node)
    return Sym(z3.StrFromCode(v.z), STR)


def str_method(eng, base, attr, node):
    sym = is_sym(base)

    def native(eng_, args, kwargs):
        args = [a.items if type(a).__name__ == 'GenResult' else a for a in args]
        if attr == 'format' and not sym:
            import string as _string
            from . import segstr
            parts = []
            auto = 0
            for lit, field, spec, conv in _string.Formatter().parse(base):
                if lit:
                    parts.append(lit)
                if field is None:
                    continue
                if spec or conv:
                    raise Unsupported('str.format with a format spec')
                if field == '':
                    val = args[auto]
                    auto += 1
                elif field.isdigit():
                    val = args[int(field)]
                elif field in kwargs:
                    val = kwargs[field]
                else:
                    raise PyRaise('KeyError', field, node=node)
                parts += segstr.parts_of(eng_.to_str(val))
            return segstr.build(parts)
        if not any(eng_._has_sym(a) for a in args) and not any(eng_._has_sym(v) for v in kwargs.values()) and not sym:
            try:
                return getattr(base, attr)(*args, **kwargs)
            except (ValueError, TypeError, IndexError) as e:
                raise PyRaise(type(e).__name__, str(e), node=node)
        return symbolic(eng_, args, kwargs)

    def symbolic(eng_, args, kwargs):
        from . import segstr
        if attr == 'split' and args and isinstance(args[0], str) and len(args[0]) == 1:
            try:
                return segstr.split(eng_, base, args[0], args[1] if len(args) > 1 else -1)
            except Unsupported:
                pass
        if attr == 'split' and not args and not kwargs:
            return segstr.split_whitespace(eng_, base)
        if attr == 'split' and args and args[0] is None and not kwargs and (len(args) == 1 or isinstance(args[1], int)):
            return segstr.split_whitespace(eng_, base, args[1] if len(args) > 1 else -1)
        if attr == 'replace' and len(args) == 2 and isinstance(args[0], str) and isinstance(args[1], str) and len(args[0]) >= 1:
            try:
                return segstr.replace(eng_, base, args[0], args[1])
            except Unsupported:
                pass
        if attr == 'strip' and not args:
            return segstr.strip(eng_, base)
        if attr == 'rstrip' and not args:
            return segstr.strip(eng_, base, left=False)
        if attr == 'count' and args and isinstance(args[0], str):
            return segstr.count(eng_, base, args[0])
        if attr == 'startswith' and args and isinstance(args[0], str):
            r = segstr.startswith(eng_, base, args[0])
            if r is not None:
                return r
        if attr == 'join':
            items = eng_.iterate_concrete(args[0])
            out = []
            for i, x in enumerate(items):
                if pytype(x) != STR:
                    raise PyRaise('TypeError', 'sequence item: expected str instance', node=node)
                if i:
                    out += segstr.parts_of(base)
                out += segstr.parts_of(x)
            return segstr.build(out)
        s = zs(base)
        if attr == 'startswith':
            pre = args[0]
            if isinstance(pre, tuple):
                return Sym(z3.Or(*[z3.PrefixOf(zs(p), s) for p in pre]), BOOL)
            return Sym(z3.PrefixOf(zs(pre), s), BOOL)
        if attr == 'endswith':
            suf = args[0]
            if isinstance(suf, tuple):
                return Sym(z3.Or(*[z3.SuffixOf(zs(p), s) for p in suf]), BOOL)
            return Sym(z3.SuffixOf(zs(suf), s), BOOL)
        if attr == 'find':
            if len(args) > 1:
                raise Unsupported('str.find with start')
            return Sym(z3.IndexOf(s, zs(args[0]), z3.IntVal(0)), INT)
        if attr == 'index':
            r = z3.IndexOf(s, zs(args[0]), z3.IntVal(0))
            if eng_.branch(r < 0):
                raise PyRaise('ValueError', 'substring not found', node=node)
            return Sym(r, INT)
        if attr == 'count' and not is_sym(args[0]) and len(args[0]) == 1:
            raise Unsupported('str.count on symbolic string')
        if attr == 'replace':
            return Sym(z3.Replace(s, zs(args[0]), zs(args[1])), STR) if False else _replace_all(eng_, s, args)
        if attr == 'join':
            items = eng_.iterate_concrete(args[0])
            res = None
            for x in items:
                if pytype(x) != STR:
                    raise PyRaise('TypeError', 'sequence item: expected str instance', node=node)
                res = zs(x) if res is None else z3.Concat(res, s, zs(x))
            return concretize(Sym(res, STR)) if res is not None else ''
        if attr == 'split' and len(args) >= 1 and not is_sym(args[0]):
            return SplitParts(base, args[0])
        if attr == 'isdigit' and not args:
            if getattr(base, 'src', None) is not None:
                # str(n) of an integer: all digits iff n is not negative (a minus sign is no digit)
                return Sym(base.src >= 0, BOOL)
            return Sym(z3.And(z3.Length(s) >= 1, z3.InRe(s, z3.Star(z3.Range('0', '9')))), BOOL)
        if attr in ('isupper', 'islower') and not args:
            # single character: inside A-Z / a-z
            lo, hi = ('A', 'Z') if attr == 'isupper' else ('a', 'z')
            if not eng_.feasible(z3.Length(s) != 1):
                return Sym(z3.InRe(s, z3.Range(lo, hi)), BOOL)
            raise Unsupported('str.%s on a symbolic string of unknown length' % attr)
        if attr in ('lstrip', 'rstrip') and len(args) == 1 and isinstance(args[0], str) and args[0]:
            # strip a set of characters from one end of a string whose length the path fixes: decide character by character
            n = None if eng_.pure else eng_.fixed_length(base)
            if n is None:
                if eng_.pure:
                    raise Unsupported('str.%s(chars) on a symbolic string of unknown length' % attr)
                from . import segstr
                return segstr.strip_chars(eng_, base, args[0], attr == 'lstrip')
            idxs = range(n) if attr == 'lstrip' else range(n - 1, -1, -1)
            keep = 0
            for cnt, i in enumerate(idxs):
                ch = z3.SubString(s, i, 1)
                if eng_.branch(z3.Or(*[ch == z3.StringVal(c) for c in args[0]])):
                    keep = cnt + 1
                    continue
                break
            if attr == 'lstrip':
                return Sym(z3.SubString(s, keep, n - keep), STR)
            return Sym(z3.SubString(s, 0, n - keep), STR)
        if attr in ('upper', 'lower') and not args:
            # uninterpreted: the same string gives the same result (enough when code and specification both apply it)
            return Sym(_CASEFN[attr](s), STR)
        if attr == 'format':
            raise Unsupported('str.format on symbolic')
        raise Unsupported('str.%s on symbolic string' % attr)

    return BoundMethod(attr, native)


_CASEFN = {'upper': z3.Function('str_upper', z3.StringSort(), z3.StringSort()),
           'lower': z3.Function('str_lower', z3.StringSort(), z3.StringSort())}
NSPLIT = z3.Function('nsplit', z3.StringSort(), z3.StringSort(), z3.IntSort())


class SplitParts:
    """s.split(sep) of a symbolic string, observed only through its length (= occurrences of sep + 1, an
    uninterpreted function of (s, sep) that specifications can name with nsplit(s, sep))."""

    def __init__(self, s, sep):
        self.s, self.sep = s, sep

    def vc_len(self, eng):
        n = NSPLIT(zs(self.s), zs(self.sep))
        eng.assume(n >= 1)
        return Sym(n, INT)

    def vc_iter(self, eng):
        raise Unsupported('iteration over the parts of a symbolic string split')


def _replace_all(eng, s, args):
    if hasattr(z3, 'ReplaceAll'):
        return Sym(z3.ReplaceAll(s, zs(args[0]), zs(args[1])), STR)
    raise Unsupported('str.replace (replace_all) not available')
