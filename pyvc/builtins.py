"""pyvc.builtins - Python builtins and methods of native values over symbolic values."""
import ast
from fractions import Fraction

import z3

from .engine import (Sym, SymSeq, SymRange, GenResult, Builtin, BoundMethod, Obj, FuncRef, ClassRef, Unsupported,
                     PyRaise, INT, BOOL, REAL, STR, is_sym, pytype, zterm, ztrunc, zfloor, zceil, concretize, fresh,
                     exc_isa)


class TypeObj(Builtin):
    """A builtin type (int, str, ...): callable + usable in isinstance / `type(x) is T`."""

    def __init__(self, name, fn, tags):
        Builtin.__init__(self, name, fn)
        self.tags = tags


def _len(eng, args, kwargs, node):
    v = args[0]
    if isinstance(v, GenResult):
        raise PyRaise('TypeError', "object of type 'generator' has no len()", node=node)
    if isinstance(v, SymSeq):
        return concretize(Sym(v.n, INT))
    if is_sym(v):
        if v.t == STR:
            if getattr(v, 'parts', None):
                # length of a concatenation = sum of the lengths of its parts (keeps length reasoning linear)
                tot = 0
                zs_ = []
                for p in v.parts:
                    if isinstance(p, str):
                        tot += len(p)
                    else:
                        zs_.append(z3.Length(p.z))
                return Sym(z3.IntVal(tot) + z3.Sum(zs_) if zs_ else z3.IntVal(tot), INT)
            return Sym(z3.Length(v.z), INT)
        raise PyRaise('TypeError', 'len() of %s' % v.t, node=node)
    if isinstance(v, Obj):
        m = eng.find_method(v, '__len__')
        if m is not None:
            return eng.call_function(m, [], {})
        h = eng.stub_method(v, '__len__')
        if h is not None:
            return h(eng, [], {})
        raise PyRaise('TypeError', 'object has no len()', node=node)
    if hasattr(v, 'vc_len'):
        return v.vc_len(eng)
    if v is None or isinstance(v, (int, Fraction)):
        raise PyRaise('TypeError', 'object has no len()', node=node)
    return len(v)


def _range(eng, args, kwargs, node):
    args = [concretize(a) for a in args]
    for a in args:
        if pytype(a) not in (INT, BOOL):
            raise PyRaise('TypeError', 'range() argument must be int, not %s' % pytype(a), node=node)
    if len(args) == 1:
        a, b, c = 0, args[0], 1
    elif len(args) == 2:
        a, b, c = args[0], args[1], 1
    else:
        a, b, c = args
    if not any(is_sym(x) for x in (a, b, c)):
        try:
            return range(a, b, c)
        except ValueError:
            raise PyRaise('ValueError', 'range() arg 3 must not be zero', node=node)
    if is_sym(c):
        if eng.branch(zterm(c, INT) == 0):
            raise PyRaise('ValueError', 'range() arg 3 must not be zero', node=node)
    return SymRange(a, b, c)


def _int(eng, args, kwargs, node):
    if not args:
        return 0
    v = concretize(args[0])
    if is_sym(v):
        if v.t == INT:
            return v
        if v.t == BOOL:
            return Sym(zterm(v, INT), INT)
        if v.t == REAL:
            if v.ratio is not None:
                from .engine import ratio_trunc
                return Sym(ratio_trunc(v), INT)
            return Sym(ztrunc(v.z), INT)
        if v.t == STR:
            from . import strings
            return strings.str_to_int(eng, v, node)
    if isinstance(v, Fraction):
        return int(v)
    if v is None or isinstance(v, (list, tuple, dict, Obj)):
        raise PyRaise('TypeError', 'int() argument', node=node)
    try:
        return int(v)
    except ValueError as e:
        raise PyRaise('ValueError', str(e), node=node)


def _float(eng, args, kwargs, node):
    v = concretize(args[0])
    if is_sym(v):
        if v.t in (INT, BOOL):
            return Sym(zterm(v, REAL), REAL)
        if v.t == REAL:
            return v
        if v.t == STR and getattr(v, 'src', None) is not None:
            # float(str(n)) of an integer n: the integer as a real (exact for |n| < 2**53, A3)
            return Sym(z3.ToReal(v.src), REAL)
        raise Unsupported('float() of symbolic string')
    if v is None:
        raise PyRaise('TypeError', 'float() argument', node=node)
    try:
        return Fraction(v) if not isinstance(v, str) else Fraction(float(v))
    except ValueError as e:
        raise PyRaise('ValueError', str(e), node=node)


def _str(eng, args, kwargs, node):
    if not args:
        return ''
    return eng.to_str(args[0])


def _bool(eng, args, kwargs, node):
    if not args:
        return False
    t = eng.truth(args[0])
    return t if isinstance(t, bool) else Sym(t, BOOL)


def _abs(eng, args, kwargs, node):
    v = concretize(args[0])
    if is_sym(v):
        return Sym(z3.If(v.z >= 0, v.z, -v.z), v.t)
    return abs(v)


def _minmax(is_min):
    def f(eng, args, kwargs, node):
        key = kwargs.get('key')
        if len(args) == 1:
            items = eng.iterate_concrete(args[0])
        else:
            items = list(args)
        if not items:
            if 'default' in kwargs:
                return kwargs['default']
            raise PyRaise('ValueError', 'min()/max() arg is an empty sequence', node=node)
        best = items[0]
        bk = eng.call(key, [best], {}) if key is not None else best
        for x in items[1:]:
            xk = eng.call(key, [x], {}) if key is not None else x
            c = eng.order(ast.Lt() if is_min else ast.Gt(), xk, bk, node)
            if isinstance(c, bool):
                if c:
                    best, bk = x, xk
            else:
                best = eng.ite(c, x, best)
                bk = eng.ite(c, xk, bk) if key is not None else best
        return best
    return f


def _sum(eng, args, kwargs, node):
    items = eng.iterate_concrete(args[0])
    acc = args[1] if len(args) > 1 else 0
    for x in items:
        acc = eng.binop(ast.Add(), acc, x, node)
    return acc


def _sorted(eng, args, kwargs, node):
    src = args[0]
    if isinstance(src, GenResult):
        src = src.items
    if hasattr(src, 'vc_sorted'):
        return src.vc_sorted(eng, kwargs)
    items = eng.iterate_concrete(src)
    key = kwargs.get('key')
    rev = kwargs.get('reverse', False)
    if type(key).__name__ == '_KeyFn':
        keys = [key.a[x] for x in items]
    else:
        keys = [eng.call(key, [x], {}) if key is not None else x for x in items]
    if not any(eng._has_sym(k) for k in keys):
        try:
            order = sorted(range(len(items)), key=lambda i: keys[i], reverse=bool(rev))
        except TypeError as e:
            raise PyRaise('TypeError', str(e), node=node)
        return [items[i] for i in order]
    # symbolic keys on a concrete spine: insertion sort by branching (stable)
    if len(items) > 6:
        raise Unsupported('sorted() of >6 symbolic items')
    out = []
    outk = []
    for x, k in zip(items, keys):
        pos = len(out)
        for j in range(len(out)):
            c = eng.order(ast.Lt() if not rev else ast.Gt(), k, outk[j], node)
            if eng.branch(c):
                pos = j
                break
        out.insert(pos, x)
        outk.insert(pos, k)
    return out


def _enumerate(eng, args, kwargs, node):
    src = args[0]
    start = args[1] if len(args) > 1 else kwargs.get('start', 0)
    if isinstance(src, GenResult):
        src = src.items
    if isinstance(src, Obj):
        m = eng.find_method(src, '__iter__')
        if m is not None:
            src = eng.call_function(m, [], {})
            if isinstance(src, GenResult):
                src = src.items
    if isinstance(src, (SymSeq, SymRange)) or hasattr(src, 'vc_indexable'):
        return EnumerateView(eng.as_indexable(src), start)
    items = eng.iterate_concrete(src)
    return [(eng.binop(ast.Add(), i, start), x) for i, x in enumerate(items)]


class EnumerateView:
    def __init__(self, inner, start=0):
        self.inner = inner
        self.start = start

    def vc_indexable(self, eng):
        return self

    def at(self, eng, k):
        return (eng.binop(ast.Add(), Sym(k, INT), self.start), self.inner.at(eng, k))

    def has(self, k):
        return self.inner.has(k)

    def reached(self, k):
        return self.inner.reached(k)

    def exhausted(self, k):
        return self.inner.exhausted(k)

    def vc_iter(self, eng):
        raise Unsupported('iteration over enumerate(symbolic sequence) needs a loop invariant')

    def vc_getitem(self, eng, idx, node=None):
        return self.at(eng, zterm(idx, INT))


def _zip(eng, args, kwargs, node):
    lists = [eng.iterate_concrete(a) for a in args]
    return [tuple(t) for t in zip(*lists)]


def _list(eng, args, kwargs, node):
    if not args:
        return []
    v = args[0]
    if isinstance(v, GenResult):
        v = v.items
    if isinstance(v, SymSeq):
        n = z3.simplify(v.n)
        if not z3.is_int_value(n):
            return v
    if hasattr(v, 'vc_list'):
        return v.vc_list(eng)
    return list(eng.iterate_concrete(v))


def _tuple(eng, args, kwargs, node):
    if not args:
        return ()
    return tuple(eng.iterate_concrete(args[0]))


def _set(eng, args, kwargs, node):
    if not args:
        return set()
    return set(eng.hashable(x) for x in eng.iterate_concrete(args[0]))


def _dict(eng, args, kwargs, node):
    d = {}
    if args:
        src = args[0]
        if isinstance(src, dict):
            d.update(src)
        else:
            for kv in eng.iterate_concrete(src):
                pair = eng.iterate_concrete(kv)
                if len(pair) != 2:
                    raise PyRaise('ValueError', 'dictionary update sequence element has length %d; 2 is required' % len(pair), node=node)
                k, v = pair
                d[eng.hashable(k)] = v
    d.update(kwargs)
    return d


TYPE_TAGS = {
    'int': (INT, BOOL), 'bool': (BOOL,), 'float': (REAL,), 'str': (STR,), 'list': ('list',), 'tuple': ('tuple',),
    'dict': ('dict', 'defaultdict', 'Counter', 'OrderedDict'), 'set': ('set',), 'NoneType': ('none',),
    'bytes': ('bytes',), 'object': ('object',), 'frozenset': ('frozenset',),
}


def _isinstance(eng, args, kwargs, node):
    v, t = args
    ts = t if isinstance(t, tuple) else (t,)
    pt = pytype(v)
    for x in ts:
        if isinstance(x, TypeObj):
            if pt in x.tags:
                return True
        elif isinstance(x, ClassRef):
            if isinstance(v, Obj):
                if v.info is not None:
                    if any(c.qualname == x.qualname for c in eng.loader.mro(v.info, eng) if isinstance(c, ClassRef)):
                        return True
                elif v.cls == x.name:
                    return True
            if isinstance(v, PyRaise) and exc_isa(v.etype, x.name, eng.extra_exc):
                return True
        elif type(x).__name__ == 'NamedTupleType':
            if isinstance(v, Obj) and v.cls == x.name:
                return True
        elif isinstance(x, str):
            if isinstance(v, Obj) and v.cls == x:
                return True
        else:
            raise Unsupported('isinstance against %r' % (x,))
    return False


def _type(eng, args, kwargs, node):
    v = args[0]
    pt = pytype(v)
    b = eng.builtins()
    m = {INT: 'int', BOOL: 'bool', REAL: 'float', STR: 'str', 'list': 'list', 'tuple': 'tuple', 'dict': 'dict',
         'set': 'set', 'none': 'NoneType'}
    if pt in m:
        return b[m[pt]] if m[pt] in b else TypeObj('NoneType', None, ('none',))
    if isinstance(v, Obj) and v.info is not None:
        return v.info
    if isinstance(v, Obj):
        return _STUB_TYPES.setdefault(v.cls, TypeObj('class:' + v.cls, None, ('stub:' + v.cls,)))
    if type(v).__name__ in ('SymSeq', 'SymList', 'GenResult'):
        return b['list']           # unbounded sequences stand for python lists
    raise Unsupported('type() of %s' % pt)


_STUB_TYPES = {}


def _anyall(is_any):
    def f(eng, args, kwargs, node):
        items = eng.iterate_concrete(args[0])
        for x in items:
            t = eng.test(x) if not eng.pure else eng.truth(x)
            if eng.pure and not isinstance(t, bool):
                zs = [eng.ztruth(y) for y in items]
                return Sym(z3.Or(*zs) if is_any else z3.And(*zs), BOOL)
            if is_any and t:
                return True
            if (not is_any) and not t:
                return False
        return not is_any
    return f


def _ord(eng, args, kwargs, node):
    v = concretize(args[0])
    if is_sym(v):
        from . import strings
        return strings.sym_ord(eng, v, node)
    try:
        return ord(v)
    except TypeError as e:
        raise PyRaise('TypeError', str(e), node=node)


def _chr(eng, args, kwargs, node):
    v = concretize(args[0])
    if is_sym(v):
        from . import strings
        return strings.sym_chr(eng, v, node)
    try:
        return chr(v)
    except (ValueError, TypeError) as e:
        raise PyRaise(type(e).__name__, str(e), node=node)


def _round(eng, args, kwargs, node):
    v = concretize(args[0])
    if len(args) > 1:
        raise Unsupported('round(x, n)')
    if is_sym(v):
        if v.t == INT:
            return v
        raise Unsupported('round() of symbolic real')
    return round(v)


def _print(eng, args, kwargs, node):
    return None


def _reversed(eng, args, kwargs, node):
    return list(reversed(eng.iterate_concrete(args[0])))


def _iter(eng, args, kwargs, node):
    if hasattr(args[0], 'vc_indexable'):
        return args[0]
    return IterObj(eng.iterate_concrete(args[0]))


class IterObj:
    def __init__(self, items):
        self.items = list(items)
        self.pos = 0

    def vc_iter(self, eng):
        rest = self.items[self.pos:]
        self.pos = len(self.items)
        return rest


def _next(eng, args, kwargs, node):
    it = args[0]
    if isinstance(it, IterObj):
        if it.pos < len(it.items):
            it.pos += 1
            return it.items[it.pos - 1]
        if len(args) > 1:
            return args[1]
        raise PyRaise('StopIteration', node=node)
    if isinstance(it, Obj):
        m = eng.find_method(it, '__next__')
        if m is not None:
            return eng.call_function(m, [], {})
    from .engine import GenResult
    if isinstance(it, GenResult) and isinstance(it.items, list):
        # a generator (executed eagerly): next() hands out and consumes its first remaining element
        if it.items:
            first = it.items[0]
            it.items = it.items[1:]
            return first
        if len(args) > 1:
            return args[1]
        raise PyRaise('StopIteration', node=node)
    raise Unsupported('next() on %s' % pytype(it))


def _map(eng, args, kwargs, node):
    from .engine import GenResult
    fn, seqs = args[0], [eng.iterate_concrete(a) for a in args[1:]]
    return GenResult([eng.call(fn, list(t), {}, node) for t in zip(*seqs)])


def _hasattr(eng, args, kwargs, node):
    o, name = args
    try:
        eng.getattr(o, name, node)
        return True
    except PyRaise as e:
        if e.etype == 'AttributeError':
            return False
        raise


def _getattr(eng, args, kwargs, node):
    o, name = args[0], args[1]
    try:
        return eng.getattr(o, name, node)
    except PyRaise as e:
        if e.etype == 'AttributeError' and len(args) > 2:
            return args[2]
        raise


def _setattr(eng, args, kwargs, node):
    eng.setattr(args[0], args[1], args[2], node)


def _exc_class(name):
    def f(eng, args, kwargs, node):
        return Obj(name, {'args': tuple(args)})
    return f


def _locals(eng, args, kwargs, node):
    raise Unsupported('locals() needs the calling frame')


def _divmod(eng, args, kwargs, node):
    a, b = args
    return (eng.binop(ast.FloorDiv(), a, b, node), eng.binop(ast.Mod(), a, b, node))


def make_builtins():
    b = {}
    for name, fn in [('len', _len), ('range', _range), ('abs', _abs), ('min', _minmax(True)), ('max', _minmax(False)),
                     ('sum', _sum), ('sorted', _sorted), ('enumerate', _enumerate), ('zip', _zip),
                     ('isinstance', _isinstance), ('type', _type), ('any', _anyall(True)), ('all', _anyall(False)),
                     ('ord', _ord), ('chr', _chr), ('round', _round), ('print', _print), ('reversed', _reversed),
                     ('iter', _iter), ('next', _next), ('map', _map), ('hasattr', _hasattr), ('getattr', _getattr),
                     ('setattr', _setattr), ('divmod', _divmod)]:
        b[name] = Builtin(name, fn)
    for name, fn in [('int', _int), ('float', _float), ('str', _str), ('bool', _bool), ('list', _list),
                     ('tuple', _tuple), ('set', _set), ('dict', _dict)]:
        b[name] = TypeObj(name, fn, TYPE_TAGS[name])
    def _slice(e, a, k, n):
        a = [concretize(x) for x in a]
        if len(a) == 1:
            return slice(None, a[0], None)
        return slice(*a)
    b['slice'] = TypeObj('slice', _slice, ('slice',))
    b['bytes'] = TypeObj('bytes', lambda e, a, k, n: a[0] if a else '', TYPE_TAGS['bytes'])
    b['object'] = TypeObj('object', lambda e, a, k, n: Obj('object', {}), TYPE_TAGS['object'])
    b['frozenset'] = TypeObj('frozenset', lambda e, a, k, n: frozenset(_set(e, a, k, n)), TYPE_TAGS['frozenset'])
    for name in ['Exception', 'ValueError', 'TypeError', 'KeyError', 'IndexError', 'AttributeError', 'OSError',
                 'IOError', 'StopIteration', 'ZeroDivisionError', 'OverflowError', 'NotImplementedError',
                 'RuntimeError', 'AssertionError', 'FileNotFoundError', 'KeyboardInterrupt', 'BaseException',
                 'ArithmeticError', 'LookupError', 'NameError', 'SystemExit']:
        b[name] = Builtin(name, _exc_class(name))
    b['None'] = None
    b['True'] = True
    b['False'] = False
    b['NotImplemented'] = NotImplemented
    b['__name__'] = 'module'
    return b


# ----------------------------------------------------------------------------- methods of native values

def _native(name, base):
    def f(eng, args, kwargs):
        try:
            return getattr(base, name)(*args, **kwargs)
        except (IndexError, KeyError, ValueError, TypeError, AttributeError) as e:
            raise PyRaise(type(e).__name__, str(e))
    return BoundMethod(name, f)


def value_method(eng, base, attr, node):
    if isinstance(base, PyRaise):
        if attr == 'args':
            return (base.msg,) if base.msg is not None else ()
        if attr == 'errno':
            return getattr(base, 'errno', None)
        raise PyRaise('AttributeError', attr, node=node)
    if isinstance(base, list):
        return list_method(eng, base, attr, node)
    if isinstance(base, dict):
        return dict_method(eng, base, attr, node)
    if isinstance(base, (set, frozenset)):
        return set_method(eng, base, attr, node)
    if isinstance(base, tuple):
        if attr in ('count', 'index') and not eng._has_sym(base):
            return _native(attr, base)
        raise Unsupported('tuple.%s' % attr)
    if pytype(base) == STR:
        from . import strings
        return strings.str_method(eng, base, attr, node)
    if isinstance(base, GenResult):
        raise PyRaise('AttributeError', "'generator' object has no attribute '%s'" % attr, node=node)
    if isinstance(base, slice):
        return {'start': base.start, 'stop': base.stop, 'step': base.step}[attr]
    if hasattr(base, 'vc_getattr'):
        return base.vc_getattr(eng, attr, node)
    if isinstance(base, (int, Fraction)) or is_sym(base):
        raise PyRaise('AttributeError', "'%s' object has no attribute '%s'" % (pytype(base), attr), node=node)
    raise Unsupported('attribute %s on %s' % (attr, pytype(base)))


def list_method(eng, base, attr, node):
    if attr in ('append', 'extend', 'insert', 'copy', 'reverse', 'clear'):
        if attr == 'extend':
            def ext(eng_, args, kwargs):
                base.extend(eng_.iterate_concrete(args[0]))
            return BoundMethod('extend', ext)
        return _native(attr, base)
    if attr == 'pop':
        def pop(eng_, args, kwargs):
            if not args:
                if not base:
                    raise PyRaise('IndexError', 'pop from empty list', node=node)
                return base.pop()
            i = concretize(args[0])
            if is_sym(i):
                n = len(base)
                iz = zterm(i, INT)
                if not eng_.branch(z3.And(iz >= -n, iz < n)):
                    raise PyRaise('IndexError', 'pop index out of range', node=node)
                norm = z3.If(iz < 0, iz + n, iz)
                # decide the concrete index by branching (list spine must stay concrete)
                for j in range(n):
                    if eng_.branch(norm == j):
                        return base.pop(j)
                raise Unsupported('pop: index not decided')
            try:
                return base.pop(i)
            except IndexError:
                raise PyRaise('IndexError', 'pop index out of range', node=node)
        return BoundMethod('pop', pop)
    if attr == 'sort':
        def sort(eng_, args, kwargs):
            res = _sorted(eng_, [list(base)], kwargs, node)
            base[:] = res
        return BoundMethod('sort', sort)
    if attr in ('index', 'count', 'remove'):
        def f(eng_, args, kwargs):
            x = args[0]
            if attr == 'count':
                c = 0
                for y in base:
                    e = eng_.equals(y, x)
                    c = eng_.binop(ast.Add(), c, Sym(z3.If(e, 1, 0), INT) if not isinstance(e, bool) else int(e))
                return c
            for j, y in enumerate(base):
                e = eng_.equals(y, x)
                if e is True or (e is not False and eng_.branch(e)):
                    if attr == 'index':
                        return j
                    del base[j]
                    return None
            raise PyRaise('ValueError', 'x not in list', node=node)
        return BoundMethod(attr, f)
    raise Unsupported('list.%s' % attr)


def dict_lookup(eng, d, k):
    """(found, value) with branching on symbolic equality."""
    k = concretize(k)
    if not is_sym(k) and not any(is_sym(x) for x in d.keys()):
        try:
            if k in d:
                return True, d[k]
        except TypeError:
            raise PyRaise('TypeError', 'unhashable')
        return False, None
    for kk in list(d.keys()):
        e = eng.equals(kk, k)
        if e is True or (e is not False and eng.branch(e)):
            return True, d[kk]
    return False, None


def dict_method(eng, base, attr, node):
    if attr == 'get':
        def get(eng_, args, kwargs):
            found, v = dict_lookup(eng_, base, args[0])
            if found:
                return v
            return args[1] if len(args) > 1 else kwargs.get('default')
        return BoundMethod('get', get)
    if attr == 'items':
        return BoundMethod('items', lambda e, a, k: [(kk, vv) for kk, vv in base.items()])
    if attr == 'keys':
        return BoundMethod('keys', lambda e, a, k: list(base.keys()))
    if attr == 'values':
        return BoundMethod('values', lambda e, a, k: list(base.values()))
    if attr == 'update':
        def upd(eng_, args, kwargs):
            if args:
                src = args[0]
                if isinstance(src, dict):
                    for kk, vv in src.items():
                        eng_.setitem(base, kk, vv)
                else:
                    for kv in eng_.iterate_concrete(src):
                        kk, vv = eng_.iterate_concrete(kv)
                        eng_.setitem(base, kk, vv)
            for kk, vv in kwargs.items():
                base[kk] = vv
        return BoundMethod('update', upd)
    if attr == 'pop':
        def pop(eng_, args, kwargs):
            k = concretize(args[0])
            for kk in list(base.keys()):
                e = eng_.equals(kk, k)
                if e is True or (e is not False and eng_.branch(e)):
                    return base.pop(kk)
            if len(args) > 1:
                return args[1]
            raise PyRaise('KeyError', repr(k), node=node)
        return BoundMethod('pop', pop)
    if attr == 'setdefault':
        def sd(eng_, args, kwargs):
            found, v = dict_lookup(eng_, base, args[0])
            if found:
                return v
            base[eng_.hashable(args[0])] = args[1] if len(args) > 1 else None
            return base[eng_.hashable(args[0])]
        return BoundMethod('setdefault', sd)
    if attr == 'copy':
        return BoundMethod('copy', lambda e, a, k: type(base)(base) if type(base) is dict else _copy_dict(base))
    if attr == 'clear':
        return _native('clear', base)
    if attr == 'most_common' and hasattr(base, 'vc_most_common'):
        return BoundMethod('most_common', lambda e, a, k: base.vc_most_common(e, a, k))
    if attr == 'default_factory':
        return getattr(base, 'default_factory', None)
    raise Unsupported('dict.%s' % attr)


def _copy_dict(d):
    import copy
    return copy.copy(d)


def set_method(eng, base, attr, node):
    if attr in ('add', 'discard', 'remove', 'update', 'copy', 'clear', 'union', 'intersection', 'difference',
                'issubset', 'pop'):
        def f(eng_, args, kwargs):
            args2 = []
            for a in args:
                if attr in ('add', 'discard', 'remove'):
                    a = eng_.hashable(a)
                elif isinstance(a, (list, tuple, set, frozenset, GenResult)):
                    a = [eng_.hashable(x) for x in eng_.iterate_concrete(a)]
                else:
                    a = eng_.hashable(a)
                    if is_sym(a):
                        raise Unsupported('set.%s with symbolic element' % attr)
                args2.append(a)
            try:
                return getattr(base, attr)(*args2)
            except KeyError as e:
                raise PyRaise('KeyError', str(e), node=node)
        return BoundMethod(attr, f)
    raise Unsupported('set.%s' % attr)
