"""pyvc.stubs - assumed contracts for objects of external classes (pysam records, files).
STUBS[class name] = {'methods': {name: fn(eng, obj, *args)}, 'props': {name: fn(eng,obj)}, 'setters': {...}}

pysam.AlignedSegment is modelled as a record of independent fields (DESIGN appendix C):
flag bits, reference_name/start/end, mapping_quality, cigarstring, query_name/sequence/qualities and a
finite map of tags; has_tag/get_tag/set_tag read and write that map; get_tag of an absent tag raises KeyError."""
import z3

from .engine import (Obj, Sym, Unsupported, PyRaise, INT, BOOL, REAL, STR, fresh, named, zterm, is_sym, concretize,
                     _fresh_counter)

FLAG_FIELDS = ['is_read1', 'is_read2', 'is_qcfail', 'is_duplicate', 'is_unmapped', 'is_reverse', 'is_paired',
               'is_proper_pair', 'mate_is_unmapped', 'is_secondary', 'is_supplementary', 'mate_is_reverse']


def make_read(eng, name, tags=None, fields=None, mapped=True, free_unmapped=False, absent_tags=(), closed=False):
    """Arbitrary alignment record.  tags: {TAG: type}; every tag is optionally present."""
    attrs = {}
    for f in FLAG_FIELDS:
        attrs[f] = named(BOOL, '%s.%s' % (name, f))
    attrs['mapping_quality'] = named(INT, name + '.mapping_quality')
    eng.assume(attrs['mapping_quality'].z >= 0)
    attrs['reference_name'] = named(STR, name + '.reference_name')
    attrs['query_name'] = named(STR, name + '.query_name')
    if mapped:
        attrs['reference_start'] = named(INT, name + '.reference_start')
        attrs['reference_end'] = named(INT, name + '.reference_end')
        eng.assume(attrs['reference_start'].z >= 0)
        eng.assume(attrs['reference_end'].z > attrs['reference_start'].z)
        attrs['cigarstring'] = named(STR, name + '.cigarstring')
        if not free_unmapped:
            eng.assume(z3.Not(attrs['is_unmapped'].z))
    else:
        attrs['reference_start'] = None
        attrs['reference_end'] = None
        attrs['cigarstring'] = None
        attrs['is_unmapped'] = True
    for k, v in (fields or {}).items():
        attrs[k] = v(eng, name + '.' + k) if callable(v) else (named(v, name + '.' + k) if v in (INT, BOOL, REAL, STR) else v)
    tg = {}
    for t, ty in (tags or {}).items():
        tg[t] = [named(BOOL, '%s.has_%s' % (name, t)), named(ty, '%s.tag_%s' % (name, t))]
    for t in absent_tags:
        tg[t] = [False, None]
    attrs['_vc_tags'] = tg
    attrs['_vc_closed'] = closed      # closed world: tags that are not declared are absent
    o = Obj('AlignedSegment', attrs)
    eng.witness[name] = o
    return o


def _tag_entry(obj, tag):
    tag = concretize(tag)
    if is_sym(tag):
        raise Unsupported('tag name must be concrete')
    tg = obj.attrs['_vc_tags']
    if tag not in tg:
        if obj.attrs.get('_vc_closed'):
            return [False, None]
        raise Unsupported('read stub does not declare tag %r (add it to the contract)' % tag)
    return tg[tag]


def read_has_tag(eng, obj, tag):
    p = _tag_entry(obj, tag)[0]
    return concretize(p) if is_sym(p) else p


def read_get_tag(eng, obj, tag, *a, **k):
    ent = _tag_entry(obj, tag)
    if getattr(eng, 'strict', 0):
        eng.guarded_must_hold(zterm(ent[0], BOOL) if is_sym(ent[0]) else bool(ent[0]))
        return ent[1]
    if not eng.pure:
        if not eng.branch(zterm(ent[0], BOOL)):
            raise PyRaise('KeyError', "tag '%s' not present" % tag)
    return ent[1]


def read_set_tag(eng, obj, tag, value, value_type=None, replace=True):
    tag = concretize(tag)
    tg = obj.attrs['_vc_tags']
    if value is None:
        if tag in tg:
            tg[tag][0] = False
        return None
    if tag not in tg:
        tg[tag] = [True, value]
    else:
        tg[tag][0] = True
        tg[tag][1] = value
    return None


def read_get_overlap(eng, obj, start, end):
    """pysam AlignedSegment.get_overlap(start, end): number of aligned bases inside [start, end) - at most the length of the
    interval and of the alignment span, zero when they are disjoint (A4)"""
    from .engine import fresh, INT, zterm
    import z3
    v = fresh(INT, 'overlap')
    s_, e_ = zterm(start, INT), zterm(end, INT)
    rs, re_ = zterm(obj.attrs['reference_start'], INT), zterm(obj.attrs['reference_end'], INT)
    lo, hi = z3.If(s_ > rs, s_, rs), z3.If(e_ < re_, e_, re_)
    eng.assume(z3.And(v.z >= 0, z3.Implies(hi <= lo, v.z == 0), z3.Implies(hi > lo, v.z <= hi - lo)))
    return v


STUBS = {
    'AlignedSegment': {
        'methods': {'has_tag': read_has_tag, 'get_tag': read_get_tag, 'set_tag': read_set_tag, 'get_overlap': read_get_overlap},
        'props': {}, 'setters': {},
    },
}


class ObjSeq:
    """Unbounded sequence of arbitrary objects produced by a factory ("independent foreach": an
    inductive loop sees one arbitrary element per iteration; elements cannot be referred to across
    iterations)."""

    def __init__(self, factory, name='seq'):
        self.factory = factory
        self.n = z3.Int('%s!%d.len' % (name, next(_fresh_counter)))
        self.name = name

    def vc_indexable(self, eng):
        eng.assume(self.n >= 0)
        return self

    def at(self, eng, k):
        o = self.factory(eng, '%s_elem' % self.name)
        eng.witness['%s_elem' % self.name] = o
        return o

    def has(self, k):
        return k < self.n

    def reached(self, k):
        return k <= self.n

    def exhausted(self, k):
        return k >= self.n

    def vc_iter(self, eng):
        raise Unsupported('iteration over an unbounded object sequence needs a loop contract')


def alignment_file(eng, read_factory, extra_methods=None):
    """pysam.AlignmentFile stub: context manager; fetch() returns an arbitrary sequence of records made by
    read_factory (the overlap-with-window guarantee of fetch is an assumed contract the factory may encode)."""
    o = Obj('AlignmentFile', {})
    o.vc_immutable = True
    methods = {
        '__enter__': lambda eng_, obj: obj,
        '__exit__': lambda eng_, obj, *a: None,
        'fetch': lambda eng_, obj, *a, **k: (eng_.ghost.__setitem__('fetch_args', (a, k)),
                                             ObjSeq(lambda e, nm: read_factory(e, nm, a, k), 'fetch'))[1],
        'close': lambda eng_, obj: None,
    }
    methods.update(extra_methods or {})
    STUBS['AlignmentFile'] = {'methods': methods, 'props': {}, 'setters': {}}
    return o
