"""pyvc.stubs - assumed contracts for objects of external classes (pysam records, file handles).
STUBS[class name] = {'methods': {name: fn(eng, obj, *args)}, 'props': {name: fn(eng,obj)}, 'setters': {...}}"""
STUBS = {}
