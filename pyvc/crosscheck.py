"""pyvc.crosscheck - guards the encoder (DESIGN 2.7): the symbolic semantics, run on concrete
inputs, must agree with CPython running the real function (result / exception class)."""
import random
from fractions import Fraction

import z3

from . import contract as C
from .engine import (Engine, Frame, PyRaise, PathEnd, Unsupported, _Return, SymSeq, GenResult, Sym, concretize)
from .loader import Loader


def gen_value(rng, spec, rngspec):
    if isinstance(rngspec, tuple) and len(rngspec) == 2 and all(isinstance(x, int) for x in rngspec):
        return rng.randint(*rngspec)
    if callable(rngspec):
        return rngspec(rng)
    if isinstance(rngspec, list):
        return rng.choice(rngspec)
    raise ValueError('bad crosscheck range %r' % (rngspec,))


def norm(v):
    v = C.to_engine_value(v)
    if isinstance(v, Sym):
        v = concretize(v)
    if isinstance(v, GenResult):
        v = v.items
    if isinstance(v, SymSeq):
        n = z3.simplify(v.n)
        v = [norm(v.get(i)) for i in range(n.as_long())]
    if isinstance(v, Sym):
        z = z3.simplify(v.z)
        raise ValueError('non-concrete engine result %s' % z)
    if isinstance(v, tuple):
        return tuple(norm(x) for x in v)
    if isinstance(v, list):
        return [norm(x) for x in v]
    if isinstance(v, Fraction) and v.denominator == 1:
        return int(v)
    return v


def crosscheck(c, tier, seed):
    spec = c.crosscheck
    n = spec.get('n', 200 if tier == 'quick' else 3000)
    rng = random.Random(seed * 7919 + 17)
    loader = Loader()
    agree = 0
    tried = 0
    skipped = 0
    disagreements = []
    real_violations = []
    samples = []
    for _ in range(n * 4):
        if tried >= n:
            break
        inputs = {}
        for name in c.params:
            if name in spec['ranges']:
                inputs[name] = gen_value(rng, c.params[name], spec['ranges'][name])
            else:
                inputs[name] = c.params[name][1] if isinstance(c.params[name], tuple) and c.params[name][0] == 'const' else None
        # requires, concretely
        ok = True
        for r in c.requires:
            v, _ = C.eval_clause_concrete(c, r, inputs, {})
            if v is not True:
                ok = False
                break
        if not ok:
            skipped += 1
            continue
        tried += 1
        native = C.call_real(c, inputs)
        eng = Engine(loader)
        eng.module_value_cache = {}
        eng.used_contracts = set()
        fref = loader.funcref(c.relpath, c.qualname)
        fr = Frame(c.qualname, fref.mod, dict(inputs))
        fr.is_top = False
        if loader.is_generator(fref.node):
            fr.yields = []
        try:
            try:
                eng.exec_block(fref.node.body, fr)
                out = ('return', fr.yields if fr.yields is not None else None)
            except _Return as r:
                out = ('return', r.value if fr.yields is None else fr.yields)
            except PyRaise as e:
                out = ('raise', e.etype)
            if out[0] == 'return':
                same = native[0] == 'return' and norm(out[1]) == norm(native[1])
            else:
                same = native[0] == 'raise' and native[1] == out[1]
        except (Unsupported, PathEnd, ValueError) as e:
            disagreements.append({'inputs': C.jsonable(inputs), 'engine': 'error: %s' % e})
            continue
        if same:
            agree += 1
            if len(samples) < 3:
                samples.append({'inputs': C.jsonable(inputs), 'outcome': C.jsonable(norm(native[1])) if native[0] == 'return' else native[1]})
        else:
            disagreements.append({'inputs': C.jsonable(inputs), 'engine': C.jsonable(norm(out[1])) if out[0] == 'return' else out,
                                  'cpython': C.jsonable(C.to_engine_value(native[1])) if native[0] == 'return' else native[1:]})
            # the real run is what counts: does CPython's own result break a postcondition on this input?
            if native[0] == 'return' and len(real_violations) < 3:
                res = C.to_engine_value(native[1])
                extra = {'result': res}
                if c.yields is not None or isinstance(native[1], list):
                    extra['Y'] = res
                for nm, text in c.ensures.items():
                    try:
                        ok, why = C.eval_clause_concrete(c, text, inputs, extra)
                    except Exception:      # noqa: BLE001
                        ok = None
                    if ok is False:
                        real_violations.append({'clause': 'post.' + nm, 'inputs': dict(inputs)})
                        break
    return {'tried': tried, 'agree': agree, 'skipped_by_requires': skipped, 'disagreements': disagreements[:5],
            'samples': samples, 'real_violations': real_violations}
