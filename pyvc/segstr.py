"""pyvc.segstr - segment representation of strings (DESIGN 2.2): a symbolic string that was built by concatenation
remembers its parts (literals and atoms).  An atom is a string variable with a declared character exclusion set
(e.g. a tag value over the header-safe alphabet contains neither ';' nor ':').  split / replace / strip are then
evaluated structurally; everything else goes to the z3 term.  The structural rules rest on the string lemmas of
contracts/strlemmas.py (discharged with cvc5/z3 on every run)."""
import z3

from .engine import Sym, Unsupported, STR, is_sym, zterm, fresh

WS = set(' \t\n\r\x0b\x0c')


def register_atom(eng, sym, excludes):
    """declare: the string variable `sym` contains none of the characters in `excludes` (added to the path condition)"""
    reg = eng.ghost.setdefault('_str_excl', {})
    reg[sym.z.get_id()] = set(excludes)
    # the exclusion is used by the structural rules only; it is not pushed to the solver as string constraints
    # (length reasoning over the atoms then stays linear integer arithmetic)
    return sym


_NOT_IN_DECIMAL = set(chr(i) for i in range(128)) - set('0123456789-')


def excl(eng, part):
    if isinstance(part, str):
        return None
    if getattr(part, 'src', None) is not None:
        return _NOT_IN_DECIMAL        # str(<int>): digits and a leading minus only
    return eng.ghost.get('_str_excl', {}).get(part.z.get_id(), set())


def parts_of(v):
    """list of parts (python str literals and atom Syms) of a string value"""
    if isinstance(v, str):
        return [v] if v else []
    if isinstance(v, Sym) and v.t == STR:
        if getattr(v, 'parts', None) is not None:
            return list(v.parts)
        return [v]
    raise Unsupported('parts of a non-string')


def build(parts):
    """string value from parts (adjacent literals merged)"""
    merged = []
    for p in parts:
        if isinstance(p, str):
            if not p:
                continue
            if merged and isinstance(merged[-1], str):
                merged[-1] += p
            else:
                merged.append(p)
        else:
            merged.append(p)
    if not merged:
        return ''
    if len(merged) == 1:
        return merged[0] if isinstance(merged[0], str) else Sym(merged[0].z, STR, None, getattr(merged[0], 'src', None))
    z = z3.Concat(*[zterm(p, STR) for p in merged])
    s = Sym(z, STR)
    s.parts = tuple(merged)
    return s


def concat(a, b):
    return build(parts_of(a) + parts_of(b))


def _atoms_exclude(eng, parts, chars):
    for p in parts:
        if isinstance(p, str):
            continue
        if not set(chars) <= excl(eng, p):
            return False
    return True


def split(eng, v, sep, maxsplit=-1, charset=False):
    """str.split(sep) for a one-character separator; with charset=True `sep` is a set of one-character separators
    (re.split of an alternation of single characters)"""
    parts = parts_of(v)
    if not isinstance(sep, str) or (len(sep) != 1 and not charset) or not sep:
        raise Unsupported('structural split needs a one-character literal separator')
    if not _atoms_exclude(eng, parts, sep):
        raise Unsupported('split(%r): an atom of the string may contain the separator' % sep)
    pieces = [[]]
    n = 0
    for p in parts:
        if isinstance(p, str):
            i = 0
            while i < len(p):
                if p[i] in sep and (maxsplit < 0 or n < maxsplit):
                    pieces.append([])
                    n += 1
                else:
                    if pieces[-1] and isinstance(pieces[-1][-1], str):
                        pieces[-1][-1] += p[i]
                    else:
                        pieces[-1].append(p[i])
                i += 1
        else:
            pieces[-1].append(p)
    return [build(ps) for ps in pieces]


def split_whitespace(eng, v, maxsplit=-1):
    """str.split() without separator: tokens between runs of whitespace, no empty tokens.  Structural when every atom is
    whitespace-free and provably non-empty (an empty atom could make a token vanish).  With maxsplit the remainder after that
    many tokens (leading whitespace removed, trailing whitespace kept as python does) is the last element."""
    parts = parts_of(v)
    if maxsplit is not None and maxsplit >= 0:
        return _split_whitespace_max(eng, parts, maxsplit)
    for p in parts:
        if not isinstance(p, str):
            if not (WS <= excl(eng, p)):
                raise Unsupported('split(): an atom may contain whitespace')
            if _maybe_empty(eng, p):
                raise Unsupported('split(): possibly empty atom')
    tokens, cur = [], []
    for p in parts:
        if isinstance(p, str):
            for ch in p:
                if ch in WS:
                    if cur:
                        tokens.append(cur)
                        cur = []
                elif cur and isinstance(cur[-1], str):
                    cur[-1] += ch
                else:
                    cur.append(ch)
        else:
            cur.append(p)
    if cur:
        tokens.append(cur)
    return [build(t) for t in tokens]


def replace(eng, v, old, new):
    parts = parts_of(v)
    if not isinstance(old, str) or not isinstance(new, str) or len(old) < 1:
        raise Unsupported('structural replace needs a literal old')
    if not _atoms_exclude(eng, parts, old):
        raise Unsupported('replace(%r): an atom may contain it' % old)
    if len(old) > 1 and any(not isinstance(p, str) and _maybe_empty(eng, p) for p in parts):
        # an occurrence of a longer pattern could straddle an empty atom between two literal parts
        raise Unsupported('replace(%r): possibly empty atom' % old)
    return build([p.replace(old, new) if isinstance(p, str) else p for p in parts])


def _maybe_empty(eng, atom):
    """can the atom be the empty string under the current path condition?"""
    try:
        return eng.feasible(z3.Length(atom.z) == 0)
    except Exception:      # noqa
        return True


def strip(eng, v, left=True):
    parts = parts_of(v)
    if not parts:
        return ''
    out = list(parts)
    # leading
    while left and out and isinstance(out[0], str):
        s = out[0].lstrip()
        if s:
            out[0] = s
            break
        out.pop(0)
    else:
        if left and out and not (WS <= excl(eng, out[0])):
            raise Unsupported('strip: leading atom may start with whitespace')
    if left and out and not isinstance(out[0], str):
        # an atom at the front: safe only if it cannot be empty-or-whitespace-leading; whitespace-free is enough when it
        # is followed by nothing strippable
        if not (WS <= excl(eng, out[0])):
            raise Unsupported('strip: leading atom may start with whitespace')
        if len(out) > 1 and isinstance(out[1], str) and out[1][:1] in WS and _maybe_empty(eng, out[0]):
            # the path splits on whether the atom is empty: if it is, stripping goes on behind it
            if eng.pure:
                raise Unsupported('strip: possibly empty atom followed by whitespace')
            if eng.branch(z3.Length(out[0].z) == 0):
                return strip(eng, build(out[1:]), left)
    while out and isinstance(out[-1], str):
        s = out[-1].rstrip()
        if s:
            out[-1] = s
            break
        out.pop()
    if out and not isinstance(out[-1], str):
        if not (WS <= excl(eng, out[-1])):
            raise Unsupported('strip: trailing atom may end with whitespace')
        if len(out) > 1 and isinstance(out[-2], str) and out[-2][-1:] in WS and _maybe_empty(eng, out[-1]):
            if eng.pure:
                raise Unsupported('strip: possibly empty atom preceded by whitespace')
            if eng.branch(z3.Length(out[-1].z) == 0):
                return strip(eng, build(out[:-1]), left)
    return build(out)


def count(eng, v, ch):
    parts = parts_of(v)
    if not isinstance(ch, str) or len(ch) != 1:
        raise Unsupported('structural count')
    if _atoms_exclude(eng, parts, ch):
        return sum(p.count(ch) for p in parts if isinstance(p, str))
    # atoms that may hold the character: countable position by position when the path fixes their length
    from .engine import INT
    tot, sym = 0, None
    for p in parts:
        if isinstance(p, str):
            tot += p.count(ch)
            continue
        n = None if eng.pure else eng.fixed_length(p)
        if n is None:
            raise Unsupported('structural count')
        for i in range(n):
            t = z3.If(z3.SubString(p.z, i, 1) == z3.StringVal(ch), 1, 0)
            sym = t if sym is None else sym + t
    return tot if sym is None else Sym(sym + tot, INT)


def startswith(eng, v, prefix):
    parts = parts_of(v)
    if isinstance(prefix, str) and parts and isinstance(parts[0], str) and len(parts[0]) >= len(prefix):
        return parts[0].startswith(prefix)
    return None


def drop_prefix(eng, v, n):
    """v[n:] when the first part is a literal of length >= n"""
    parts = parts_of(v)
    if parts and isinstance(parts[0], str) and len(parts[0]) >= n:
        return build([parts[0][n:]] + parts[1:])
    return None


def strip_chars(eng, v, chars, left):
    """str.lstrip(chars) / str.rstrip(chars) on a segmented string of unknown length.  A literal end is stripped as python
    does; an atom at the end is split into kept part + stripped run (fresh strings tied to the atom by a string equation), the
    path splits on whether the kept part is empty (then stripping continues into the neighbouring part)."""
    parts = list(parts_of(v))
    cs = z3.Union(*[z3.Re(z3.StringVal(c)) for c in chars]) if len(chars) > 1 else z3.Re(z3.StringVal(chars))
    while parts:
        p = parts[0] if left else parts[-1]
        if isinstance(p, str):
            t = p.lstrip(chars) if left else p.rstrip(chars)
            if t:
                parts[0 if left else -1] = t
                break
            parts.pop(0 if left else -1)
            continue
        ex = excl(eng, p) or set()
        if set(chars) <= ex:
            if _maybe_empty(eng, p) and eng.branch(z3.Length(p.z) == 0):
                parts.pop(0 if left else -1)
                continue
            break
        keep, run = fresh(STR, 'kept'), fresh(STR, 'stripped')
        eng.assume(p.z == (z3.Concat(run.z, keep.z) if left else z3.Concat(keep.z, run.z)))
        eng.assume(z3.InRe(run.z, z3.Star(cs)))
        edge = z3.SubString(keep.z, 0, 1) if left else z3.SubString(keep.z, z3.Length(keep.z) - 1, 1)
        eng.assume(z3.Or(z3.Length(keep.z) == 0, z3.Not(z3.InRe(edge, cs))))
        if eng.branch(z3.Length(keep.z) == 0):
            parts.pop(0 if left else -1)
            continue
        if getattr(p, 'src', None) is None:
            register_atom(eng, keep, ex)
        parts[0 if left else -1] = keep
        break
    return build(parts)


def _split_whitespace_max(eng, parts, maxsplit):
    for p in parts:
        if not isinstance(p, str):
            if not (WS <= excl(eng, p)):
                raise Unsupported('split(): an atom may contain whitespace')
            if _maybe_empty(eng, p):
                raise Unsupported('split(): possibly empty atom')
    # flatten into characters / atoms
    flat = []
    for p in parts:
        if isinstance(p, str):
            flat.extend(p)
        else:
            flat.append(p)
    tokens, cur, i = [], [], 0
    while i < len(flat):
        x = flat[i]
        ws = isinstance(x, str) and x in WS
        if ws:
            if cur:
                tokens.append(cur)
                cur = []
        else:
            if not cur and len(tokens) == maxsplit:
                tokens.append(flat[i:])      # the remainder, verbatim (trailing whitespace kept)
                return [build(t) for t in tokens]
            cur.append(x)
        i += 1
    if cur:
        tokens.append(cur)
    return [build(t) for t in tokens]
