"""pyvc.nparr - numpy arrays with a concrete number of elements and symbolic contents (bounded model of the
numpy calls used by features.py; assumed semantics per the NumPy reference, DESIGN appendix C)."""
import ast

import z3
from fractions import Fraction

from .engine import (Sym, Unsupported, PyRaise, INT, BOOL, zterm, is_sym, concretize, BoundMethod)


class NpArr:
    def __init__(self, items):
        self.items = list(items)

    def vc_len(self, eng):
        return len(self.items)

    def vc_iter(self, eng):
        return list(self.items)

    def vc_getitem(self, eng, idx, node=None):
        if isinstance(idx, NpArr):
            return NpArr([eng.getitem(self.items, i, node) for i in idx.items])
        return eng.getitem(self.items, idx, node)

    def vc_getslice(self, eng, lo, hi, node=None):
        return NpArr(eng.getslice(self.items, lo, hi, None, node))

    def vc_getattr(self, eng, attr, node=None):
        if attr == 'sum':
            return BoundMethod('sum', lambda e, a, k: e.call(e.builtins()['sum'], [self.items], {}))
        if attr == 'astype':
            return BoundMethod('astype', lambda e, a, k: _arr_astype(self, e, a, k))
        if attr == 'shape':
            return (len(self.items),)
        raise Unsupported('ndarray.%s' % attr)

    def vc_truth(self):
        raise Unsupported('truth value of an array')


def _items(eng, v):
    if isinstance(v, NpArr):
        return v.items
    return eng.iterate_concrete(v)


def np_fromiter(eng, args, kwargs, node):
    return NpArr(_items(eng, args[0]))


def np_array(eng, args, kwargs, node):
    return NpArr(_items(eng, args[0]))


def np_searchsorted(eng, args, kwargs, node):
    a = _items(eng, args[0])
    v = args[1]
    side = args[2] if len(args) > 2 else kwargs.get('side', 'left')

    def one(x):
        # for non-decreasing a: 'left' = #{i: a[i] < x}, 'right' = #{i: a[i] <= x}
        tot = 0
        for y in a:
            c = eng.order(ast.Lt() if side == 'left' else ast.LtE(), y, x, node)
            tot = eng.binop(ast.Add(), tot, Sym(z3.If(c, 1, 0), INT) if not isinstance(c, bool) else int(c))
        return concretize(tot) if is_sym(tot) else tot
    if isinstance(v, (NpArr, list, tuple)):
        return NpArr([one(x) for x in _items(eng, v)])
    return one(v)


def np_argsort(eng, args, kwargs, node):
    a = _items(eng, args[0])
    idx = list(range(len(a)))
    res = eng.call(eng.builtins()['sorted'], [idx], {'key': _KeyFn(a)})
    return NpArr(res)


class _KeyFn:
    def __init__(self, a):
        self.a = a


def np_max(eng, args, kwargs, node):
    return eng.call(eng.builtins()['max'], [_items(eng, args[0])], {})


def np_min(eng, args, kwargs, node):
    return eng.call(eng.builtins()['min'], [_items(eng, args[0])], {})


def np_clip(eng, args, kwargs, node):
    v, lo, hi = args[0], args[1], args[2]
    mx = eng.call(eng.builtins()['max'], [v, lo], {})
    return eng.call(eng.builtins()['min'], [mx, hi], {})


def np_prod(eng, args, kwargs, node):
    """numpy.prod of a python list / 1-D array: the product of its elements over the reals (A3: no rounding)"""
    tot = 1
    for x in _items(eng, args[0]):
        tot = eng.binop(ast.Mult(), tot, x)
    return tot


POW10 = z3.Function('ten_to_the_power', z3.RealSort(), z3.RealSort())


def np_power(eng, args, kwargs, node):
    base, ex = args[0], concretize(args[1])
    if not is_sym(base) and not isinstance(base, bool) and base == 10:
        # 10**x: an uninterpreted function of the exponent, for every exponent (the same exponent gives the same value;
        # nothing else is known - transcendental arithmetic is outside the model)
        from .engine import REAL, zterm
        return Sym(POW10(zterm(ex, REAL)), REAL)
    if is_sym(ex) or not isinstance(ex, int) or isinstance(ex, bool):
        raise Unsupported('numpy.power with a symbolic / non-integer exponent')
    tot = 1
    for _ in range(abs(ex)):
        tot = eng.binop(ast.Mult(), tot, base)
    return tot if ex >= 0 else eng.binop(ast.Div(), 1, tot)


TABLE = {'numpy.prod': np_prod, 'numpy.power': np_power, 'numpy.fromiter': np_fromiter, 'numpy.array': np_array, 'numpy.searchsorted': np_searchsorted,
         'numpy.argsort': np_argsort, 'numpy.max': np_max, 'numpy.min': np_min, 'numpy.clip': np_clip}
CONST = {'numpy.int64': 'int64', 'numpy.uint64': 'uint64', 'numpy.int32': 'int32', 'numpy.float64': 'float64'}


# ----------------------------------------------------------------------------- small 2-D model (rows of equal length)
class NpArr2:
    def __init__(self, rows):
        self.rows = [list(r) for r in rows]

    def vc_len(self, eng):
        return len(self.rows)

    def vc_getattr(self, eng, attr, node=None):
        if attr == 'shape':
            return (len(self.rows), len(self.rows[0]) if self.rows else 0)
        if attr == 'sum':
            def sm(e, a, k):
                axis = a[0] if a else k.get('axis')
                if axis != 1:
                    raise Unsupported('ndarray.sum over axis %r' % (axis,))
                out = []
                for r in self.rows:
                    tot = 0
                    for x in r:
                        t = e.truth(x) if pytype_is_bool(x) else None
                        if t is None:
                            tot = e.binop(ast.Add(), tot, x)
                        elif isinstance(t, bool):
                            tot = e.binop(ast.Add(), tot, int(t))
                        else:
                            tot = e.binop(ast.Add(), tot, Sym(z3.If(t, 1, 0), INT))
                    out.append(tot)
                return NpArr(out)
            return BoundMethod('sum', sm)
        raise Unsupported('ndarray2.%s' % attr)

    def vc_getitem(self, eng, idx, node=None):
        if isinstance(idx, tuple) and len(idx) == 2 and isinstance(idx[0], NpArr) and isinstance(idx[1], NpArr):
            return NpArr([eng.getitem(self.rows[eng_int(i)], j, node) for i, j in zip(idx[0].items, idx[1].items)])
        if isinstance(idx, int):
            return NpArr(self.rows[idx])
        if isinstance(idx, tuple) and len(idx) == 2 and isinstance(idx[0], slice) and isinstance(idx[1], slice):
            rows = self.rows[idx[0]]
            return NpArr2([r[idx[1]] for r in rows])
        if isinstance(idx, tuple) and len(idx) == 2 and isinstance(idx[0], slice) and isinstance(idx[1], int):
            return NpArr([r[idx[1]] for r in self.rows[idx[0]]])
        raise Unsupported('2-D indexing %r' % (idx,))

    def vc_eq(self, eng, other):
        if isinstance(other, NpCol):
            return NpArr2([[_b(eng.equals(x, c)) for x in r] for r, c in zip(self.rows, other.items)])
        raise Unsupported('2-D comparison')


class NpCol:
    """column vector (n, 1)"""

    def __init__(self, items):
        self.items = list(items)


def pytype_is_bool(x):
    return isinstance(x, bool) or (is_sym(x) and x.t == BOOL)


def _b(v):
    return v if isinstance(v, bool) else Sym(v, BOOL)


def eng_int(i):
    i = concretize(i)
    if is_sym(i):
        raise Unsupported('symbolic row index')
    return int(i)


def _arr_getitem(self, eng, idx, node=None):
    if isinstance(idx, tuple) and len(idx) == 2 and isinstance(idx[0], slice) and idx[1] is None:
        return NpCol(self.items)
    if isinstance(idx, NpArr) and idx.items and all(pytype_is_bool(x) for x in idx.items):
        # boolean mask: decide every mask element on this path
        out = []
        for x, m in zip(self.items, idx.items):
            if eng.test(m):
                out.append(x)
        return NpArr(out)
    if isinstance(idx, NpArr):
        return NpArr([eng.getitem(self.items, i, node) for i in idx.items])
    return eng.getitem(self.items, idx, node)


NpArr.vc_getitem = _arr_getitem


def _arr_setslice(self, eng, lo, hi, value, node=None):
    vals = _items(eng, value)
    if lo is None and hi is None:
        if len(vals) != len(self.items):
            raise PyRaise('ValueError', 'could not broadcast')
        self.items[:] = vals
        return
    raise Unsupported('partial slice assignment')


NpArr.vc_setslice = _arr_setslice


def _arr_eq(self, eng, other):
    if isinstance(other, NpArr):
        return NpArr([_b(eng.equals(a, b)) for a, b in zip(self.items, other.items)])
    return NpArr([_b(eng.equals(a, other)) for a in self.items])


NpArr.vc_eq = _arr_eq


def _arr_elementwise(self, other, fn):
    if isinstance(other, NpArr):
        if len(other.items) != len(self.items):
            raise PyRaise('ValueError', 'operands could not be broadcast together')
        return NpArr([fn(a, b) for a, b in zip(self.items, other.items)])
    if isinstance(other, (NpArr2, NpCol)):
        raise Unsupported('1-D / 2-D broadcasting')
    return NpArr([fn(a, other) for a in self.items])


def _arr_binop(self, eng, op, other, swapped, node=None):
    return _arr_elementwise(self, other, (lambda a, b: eng.binop(op, b, a, node)) if swapped else (lambda a, b: eng.binop(op, a, b, node)))


_FLIP = {ast.Lt: ast.Gt, ast.Gt: ast.Lt, ast.LtE: ast.GtE, ast.GtE: ast.LtE}


def _arr_order(self, eng, op, other, swapped, node=None):
    if swapped:
        op = _FLIP[type(op)]()
    return _arr_elementwise(self, other, lambda a, b: _b(eng.order(op, a, b, node)))


NpArr.vc_binop = _arr_binop
NpArr.vc_order = _arr_order


def _arr_astype(self, eng, args, kwargs):
    t = args[0] if args else kwargs.get('dtype')
    name = t if isinstance(t, str) else getattr(t, '__name__', str(t))
    if name in ('int', 'int64', 'int32', 'uint64', 'i', 'i8'):
        # values that are already integers stay as they are (exact); anything else is outside the model
        for x in self.items:
            if not (isinstance(x, int) or (is_sym(x) and x.t == INT)):
                raise Unsupported('astype(int) of non-integer array elements')
        return NpArr(list(self.items))
    if name in ('float', 'float64'):
        return NpArr(list(self.items))
    raise Unsupported('ndarray.astype(%s)' % name)


def np_zeros(eng, args, kwargs, node):
    return NpArr([0] * eng_int(args[0]))


def np_empty(eng, args, kwargs, node):
    return NpArr([None] * eng_int(args[0]))


def np_vstack(eng, args, kwargs, node):
    return NpArr2([_items(eng, r) for r in _items(eng, args[0])])


def np_arange(eng, args, kwargs, node):
    return NpArr(list(range(*[eng_int(a) for a in args])))


def np_argmax(eng, args, kwargs, node):
    v = args[0]
    axis = kwargs.get('axis', args[1] if len(args) > 1 else None)
    rows = v.rows if isinstance(v, NpArr2) and axis == 1 else [_items(eng, v)]
    out = []
    for r in rows:
        best, bi = r[0], 0
        for j in range(1, len(r)):
            c = eng.order(ast.Gt(), r[j], best, node)     # first index of the maximum: strict improvement only
            bi = eng.ite(c, j, bi) if not isinstance(c, bool) else (j if c else bi)
            best = eng.ite(c, r[j], best) if not isinstance(c, bool) else (r[j] if c else best)
        out.append(bi)
    return NpArr(out) if isinstance(v, NpArr2) and axis == 1 else out[0]


TABLE.update({'numpy.zeros': np_zeros, 'numpy.empty': np_empty, 'numpy.vstack': np_vstack, 'numpy.arange': np_arange,
              'numpy.argmax': np_argmax})
CONST.update({'numpy.newaxis': None})


def _arr_setitem(self, eng, idx, v, node=None):
    return eng.setitem(self.items, idx, v, node)


NpArr.vc_setitem = _arr_setitem
