"""pyvc.nparr - numpy arrays with a concrete number of elements and symbolic contents (bounded model of the
numpy calls used by features.py; assumed semantics per the NumPy reference, DESIGN appendix C)."""
import ast

import z3

from .engine import (Sym, Unsupported, PyRaise, INT, BOOL, zterm, is_sym, concretize, BoundMethod)


class NpArr:
    def __init__(self, items):
        self.items = list(items)

    def vc_len(self, eng):
        return len(self.items)

    def vc_iter(self, eng):
        return list(self.items)

    def vc_getitem(self, eng, idx, node=None):
        if isinstance(idx, NpArr):
            return NpArr([eng.getitem(self.items, i, node) for i in idx.items])
        return eng.getitem(self.items, idx, node)

    def vc_getslice(self, eng, lo, hi, node=None):
        return NpArr(eng.getslice(self.items, lo, hi, None, node))

    def vc_getattr(self, eng, attr, node=None):
        if attr == 'sum':
            return BoundMethod('sum', lambda e, a, k: e.call(e.builtins()['sum'], [self.items], {}))
        raise Unsupported('ndarray.%s' % attr)

    def vc_truth(self):
        raise Unsupported('truth value of an array')


def _items(eng, v):
    if isinstance(v, NpArr):
        return v.items
    return eng.iterate_concrete(v)


def np_fromiter(eng, args, kwargs, node):
    return NpArr(_items(eng, args[0]))


def np_array(eng, args, kwargs, node):
    return NpArr(_items(eng, args[0]))


def np_searchsorted(eng, args, kwargs, node):
    a = _items(eng, args[0])
    v = args[1]
    side = args[2] if len(args) > 2 else kwargs.get('side', 'left')

    def one(x):
        # for non-decreasing a: 'left' = #{i: a[i] < x}, 'right' = #{i: a[i] <= x}
        tot = 0
        for y in a:
            c = eng.order(ast.Lt() if side == 'left' else ast.LtE(), y, x, node)
            tot = eng.binop(ast.Add(), tot, Sym(z3.If(c, 1, 0), INT) if not isinstance(c, bool) else int(c))
        return concretize(tot) if is_sym(tot) else tot
    if isinstance(v, (NpArr, list, tuple)):
        return NpArr([one(x) for x in _items(eng, v)])
    return one(v)


def np_argsort(eng, args, kwargs, node):
    a = _items(eng, args[0])
    idx = list(range(len(a)))
    res = eng.call(eng.builtins()['sorted'], [idx], {'key': _KeyFn(a)})
    return NpArr(res)


class _KeyFn:
    def __init__(self, a):
        self.a = a


def np_max(eng, args, kwargs, node):
    return eng.call(eng.builtins()['max'], [_items(eng, args[0])], {})


def np_min(eng, args, kwargs, node):
    return eng.call(eng.builtins()['min'], [_items(eng, args[0])], {})


def np_clip(eng, args, kwargs, node):
    v, lo, hi = args[0], args[1], args[2]
    mx = eng.call(eng.builtins()['max'], [v, lo], {})
    return eng.call(eng.builtins()['min'], [mx, hi], {})


TABLE = {'numpy.fromiter': np_fromiter, 'numpy.array': np_array, 'numpy.searchsorted': np_searchsorted,
         'numpy.argsort': np_argsort, 'numpy.max': np_max, 'numpy.min': np_min, 'numpy.clip': np_clip}
CONST = {'numpy.int64': 'int64', 'numpy.uint64': 'uint64', 'numpy.int32': 'int32', 'numpy.float64': 'float64'}
