"""pyvc.blocks - AST selectors for verifying a block inside a large function (never by line number)."""
import ast


def find_nodes(fnode, pred):
    out = []

    def walk(n):
        for ch in ast.iter_child_nodes(n):
            if pred(ch):
                out.append(ch)
            walk(ch)
    walk(fnode)
    return sorted(out, key=lambda n: (n.lineno, n.col_offset))


def for_with_iter(fnode, iter_src, nth=0):
    """the nth `for` statement whose iterable unparses to iter_src"""
    c = find_nodes(fnode, lambda n: isinstance(n, ast.For) and ast.unparse(n.iter) == iter_src)
    return [c[nth]] if len(c) > nth else []


def if_with_test(fnode, test_src, nth=0):
    c = find_nodes(fnode, lambda n: isinstance(n, ast.If) and ast.unparse(n.test) == test_src)
    return [c[nth]] if len(c) > nth else []


def stmts_between(fnode, first_pred, last_pred):
    """consecutive statements of one statement list, from the first matching first_pred to the first matching last_pred"""
    for n in ast.walk(fnode):
        for field in ('body', 'orelse', 'finalbody'):
            lst = getattr(n, field, None)
            if not isinstance(lst, list):
                continue
            for i, st in enumerate(lst):
                if isinstance(st, ast.stmt) and first_pred(st):
                    for j in range(i, len(lst)):
                        if last_pred(lst[j]):
                            return lst[i:j + 1]
    return []
