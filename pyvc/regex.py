"""re.fullmatch / re.match / re.search with a constant pattern: the pattern is translated (sre_parse) into a z3 regular
expression and the call becomes the membership test InRe(string, R) - both outcomes are explored (match object / None).
Only the regular subset is translated (literals, classes, ranges, negated classes, '.', repetition, alternation, groups
without back-references, ^/$ at the ends); anything else is Unsupported.  The match object supports truth tests only."""
import z3

try:
    import re._parser as sre_parse
    import re._constants as sre_c
except ImportError:      # python < 3.11
    import sre_parse
    import sre_constants as sre_c

from .engine import Obj, Sym, Unsupported, STR


def _char(c):
    return z3.Re(z3.StringVal(chr(c)))


_ANY = z3.AllChar(z3.ReSort(z3.StringSort())) if hasattr(z3, 'AllChar') else z3.Range(chr(0), chr(0x2FFFF))
_CATEGORY = {
    'CATEGORY_DIGIT': lambda: z3.Range('0', '9'),
    'CATEGORY_SPACE': lambda: z3.Union(*[_char(ord(c)) for c in ' \t\n\r\x0b\x0c']),
    'CATEGORY_WORD': lambda: z3.Union(z3.Range('a', 'z'), z3.Range('A', 'Z'), z3.Range('0', '9'), _char(ord('_'))),
}


def _set(items):
    neg, parts = False, []
    for op, av in items:
        name = str(op)
        if name == 'NEGATE':
            neg = True
        elif name == 'LITERAL':
            parts.append(_char(av))
        elif name == 'RANGE':
            parts.append(z3.Range(chr(av[0]), chr(av[1])))
        elif name == 'CATEGORY' and str(av) in _CATEGORY:
            parts.append(_CATEGORY[str(av)]())
        else:
            raise Unsupported('regular expression class item %s' % name)
    r = parts[0] if len(parts) == 1 else z3.Union(*parts)
    return z3.Intersect(_ANY, z3.Complement(r)) if neg else r


def _seq(items, top=False):
    out = []
    n = len(items)
    for i, (op, av) in enumerate(items):
        name = str(op)
        if name == 'LITERAL':
            out.append(_char(av))
        elif name == 'NOT_LITERAL':
            out.append(z3.Intersect(_ANY, z3.Complement(_char(av))))
        elif name == 'ANY':
            out.append(z3.Intersect(_ANY, z3.Complement(_char(10))))
        elif name == 'IN':
            out.append(_set(av))
        elif name in ('MAX_REPEAT', 'MIN_REPEAT'):
            lo, hi, sub = av
            r = _seq(list(sub))
            if hi == sre_c.MAXREPEAT:
                out.append(z3.Star(r) if lo == 0 else (z3.Plus(r) if lo == 1 else z3.Concat(z3.Loop(r, lo, lo), z3.Star(r))))
            else:
                out.append(z3.Option(r) if (lo, hi) == (0, 1) else z3.Loop(r, lo, hi))
        elif name == 'SUBPATTERN':
            out.append(_seq(list(av[-1])))
        elif name == 'BRANCH':
            out.append(z3.Union(*[_seq(list(b)) for b in av[1]]))
        elif name == 'AT' and top and ((str(av) in ('AT_BEGINNING', 'AT_BEGINNING_STRING') and i == 0) or
                                       (str(av) in ('AT_END_STRING', 'AT_END') and i == n - 1)):
            continue
        else:
            raise Unsupported('regular expression construct %s' % name)
    if not out:
        return z3.Re(z3.StringVal(''))
    return out[0] if len(out) == 1 else z3.Concat(*out)


def compile_pattern(pattern, flags=0):
    if not isinstance(pattern, str) or flags:
        raise Unsupported('regular expression with a symbolic pattern or flags')
    p = sre_parse.parse(pattern)
    items = list(p)
    anchored_start = bool(items) and str(items[0][0]) == 'AT' and str(items[0][1]) in ('AT_BEGINNING', 'AT_BEGINNING_STRING')
    anchored_end = bool(items) and str(items[-1][0]) == 'AT' and str(items[-1][1]) == 'AT_END_STRING'
    if bool(items) and str(items[-1][0]) == 'AT' and str(items[-1][1]) == 'AT_END':
        anchored_end = 'line'       # '$': at the end or before a trailing newline
    return _seq(items, top=True), anchored_start, anchored_end


def language(kind, r, a_start, a_end):
    full = z3.Full(z3.ReSort(z3.StringSort()))
    tail = [] if a_end is True else ([z3.Option(_char(10))] if a_end == 'line' else [full])
    if kind == 'fullmatch':
        return r
    if kind == 'match':
        parts = [r] + tail
    else:
        parts = ([] if a_start else [full]) + [r] + tail
    return parts[0] if len(parts) == 1 else z3.Concat(*parts)


def _matcher(kind):
    def fn(eng, args, kwargs, node):
        pattern, string = args[0], args[1]
        r, a_start, a_end = compile_pattern(pattern, args[2] if len(args) > 2 else kwargs.get('flags', 0))
        lang = language(kind, r, a_start, a_end)
        if isinstance(string, str):
            import re
            return Obj('Match', {}) if getattr(re, kind)(pattern, string) else None
        if not (isinstance(string, Sym) and string.t == STR):
            raise Unsupported('re.%s on a non-string' % kind)
        if eng.branch(z3.InRe(string.z, lang)):
            m = Obj('Match', {})
            m.vc_immutable = True
            return m
        return None
    return fn


def _split_chars(pattern):
    """the separator characters when the pattern is an alternation of single literal characters (':| ', '[,;]'), else None"""
    items = list(sre_parse.parse(pattern))
    if len(items) == 1 and str(items[0][0]) == 'IN' and all(str(op) == 'LITERAL' for op, _ in items[0][1]):
        return ''.join(chr(av) for _, av in items[0][1])
    if len(items) == 1 and str(items[0][0]) == 'BRANCH':
        chars = ''
        for b in items[0][1][1]:
            b = list(b)
            if len(b) != 1 or str(b[0][0]) != 'LITERAL':
                return None
            chars += chr(b[0][1])
        return chars
    if len(items) == 1 and str(items[0][0]) == 'LITERAL':
        return chr(items[0][1])
    return None


def _compile(eng, args, kwargs, node):
    import re
    pattern = args[0]
    flags = args[1] if len(args) > 1 else kwargs.get('flags', 0)
    if not isinstance(pattern, str) or int(flags) & ~int(re.UNICODE):
        raise Unsupported('re.compile with a symbolic pattern or flags other than UNICODE')
    o = Obj('CompiledPattern', {'pattern': pattern})
    o.vc_immutable = True
    return o


def _pattern_method(kind):
    def m(eng, o, string, *a, **k):
        return _matcher(kind)(eng, [o.attrs['pattern'], string], {}, None)
    return m


def _pattern_split(eng, o, string, maxsplit=0):
    from . import segstr
    chars = _split_chars(o.attrs['pattern'])
    if chars is None:
        raise Unsupported('re split with a pattern that is not a set of single characters')
    if isinstance(string, str):
        import re
        return re.split(o.attrs['pattern'], string, maxsplit)
    return segstr.split(eng, string, chars, maxsplit if maxsplit else -1, charset=True)


def install_stubs():
    from . import stubs
    stubs.STUBS.setdefault('CompiledPattern', {
        'methods': {'split': _pattern_split, 'fullmatch': _pattern_method('fullmatch'), 'match': _pattern_method('match'),
                    'search': _pattern_method('search')}, 'props': {}, 'setters': {}})


TABLE = {'re.compile': _compile, 're.fullmatch': _matcher('fullmatch'), 're.match': _matcher('match'), 're.search': _matcher('search')}
