"""pyvc.loader - front end: reads /repo source on every run, locates functions/classes by
qualified name, resolves names across repo modules, dispatches externals to assumed
contracts (pyvc.externals) and reports what extraction drops."""
import ast
import hashlib
import os

from .engine import (FuncRef, ClassRef, ModRef, Obj, Unsupported, PyRaise, Builtin, _MISSING, Frame,
                     exc_isa)

REPO = os.environ.get('SCMO_REPO', '/repo')
PKG = 'singlecellmultiomics'


class RepoModRef:
    """A repo package/module referenced by dotted name (attribute access resolves lazily)."""

    def __init__(self, dotted):
        self.dotted = dotted

    def __repr__(self):
        return 'RepoModRef<%s>' % self.dotted


class ModuleInfo:
    def __init__(self, loader, dotted, path):
        self.loader = loader
        self.dotted = dotted
        self.path = path
        self.relpath = os.path.relpath(path, REPO)
        with open(path, encoding='utf-8') as f:
            self.src = f.read()
        self.tree = ast.parse(self.src)
        self.funcs, self.classes, self.assigns, self.imports, self.stars = {}, {}, {}, {}, []
        self._scan(self.tree.body)
        self._cache = {}

    def _scan(self, body):
        for st in body:
            if isinstance(st, (ast.FunctionDef, ast.AsyncFunctionDef)):
                self.funcs[st.name] = st      # last definition wins, as in python
                self.classes.pop(st.name, None)
                self.assigns.pop(st.name, None)
            elif isinstance(st, ast.ClassDef):
                self.classes[st.name] = st    # last definition wins (C02: duplicate class names)
                self.funcs.pop(st.name, None)
                self.assigns.pop(st.name, None)
            elif isinstance(st, ast.Assign):
                for t in st.targets:
                    if isinstance(t, ast.Name):
                        self.assigns[t.id] = st.value
                        self.funcs.pop(t.id, None)
                        self.classes.pop(t.id, None)
            elif isinstance(st, ast.AnnAssign) and isinstance(st.target, ast.Name) and st.value is not None:
                self.assigns[st.target.id] = st.value
            elif isinstance(st, ast.Import):
                for a in st.names:
                    if a.asname:
                        self.imports[a.asname] = ('module_as', a.name)
                    else:
                        self.imports[a.name.split('.')[0]] = ('module', a.name.split('.')[0])
            elif isinstance(st, ast.ImportFrom):
                modname = self._abs_module(st.module, st.level)
                for a in st.names:
                    if a.name == '*':
                        self.stars.append(modname)
                    else:
                        self.imports[a.asname or a.name] = ('from', modname, a.name)
            elif isinstance(st, (ast.If, ast.Try)):
                self._scan(st.body)
                if isinstance(st, ast.If):
                    self._scan(st.orelse)
                else:
                    for h in st.handlers:
                        self._scan(h.body)

    def _abs_module(self, module, level):
        if not level:
            return module
        parts = self.dotted.split('.')
        if not self.path.endswith('__init__.py'):
            parts = parts[:-1]
        parts = parts[:len(parts) - (level - 1)]
        return '.'.join(parts + ([module] if module else []))

    def resolve_global(self, name, eng):
        if name in self.funcs:
            return FuncRef(self, self.funcs[name], self.dotted + '.' + name)
        if name in self.classes:
            return ClassRef(self, self.classes[name], self.dotted + '.' + name)
        if name in self.assigns:
            if name in eng.module_value_cache.get(self.dotted, {}):
                return eng.module_value_cache[self.dotted][name]
            fr = Frame('<module %s>' % self.dotted, self, {})
            v = eng.eval(self.assigns[name], fr)
            eng.module_value_cache.setdefault(self.dotted, {})[name] = v
            return v
        if name in self.imports:
            imp = self.imports[name]
            if imp[0] == 'module':
                return self.loader.import_module(imp[1], eng)
            if imp[0] == 'module_as':
                return self.loader.import_module(imp[1], eng, asname=name)
            return self.loader.import_from(imp[1], imp[2], eng)
        for star in self.stars:
            m = self.loader.module(star) if star.startswith(PKG) else None
            if m is not None:
                v = m.resolve_global(name, eng)
                if v is not _MISSING:
                    return v
        return _MISSING


_PARSED = {}     # (path, mtime) -> ModuleInfo, per process


class Loader:
    def __init__(self, repo=None):
        self.repo = repo or REPO
        self.mods = {}
        self.spec_cache = {}
        self.call_hooks = {}          # qualname -> fn(eng, f, args, kwargs, node)
        self.instantiate_hooks = {}   # class qualname or name -> fn(eng, cref, args, kwargs)
        self.with_hooks = []          # fn(eng, node, fr) -> True if handled
        self.extraction_dropped = set()
        self.used_sources = {}        # relpath::qualname -> sha256

    # ---- modules
    def module_path(self, dotted):
        base = os.path.join(self.repo, *dotted.split('.'))
        if os.path.isfile(base + '.py'):
            return base + '.py'
        if os.path.isdir(base) and os.path.isfile(os.path.join(base, '__init__.py')):
            return os.path.join(base, '__init__.py')
        return None

    def module(self, dotted):
        if dotted not in self.mods:
            p = self.module_path(dotted)
            if p is None:
                return None
            key = (p, os.stat(p).st_mtime_ns)
            mi = _PARSED.get(key)
            if mi is None:
                mi = ModuleInfo(self, dotted, p)
                _PARSED[key] = mi
            self.mods[dotted] = mi
        return self.mods[dotted]

    def module_by_relpath(self, relpath):
        dotted = relpath[:-3].replace('/', '.')
        if dotted.endswith('.__init__'):
            dotted = dotted[:-9]
        m = self.module(dotted)
        if m is None:
            raise Unsupported('no such repo file ' + relpath)
        return m

    def import_module(self, dotted, eng, asname=None):
        if dotted.split('.')[0] == PKG:
            return RepoModRef(dotted if asname else dotted.split('.')[0]) if not asname else RepoModRef(dotted)
        from . import externals
        return externals.module_ref(dotted if asname else dotted.split('.')[0])

    def import_from(self, module, name, eng, level=0, mod=None):
        if level and mod is not None:
            module = mod._abs_module(module, level)
        if module and module.split('.')[0] == PKG:
            m = self.module(module)
            if m is not None:
                v = m.resolve_global(name, eng)
                if v is not _MISSING:
                    return v
            sub = self.module(module + '.' + name)
            if sub is not None:
                return RepoModRef(module + '.' + name)
            raise Unsupported('cannot resolve from %s import %s' % (module, name))
        return self.resolve_external('%s.%s' % (module, name), eng)

    def repomod_getattr(self, ref, attr, eng):
        sub = ref.dotted + '.' + attr
        m = self.module(ref.dotted)
        if m is not None:
            v = m.resolve_global(attr, eng)
            if v is not _MISSING:
                return v
        if self.module_path(sub) is not None:
            return RepoModRef(sub)
        raise PyRaise('AttributeError', 'module %s has no attribute %s' % (ref.dotted, attr))

    # ---- locating code
    def find(self, relpath, qualname):
        """(ModuleInfo, node, ClassDef-or-None) for `Class.method` / `func`."""
        m = self.module_by_relpath(relpath)
        parts = qualname.split('.')
        cls = None
        if len(parts) == 1:
            node = m.funcs.get(parts[0]) or m.classes.get(parts[0])
        else:
            cls = m.classes.get(parts[0])
            node = None
            if cls is not None:
                for st in cls.body:
                    if isinstance(st, ast.FunctionDef) and st.name == parts[1]:
                        node = st      # last wins
        if node is None:
            raise Unsupported('anchor not found: %s::%s (contract needs re-anchoring)' % (relpath, qualname))
        seg = ast.get_source_segment(m.src, node) or ''
        self.used_sources['%s::%s' % (relpath, qualname)] = {
            'sha256': hashlib.sha256(seg.encode()).hexdigest(), 'lines': [node.lineno, node.end_lineno]}
        return m, node, cls

    def note_interpreted(self, f):
        """evidence: every repo function body the engine interprets (not only the anchors of the contracts)."""
        key = '%s::%s' % (getattr(f.mod, 'relpath', None) or f.mod.dotted, f.qualname.split(f.mod.dotted + '.', 1)[-1])
        if key in self.used_sources:
            return
        seg = ast.get_source_segment(f.mod.src, f.node) or ''
        self.used_sources[key] = {'sha256': hashlib.sha256(seg.encode()).hexdigest(),
                                  'lines': [f.node.lineno, f.node.end_lineno], 'role': 'interpreted (inlined callee)'}

    def funcref(self, relpath, qualname, bound=None):
        m, node, cls = self.find(relpath, qualname)
        cref = ClassRef(m, cls, m.dotted + '.' + cls.name) if cls is not None else None
        return FuncRef(m, node, m.dotted + '.' + qualname, bound=bound, cls=cref)

    def classref(self, relpath, name):
        m = self.module_by_relpath(relpath)
        if name not in m.classes:
            raise Unsupported('class anchor not found: %s::%s' % (relpath, name))
        node = m.classes[name]
        seg = ast.get_source_segment(m.src, node) or ''
        self.used_sources['%s::%s' % (relpath, name)] = {
            'sha256': hashlib.sha256(seg.encode()).hexdigest(), 'lines': [node.lineno, node.end_lineno]}
        return ClassRef(m, node, m.dotted + '.' + name)

    # ---- classes
    def class_bases(self, cref, eng):
        out = []
        for b in cref.node.bases:
            try:
                fr = Frame('<bases>', cref.mod, {})
                v = eng.eval(b, fr)
            except (Unsupported, PyRaise):
                v = None
            if isinstance(v, ClassRef):
                out.append(v)
            else:
                out.append(ast.unparse(b))
        return out

    def mro(self, cref, eng):
        """method resolution order: C3 linearisation as CPython computes it (bases that are not repository classes - object,
        external classes - are left out: they define nothing the interpreter looks up here)"""
        memo = {}

        def lin(c):
            if c.qualname in memo:
                return memo[c.qualname]
            bases = [b for b in self.class_bases(c, eng) if isinstance(b, ClassRef)]
            seqs = [list(lin(b)) for b in bases] + [list(bases)]
            out = [c]
            while True:
                seqs = [s_ for s_ in seqs if s_]
                if not seqs:
                    break
                cand = None
                for s_ in seqs:
                    h = s_[0]
                    if not any(h.qualname == t.qualname for o in seqs for t in o[1:]):
                        cand = h
                        break
                if cand is None:
                    raise Unsupported('inconsistent class hierarchy (no C3 linearisation) for %s' % c.qualname)
                out.append(cand)
                for s_ in seqs:
                    if s_ and s_[0].qualname == cand.qualname:
                        del s_[0]
            memo[c.qualname] = out
            return out
        return lin(cref)

    def class_member(self, cref, name, eng, bind=None, after=None):
        order = self.mro(cref, eng)
        if after is not None:
            # super(): the lookup continues behind the class whose method is running
            idx = [i for i, c in enumerate(order) if c.qualname == after.qualname]
            order = order[idx[0] + 1:] if idx else []
        for c in order:
            found = None
            for st in c.node.body:
                if isinstance(st, ast.FunctionDef) and st.name == name:
                    found = st
                elif isinstance(st, ast.Assign):
                    for t in st.targets:
                        if isinstance(t, ast.Name) and t.id == name:
                            found = st
            if found is None:
                continue
            if isinstance(found, ast.Assign):
                # a class attribute is evaluated once, when the class body runs: all instances share the object
                cache = getattr(eng, 'module_value_cache', None)
                key = ('classattr', id(found))
                if cache is not None and key in cache:
                    return cache[key]
                fr = Frame('<class %s>' % c.name, c.mod, {})
                v = eng.eval(found.value, fr)
                if cache is not None and isinstance(v, (list, dict, set)) or hasattr(v, 'default_factory'):
                    cache[key] = v
                return v
            decos = [ast.unparse(d) for d in found.decorator_list]
            kind = 'method'
            for d in decos:
                if d in ('staticmethod',):
                    kind = 'static'
                elif d in ('classmethod',):
                    kind = 'class'
                elif d in ('property', 'cached_property', 'functools.cached_property'):
                    kind = 'property'
                elif d.endswith('.setter'):
                    kind = 'setter'
            f = FuncRef(c.mod, found, c.qualname + '.' + name, cls=c)
            f.cached = any('lru_cache' in d for d in decos)     # functools.lru_cache: modelled as a ghost memo table
            if kind == 'static':
                return f
            if kind == 'class':
                f.bound = cref
                return f
            if kind == 'setter':
                continue
            if bind is not None:
                f.bound = bind
                if kind == 'property':
                    return eng.call_function(f, [], {})
            return f
        return _MISSING

    def is_exception_class(self, cref):
        for b in cref.node.bases:
            n = ast.unparse(b).split('.')[-1]
            if exc_isa(n, 'BaseException') or n == 'BaseException':
                return True
        return False

    def register_exceptions(self, eng, relpath):
        """Make the exception classes defined in a repo module known to `except` matching."""
        m = self.module_by_relpath(relpath)
        for name, node in m.classes.items():
            for b in node.bases:
                n = ast.unparse(b).split('.')[-1]
                if exc_isa(n, 'BaseException', eng.extra_exc):
                    eng.extra_exc[name] = n

    def is_generator(self, fnode):
        for st in fnode.body:
            for n in self._walk_no_nested(st):
                if isinstance(n, (ast.Yield, ast.YieldFrom)):
                    return True
        return False

    def _walk_no_nested(self, node):
        yield node
        for ch in ast.iter_child_nodes(node):
            if isinstance(ch, (ast.FunctionDef, ast.Lambda, ast.ClassDef)):
                continue
            for x in self._walk_no_nested(ch):
                yield x

    # ---- hooks
    def call_hook(self, f):
        return self.call_hooks.get(f.qualname)

    def instantiate_hook(self, cref):
        return self.instantiate_hooks.get(cref.qualname) or self.instantiate_hooks.get(cref.name)

    def exec_with(self, eng, node, fr):
        for h in self.with_hooks:
            if h(eng, node, fr):
                return
        # @contextlib.contextmanager generator functions of the repo are executed for real: the function body runs up
        # to its `yield`, the with-body runs nested at that point (an exception of the body is raised at the yield, so
        # try/except/finally around the yield behave as in CPython), then the rest of the function runs.
        if len(node.items) == 1 and isinstance(node.items[0].context_expr, ast.Call):
            item = node.items[0]
            call = item.context_expr
            try:
                target = eng.eval(call.func, fr)
            except (Unsupported, PyRaise):
                target = None
            if isinstance(target, FuncRef) and self.call_hook(target) is None and any(
                    ast.unparse(d).endswith('contextmanager') for d in getattr(target.node, 'decorator_list', [])):
                return self.exec_with_contextmanager(eng, node, fr, target, call, item)
        # generic protocol: __enter__/__exit__ of repo objects, stubs for others
        mgrs = []
        for item in node.items:
            cm = eng.eval(item.context_expr, fr)
            enter = None
            if isinstance(cm, Obj):
                enter = eng.find_method(cm, '__enter__') or eng.stub_method(cm, '__enter__')
            if enter is None:
                if hasattr(cm, 'vc_enter'):
                    v = cm.vc_enter(eng)
                else:
                    raise Unsupported('with-statement on %r without context-manager contract' % (cm,))
            else:
                v = eng.call(enter if not callable(enter) else _wrap(enter), [], {})
            if item.optional_vars is not None:
                eng.assign(item.optional_vars, v, fr)
            mgrs.append(cm)
        from .engine import _Return, _Break, _Continue
        pending = None
        try:
            eng.exec_block(node.body, fr)
        except (PyRaise, _Return, _Break, _Continue) as ex:
            pending = ex
        for cm in reversed(mgrs):
            exc_args = [None, None, None]
            if isinstance(pending, PyRaise):
                exc_args = [pending.etype, pending, None]
            if isinstance(cm, Obj):
                ex = eng.find_method(cm, '__exit__') or eng.stub_method(cm, '__exit__')
                r = eng.call(ex if not callable(ex) else _wrap(ex), exc_args, {})
                if isinstance(pending, PyRaise) and r is True:
                    pending = None
            elif hasattr(cm, 'vc_exit'):
                cm.vc_exit(eng, exc_args)
        if pending is not None:
            raise pending

    def exec_with_contextmanager(self, eng, node, fr, target, call, item):
        from .engine import _Return, _Break, _Continue
        args = [eng.eval(a, fr) for a in call.args]
        kwargs = {k.arg: eng.eval(k.value, fr) for k in call.keywords}
        env = eng.bind_args(target.node, args, kwargs, target.bound, target.mod, target.closure)
        cfr = Frame(target.qualname, target.mod, env, closure=target.closure)
        cfr.cls = target.cls
        state = {'yielded': 0, 'pending': None}

        def on_ctx_yield(value):
            state['yielded'] += 1
            if state['yielded'] > 1:
                raise PyRaise('RuntimeError', "generator didn't stop")
            if item.optional_vars is not None:
                eng.assign(item.optional_vars, value, fr)
            try:
                eng.exec_block(node.body, fr)
            except (_Return, _Break, _Continue) as cf:
                state['pending'] = cf       # leaving the with-block by control flow: __exit__(None, None, None)
        cfr.ctx_yield = on_ctx_yield
        eng.depth += 1
        try:
            try:
                eng.exec_block(target.node.body, cfr)
            except _Return:
                pass
        finally:
            eng.depth -= 1
        if state['yielded'] == 0:
            raise PyRaise('RuntimeError', "generator didn't yield")
        if state['pending'] is not None:
            raise state['pending']

    # ---- externals
    def resolve_external(self, dotted, eng):
        from . import externals
        return externals.resolve(dotted, eng)

    def call_external(self, dotted, eng, args, kwargs, node):
        from . import externals
        return externals.call(dotted, eng, args, kwargs, node)

    def parse_spec(self, text):
        if text not in self.spec_cache:
            self.spec_cache[text] = ast.parse(text.strip(), mode='eval').body
        return self.spec_cache[text]


def _wrap(fn):
    from .engine import BoundMethod
    if callable(fn) and not isinstance(fn, FuncRef):
        return BoundMethod('<stub>', fn)
    return fn
