"""pyvc.bags - counting abstraction of an unbounded (possibly nested) list of task tuples with respect to one
arbitrary key X: the abstraction keeps the length of the list and the number of tuples (at any nesting depth)
whose first component equals X.  Sound for statements of the form "every key occurs exactly n times"."""
import z3

from .engine import (Sym, Unsupported, PyRaise, BoundMethod, INT, zterm, concretize, _fresh_counter)


def count_key(eng, v, X):
    """number of tuples with first component == X inside a python value / CountBag -> z3 Int"""
    if isinstance(v, CountBag):
        return v.c
    if isinstance(v, tuple):
        e = eng.equals(v[:len(X)], X) if isinstance(X, tuple) else eng.equals(v[0], X)
        if isinstance(e, bool):
            return z3.IntVal(1 if e else 0)
        return z3.If(e, z3.IntVal(1), z3.IntVal(0))
    if isinstance(v, list):
        tot = z3.IntVal(0)
        for x in v:
            tot = tot + count_key(eng, x, X)
        return tot
    raise Unsupported('count abstraction of %r' % (v,))


class CountBag:
    def __init__(self, X, n, c, name='bag'):
        self.X = X
        self.n = n
        self.c = c
        self.name = name

    @staticmethod
    def from_concrete(eng, lst, X, name):
        return CountBag(X, z3.IntVal(len(lst)), z3.simplify(count_key(eng, lst, X)), name)

    def vc_len(self, eng):
        return concretize(Sym(self.n, INT))

    def vc_truth(self):
        return self.n > 0

    def vc_getattr(self, eng, attr, node=None):
        if attr == 'append':
            def append(eng_, args, kwargs):
                self.c = self.c + count_key(eng_, args[0], self.X)
                self.n = self.n + 1
            return BoundMethod('append', append)
        raise Unsupported('list.%s under the counting abstraction' % attr)

    def vc_havoc_inplace(self, eng, name):
        k = next(_fresh_counter)
        self.n = z3.Int('%s!%d.len' % (name, k))
        self.c = z3.Int('%s!%d.count' % (name, k))
        eng.assume(z3.And(self.n >= 0, self.c >= 0))

    def vc_havoc(self, eng, name):
        b = CountBag(self.X, self.n, self.c, name)
        b.vc_havoc_inplace(eng, name)
        return b

    def vc_snapshot(self):
        return CountBag(self.X, self.n, self.c, self.name)
